//! Shared by c12.rs and c14.rs (included with #[path]): the small name/type/rdata universe,
//! conversion between model records and real hickory Records, a real SqliteZoneHandler driven
//! through ZoneHandler::update with TSIG-signed wire messages, zone dumps, an independent
//! RFC 2136 interpreter (the oracle), and Coq term printers.
#![allow(dead_code)]

use std::collections::BTreeMap;
use std::net::{Ipv4Addr, Ipv6Addr, SocketAddr};
use std::str::FromStr;

use futures_executor::block_on;
use hickory_net::xfer::Protocol;
use hickory_proto::op::{Message, MessageType, OpCode, Query, ResponseCode, UpdateMessage};
use hickory_proto::rr::rdata::tsig::TsigAlgorithm;
use hickory_proto::rr::rdata::{A, AAAA, CNAME, MX, NS, SOA, TXT};
use hickory_proto::rr::{DNSClass, Name, RData, Record, RecordType, TSigner};
use hickory_proto::serialize::binary::BinEncodable;
use hickory_server::server::Request;
use hickory_server::store::in_memory::InMemoryZoneHandler;
use hickory_server::store::sqlite::SqliteZoneHandler;
use hickory_server::zone_handler::{AxfrPolicy, ZoneHandler, ZoneType};
use vph::*;

// ---------------------------------------------------------------- universe

pub const LABELS: &[&str] = &["*", "com", "example", "a", "b", "cut", "c", "x", "other", "d"];
pub type NameId = Vec<u8>; // label ids, leftmost first

pub fn origin_id() -> NameId {
    vec![2, 1]
}
pub fn name_of(id: &NameId) -> Name {
    let mut s = String::new();
    for l in id {
        s.push_str(LABELS[*l as usize]);
        s.push('.');
    }
    if s.is_empty() {
        s.push('.');
    }
    Name::from_str(&s).unwrap()
}
pub fn id_of_name(n: &Name) -> NameId {
    n.iter()
        .map(|l| {
            let s = String::from_utf8_lossy(l).to_ascii_lowercase();
            LABELS.iter().position(|x| *x == s).map(|p| p as u8).unwrap_or(99)
        })
        .collect()
}

pub const T_A: u16 = 1;
pub const T_NS: u16 = 2;
pub const T_CNAME: u16 = 5;
pub const T_SOA: u16 = 6;
pub const T_MX: u16 = 15;
pub const T_TXT: u16 = 16;
pub const T_AAAA: u16 = 28;
pub const T_IXFR: u16 = 251;
pub const T_AXFR: u16 = 252;
pub const T_ANY: u16 = 255;
pub const C_IN: u16 = 1;
pub const C_CH: u16 = 3;
pub const C_NONE: u16 = 254;
pub const C_ANY: u16 = 255;

#[derive(Clone, Debug, PartialEq, Eq, PartialOrd, Ord, Hash)]
pub enum Data {
    None,
    Gen(u32),
    Cname(NameId),
    Soa(u32, u32),
}

#[derive(Clone, Debug, PartialEq, Eq)]
pub struct MRr {
    pub name: NameId,
    pub class: u16,
    pub ttl: u32,
    pub rtype: u16,
    pub data: Data,
}

pub fn rdata_of(rtype: u16, d: &Data) -> RData {
    match d {
        Data::None => RData::Update0(RecordType::from(rtype)),
        Data::Cname(t) => RData::CNAME(CNAME(name_of(t))),
        Data::Soa(serial, rest) => RData::SOA(SOA::new(
            Name::from_str("ns1.example.com.").unwrap(),
            Name::from_str("admin.example.com.").unwrap(),
            *serial,
            *rest as i32,
            1,
            2,
            3,
        )),
        Data::Gen(k) => match rtype {
            T_A => RData::A(A::new(10, 0, 0, *k as u8)),
            T_AAAA => RData::AAAA(AAAA(Ipv6Addr::new(0x2001, 0xdb8, 0, 0, 0, 0, 0, *k as u16))),
            T_NS => RData::NS(NS(Name::from_str(&format!("ns{k}.example.com.")).unwrap())),
            T_MX => RData::MX(MX::new(*k as u16, Name::from_str("mail.example.com.").unwrap())),
            _ => RData::TXT(TXT::new(vec![format!("t{k}")])),
        },
    }
}

/// the model view of a real RDATA (999 = outside the universe: forces a mismatch)
pub fn data_of_rdata(r: &RData) -> Data {
    match r {
        RData::Update0(_) => Data::None,
        RData::CNAME(c) => Data::Cname(id_of_name(&c.0)),
        RData::SOA(s) => Data::Soa(s.serial, s.refresh as u32),
        RData::A(a) => Data::Gen(a.octets()[3] as u32),
        RData::AAAA(a) => Data::Gen(a.segments()[7] as u32),
        RData::NS(n) => {
            let l = n.0.iter().next().map(|l| String::from_utf8_lossy(l).to_string()).unwrap_or_default();
            Data::Gen(l.trim_start_matches("ns").parse().unwrap_or(999))
        }
        RData::MX(m) => Data::Gen(m.preference as u32),
        RData::TXT(t) => {
            let s = t.txt_data.first().map(|b| String::from_utf8_lossy(b).to_string()).unwrap_or_default();
            Data::Gen(s.trim_start_matches('t').parse().unwrap_or(999))
        }
        _ => Data::Gen(999),
    }
}

pub fn record_of(r: &MRr) -> Record {
    let mut rec = Record::from_rdata(name_of(&r.name), r.ttl, rdata_of(r.rtype, &r.data));
    rec.dns_class = DNSClass::from(r.class);
    rec
}

// ---------------------------------------------------------------- zone dumps

/// one RRset as observed: (name, type, records (data, ttl) in Vec order); empty sets are kept
pub type Dump = Vec<(NameId, u16, Vec<(Data, u32)>)>;

pub fn dump<P: hickory_net::runtime::RuntimeProvider + Send + Sync>(h: &SqliteZoneHandler<P>) -> Dump {
    let recs = block_on(h.records());
    recs.iter()
        .map(|(k, set)| {
            let name: Name = (&k.name).into();
            (
                id_of_name(&name),
                u16::from(k.record_type),
                set.records_without_rrsigs().map(|r| (data_of_rdata(&r.data), r.ttl)).collect(),
            )
        })
        .collect()
}

pub fn dump_serial(d: &Dump) -> u32 {
    for (n, t, recs) in d {
        if *n == origin_id() && *t == T_SOA {
            if let Some((Data::Soa(s, _), _)) = recs.first() {
                return *s;
            }
        }
    }
    0
}

// ---------------------------------------------------------------- driving the implementation

pub const NOW: u64 = 1_700_000_000;

pub fn signer() -> TSigner {
    TSigner::new(
        b"c12_harness_secret_key_0123456789".to_vec(),
        TsigAlgorithm::HmacSha256,
        Name::from_str("update-key.example.com.").unwrap(),
        300,
    )
    .unwrap()
}

pub fn empty_in_memory() -> InMemoryZoneHandler {
    InMemoryZoneHandler::empty(name_of(&origin_id()), ZoneType::Primary, AxfrPolicy::Deny, None)
}

/// a handler whose zone was built by upserting `init` in order (no journal)
pub fn new_handler(init: &[MRr]) -> SqliteZoneHandler {
    let mut mem = empty_in_memory();
    for r in init {
        mem.upsert_mut(record_of(r), 0);
    }
    let mut h = SqliteZoneHandler::new(mem, AxfrPolicy::Deny, true, false);
    h.set_tsig_signers(vec![signer()]);
    h
}

#[derive(Clone, Debug)]
pub struct MMsg {
    pub auth: bool,
    pub pre: Vec<MRr>,
    pub upd: Vec<MRr>,
}

pub fn request_of(m: &MMsg, id: u16) -> Request {
    let mut msg = Message::new(id, MessageType::Query, OpCode::Update);
    let mut zone = Query::new(name_of(&origin_id()), RecordType::SOA);
    zone.set_query_class(DNSClass::IN);
    msg.add_zone(zone);
    for p in &m.pre {
        msg.add_pre_requisite(record_of(p));
    }
    for u in &m.upd {
        msg.add_update(record_of(u));
    }
    if m.auth {
        msg.finalize(&signer(), NOW).expect("sign");
    }
    let bytes = msg.to_bytes().expect("encode");
    Request::from_bytes(bytes, SocketAddr::from((Ipv4Addr::LOCALHOST, 53)), Protocol::Udp).expect("decode")
}

pub fn rcode_num(r: &Result<bool, ResponseCode>) -> u16 {
    match r {
        Ok(_) => 0,
        Err(c) => u16::from(*c),
    }
}

/// ZoneHandler::update on the real handler; 99 = panicked
pub fn do_update<P: hickory_net::runtime::RuntimeProvider + Send + Sync>(h: &SqliteZoneHandler<P>, m: &MMsg, id: u16) -> u16 {
    let req = request_of(m, id);
    let r = std::panic::catch_unwind(std::panic::AssertUnwindSafe(|| block_on(h.update(&req, NOW)).0));
    match r {
        Ok(r) => rcode_num(&r),
        Err(_) => 99,
    }
}

/// does `u32 += 1` panic in this build?
pub fn overflow_panics() -> bool {
    std::panic::catch_unwind(|| {
        let mut s = SOA::new(Name::root(), Name::root(), std::hint::black_box(u32::MAX), 0, 0, 0, 0);
        s.increment_serial();
        s.serial
    })
    .is_err()
}

// ---------------------------------------------------------------- RFC 2136 interpreter (oracle)

/// record-level zone: (name, type) -> records; only non-empty sets
pub type RZone = BTreeMap<(NameId, u16), Vec<(Data, u32)>>;

pub fn rzone_of(d: &Dump) -> RZone {
    d.iter().filter(|(_, _, r)| !r.is_empty()).map(|(n, t, r)| ((n.clone(), *t), r.clone())).collect()
}

pub fn zone_of(origin: &NameId, n: &NameId) -> bool {
    n.len() >= origin.len() && n[n.len() - origin.len()..] == origin[..]
}

/// RFC 1982: a < b
pub fn serial_lt(a: u32, b: u32) -> bool {
    a != b && ((a < b && b - a < 0x8000_0000) || (a > b && a - b > 0x8000_0000))
}

fn is_meta(t: u16, any_too: bool) -> bool {
    t == T_AXFR || t == T_IXFR || t == 253 || t == 254 || (any_too && t == T_ANY)
}

/// 3.2.5
pub fn rfc_prereq(z: &RZone, origin: &NameId, pre: &[MRr]) -> u16 {
    let mut temp: BTreeMap<(NameId, u16), Vec<Data>> = BTreeMap::new();
    for rr in pre {
        if rr.ttl != 0 {
            return 1;
        }
        if !zone_of(origin, &rr.name) {
            return 10;
        }
        let name_in_use = z.keys().any(|(n, _)| *n == rr.name);
        let rrset = z.contains_key(&(rr.name.clone(), rr.rtype));
        if rr.class == C_ANY {
            if rr.data != Data::None {
                return 1;
            }
            if rr.rtype == T_ANY {
                if !name_in_use {
                    return 3;
                }
            } else if !rrset {
                return 8;
            }
        } else if rr.class == C_NONE {
            if rr.data != Data::None {
                return 1;
            }
            if rr.rtype == T_ANY {
                if name_in_use {
                    return 6;
                }
            } else if rrset {
                return 7;
            }
        } else if rr.class == C_IN {
            temp.entry((rr.name.clone(), rr.rtype)).or_default().push(rr.data.clone());
        } else {
            return 1;
        }
    }
    for (k, want) in temp {
        let mut have: Vec<Data> = z.get(&k).map(|r| r.iter().map(|x| x.0.clone()).collect()).unwrap_or_default();
        let mut want = want;
        have.sort();
        want.sort();
        want.dedup();
        if have != want {
            return 8;
        }
    }
    0
}

/// 3.4.1.3
pub fn rfc_prescan(origin: &NameId, upd: &[MRr]) -> u16 {
    for rr in upd {
        if !zone_of(origin, &rr.name) {
            return 10;
        }
        if rr.class == C_IN {
            if is_meta(rr.rtype, true) {
                return 1;
            }
        } else if rr.class == C_ANY {
            if rr.ttl != 0 || rr.data != Data::None || is_meta(rr.rtype, false) {
                return 1;
            }
        } else if rr.class == C_NONE {
            if rr.ttl != 0 || is_meta(rr.rtype, true) {
                return 1;
            }
        } else {
            return 1;
        }
    }
    0
}

/// 3.4.2.7 (with "lower than or equal" of 3.4.2.2 for SOA)
pub fn rfc_apply(z: &RZone, origin: &NameId, upd: &[MRr]) -> RZone {
    let mut z = z.clone();
    for rr in upd {
        let k = (rr.name.clone(), rr.rtype);
        if rr.class == C_IN {
            let has_cname = z.contains_key(&(rr.name.clone(), T_CNAME));
            let has_other = z.keys().any(|(n, t)| *n == rr.name && *t != T_CNAME);
            if rr.rtype == T_CNAME {
                if has_other {
                    continue;
                }
            } else if has_cname {
                continue;
            }
            if rr.rtype == T_SOA {
                let cur = z.get(&k).and_then(|r| r.first()).map(|x| x.0.clone());
                match (cur, &rr.data) {
                    (Some(Data::Soa(zs, _)), Data::Soa(ns, _)) => {
                        if !serial_lt(zs, *ns) {
                            continue;
                        }
                    }
                    _ => continue,
                }
            }
            let set = z.entry(k).or_default();
            if rr.rtype == T_CNAME || rr.rtype == T_SOA {
                set.clear();
                set.push((rr.data.clone(), rr.ttl));
            } else if let Some(zrr) = set.iter_mut().find(|x| x.0 == rr.data) {
                *zrr = (rr.data.clone(), rr.ttl);
            } else {
                set.push((rr.data.clone(), rr.ttl));
            }
        } else if rr.class == C_ANY {
            if rr.rtype == T_ANY {
                let apex = rr.name == *origin;
                z.retain(|(n, t), _| *n != rr.name || (apex && (*t == T_SOA || *t == T_NS)));
            } else if rr.name == *origin && (rr.rtype == T_SOA || rr.rtype == T_NS) {
                continue;
            } else {
                z.remove(&k);
            }
        } else if rr.class == C_NONE {
            if rr.rtype == T_SOA {
                continue;
            }
            if let Some(set) = z.get_mut(&k) {
                if rr.rtype == T_NS && set.len() == 1 && set[0].0 == rr.data {
                    continue;
                }
                set.retain(|x| x.0 != rr.data);
                if set.is_empty() {
                    z.remove(&k);
                }
            }
        }
    }
    z
}

/// the zone invariants of the property, on a record-level zone; None = all hold
pub fn invariants(z: &RZone, origin: &NameId) -> Option<String> {
    let soas: Vec<_> = z.iter().filter(|((_, t), _)| *t == T_SOA).collect();
    if soas.len() != 1 || soas[0].0 .0 != *origin || soas[0].1.len() != 1 {
        return Some(format!("zone has {} SOA RRsets ({:?})", soas.len(), soas.iter().map(|(k, r)| (txt_name(&k.0), r.len())).collect::<Vec<_>>()));
    }
    if !matches!(soas[0].1[0].0, Data::Soa(..)) {
        return Some("apex SOA has no SOA RDATA".into());
    }
    if z.get(&(origin.clone(), T_NS)).map(|r| r.len()).unwrap_or(0) == 0 {
        return Some("no NS at the apex".into());
    }
    for ((n, t), r) in z {
        if *t == T_CNAME {
            if r.len() != 1 {
                return Some(format!("{} CNAME records at {}", r.len(), txt_name(n)));
            }
            if z.keys().any(|(n2, t2)| n2 == n && *t2 != T_CNAME) {
                return Some(format!("CNAME and other data at {}", txt_name(n)));
            }
        }
    }
    None
}

// ---------------------------------------------------------------- printers

pub fn txt_name(n: &NameId) -> String {
    if n.is_empty() {
        return ".".into();
    }
    n.iter().map(|l| LABELS.get(*l as usize).copied().unwrap_or("?")).collect::<Vec<_>>().join(".")
}
pub fn txt_data(d: &Data) -> String {
    match d {
        Data::None => "-".into(),
        Data::Gen(k) => format!("#{k}"),
        Data::Cname(t) => format!("->{}", txt_name(t)),
        Data::Soa(s, r) => format!("soa({s},{r})"),
    }
}
pub fn txt_rr(r: &MRr) -> String {
    format!("{}/c{}/t{}/ttl{}/{}", txt_name(&r.name), r.class, r.rtype, r.ttl, txt_data(&r.data))
}
pub fn txt_msg(m: &MMsg) -> String {
    format!(
        "{}pre[{}] upd[{}]",
        if m.auth { "" } else { "UNSIGNED " },
        m.pre.iter().map(txt_rr).collect::<Vec<_>>().join(" "),
        m.upd.iter().map(txt_rr).collect::<Vec<_>>().join(" ")
    )
}
pub fn txt_dump(d: &Dump) -> String {
    d.iter()
        .map(|(n, t, r)| format!("{}/t{}={{{}}}", txt_name(n), t, r.iter().map(|(d, ttl)| format!("{}@{}", txt_data(d), ttl)).collect::<Vec<_>>().join(",")))
        .collect::<Vec<_>>()
        .join(" ")
}

pub fn coq_name(n: &NameId) -> String {
    coq_list(n.iter().map(|l| l.to_string()))
}
pub fn coq_data(d: &Data) -> String {
    match d {
        Data::None => "DNone".into(),
        Data::Gen(k) => format!("(DGen {k})"),
        Data::Cname(t) => format!("(DCname {})", coq_name(t)),
        Data::Soa(s, r) => format!("(DSoa {s} {r})"),
    }
}
pub fn coq_rr(r: &MRr) -> String {
    format!("(mkRR {} {} {} {} {})", coq_name(&r.name), r.class, r.ttl, r.rtype, coq_data(&r.data))
}
pub fn coq_msg(m: &MMsg) -> String {
    format!(
        "(mkMsg {} {} {})",
        if m.auth { "true" } else { "false" },
        coq_list(m.pre.iter().map(coq_rr)),
        coq_list(m.upd.iter().map(coq_rr))
    )
}
pub fn coq_dump(d: &Dump) -> String {
    coq_list(d.iter().map(|(n, t, r)| {
        format!("({}, {}, {})", coq_name(n), t, coq_list(r.iter().map(|(d, ttl)| format!("({}, {})", coq_data(d), ttl))))
    }))
}

// ---------------------------------------------------------------- packed case encoding
// The case is shipped to Coq as one packed byte string (Lib/Pack.v) and parsed there by
// Check.v: literal Coq terms of this size take ~70 ms each to type-check, the packed form ~1 ms.
// token: one byte b < 255 = the number b; 255 followed by 4 bytes big-endian = a 32-bit number.

#[derive(Default)]
pub struct Enc(pub Vec<u8>);

impl Enc {
    pub fn num(&mut self, n: u64) {
        if n < 255 {
            self.0.push(n as u8);
        } else {
            self.0.push(255);
            self.0.extend_from_slice(&(n as u32).to_be_bytes());
        }
    }
    pub fn name(&mut self, n: &NameId) {
        self.num(n.len() as u64);
        for l in n {
            self.num(*l as u64);
        }
    }
    pub fn data(&mut self, d: &Data) {
        match d {
            Data::None => self.num(0),
            Data::Gen(k) => {
                self.num(1);
                self.num(*k as u64);
            }
            Data::Cname(t) => {
                self.num(2);
                self.name(t);
            }
            Data::Soa(s, r) => {
                self.num(3);
                self.num(*s as u64);
                self.num(*r as u64);
            }
        }
    }
    pub fn rr(&mut self, r: &MRr) {
        self.name(&r.name);
        self.num(r.class as u64);
        self.num(r.ttl as u64);
        self.num(r.rtype as u64);
        self.data(&r.data);
    }
    pub fn rrs(&mut self, rs: &[MRr]) {
        self.num(rs.len() as u64);
        for r in rs {
            self.rr(r);
        }
    }
    pub fn msg(&mut self, m: &MMsg) {
        self.num(m.auth as u64);
        self.rrs(&m.pre);
        self.rrs(&m.upd);
    }
    pub fn msgs(&mut self, ms: &[MMsg]) {
        self.num(ms.len() as u64);
        for m in ms {
            self.msg(m);
        }
    }
    pub fn dump(&mut self, d: &Dump) {
        self.num(d.len() as u64);
        for (n, t, recs) in d {
            self.name(n);
            self.num(*t as u64);
            self.num(recs.len() as u64);
            for (d, ttl) in recs {
                self.data(d);
                self.num(*ttl as u64);
            }
        }
    }
    /// optional dump: 0 = same as the previous one
    pub fn opt_dump(&mut self, d: &Dump, prev: &Dump) {
        if d == prev {
            self.num(0);
        } else {
            self.num(1);
            self.dump(d);
        }
    }
}

// ---------------------------------------------------------------- generators

pub const OWNERS: &[&[u8]] = &[
    &[2, 1],       // apex
    &[3, 2, 1],    // a
    &[4, 3, 2, 1], // b.a
    &[0, 3, 2, 1], // *.a
    &[7, 3, 2, 1], // x.a   (covered by *.a)
    &[5, 2, 1],    // cut
    &[7, 5, 2, 1], // x.cut (below the cut)
    &[6, 2, 1],    // c
    &[9, 2, 1],    // d
];
pub const OUTSIDE: &[&[u8]] = &[&[8, 1], &[1], &[]];
pub const DATA_TYPES: &[u16] = &[T_A, T_A, T_TXT, T_AAAA, T_MX, T_NS, T_CNAME];
pub const TTLS: &[u32] = &[0, 60, 300];

pub fn pick_owner(r: &mut Rng) -> NameId {
    r.pick(OWNERS).to_vec()
}

pub fn gen_data(r: &mut Rng, t: u16) -> Data {
    match t {
        T_CNAME => Data::Cname(if r.chance(1, 8) { r.pick(OUTSIDE).to_vec() } else { pick_owner(r) }),
        T_SOA => Data::Soa(0, 0),
        _ => Data::Gen(r.range(1, 3) as u32),
    }
}

pub fn serial_near(r: &mut Rng, cur: u32) -> u32 {
    match r.below(8) {
        0 => cur,
        1 => cur.wrapping_sub(1),
        2 | 3 => cur.wrapping_add(r.range(1, 5) as u32),
        4 => cur.wrapping_add(0x7fff_ffff),
        5 => cur.wrapping_add(0x8000_0001),
        6 => 0,
        _ => u32::MAX,
    }
}

pub fn gen_init(r: &mut Rng) -> Vec<MRr> {
    let s0 = match r.below(20) {
        0 => u32::MAX,
        1 => u32::MAX - 1,
        2 => u32::MAX - 2,
        3 => 0x7fff_ffff,
        4 => 0,
        _ => r.range(1, 1000) as u32,
    };
    let apex = origin_id();
    let mut v = vec![
        MRr { name: apex.clone(), class: C_IN, ttl: 300, rtype: T_SOA, data: Data::Soa(s0, 7) },
        MRr { name: apex.clone(), class: C_IN, ttl: 300, rtype: T_NS, data: Data::Gen(1) },
    ];
    if r.chance(1, 2) {
        v.push(MRr { name: apex.clone(), class: C_IN, ttl: 300, rtype: T_NS, data: Data::Gen(2) });
    }
    let pool: Vec<MRr> = vec![
        MRr { name: vec![3, 2, 1], class: C_IN, ttl: 300, rtype: T_A, data: Data::Gen(1) },
        MRr { name: vec![3, 2, 1], class: C_IN, ttl: 60, rtype: T_A, data: Data::Gen(2) },
        MRr { name: vec![3, 2, 1], class: C_IN, ttl: 300, rtype: T_TXT, data: Data::Gen(1) },
        MRr { name: vec![3, 2, 1], class: C_IN, ttl: 300, rtype: T_MX, data: Data::Gen(1) },
        MRr { name: vec![4, 3, 2, 1], class: C_IN, ttl: 300, rtype: T_TXT, data: Data::Gen(1) },
        MRr { name: vec![4, 3, 2, 1], class: C_IN, ttl: 0, rtype: T_A, data: Data::Gen(3) },
        MRr { name: vec![0, 3, 2, 1], class: C_IN, ttl: 300, rtype: T_A, data: Data::Gen(3) },
        MRr { name: vec![0, 3, 2, 1], class: C_IN, ttl: 300, rtype: T_TXT, data: Data::Gen(2) },
        MRr { name: vec![5, 2, 1], class: C_IN, ttl: 300, rtype: T_NS, data: Data::Gen(1) },
        MRr { name: vec![5, 2, 1], class: C_IN, ttl: 300, rtype: T_NS, data: Data::Gen(3) },
        MRr { name: vec![7, 5, 2, 1], class: C_IN, ttl: 300, rtype: T_A, data: Data::Gen(1) },
        MRr { name: vec![6, 2, 1], class: C_IN, ttl: 300, rtype: T_CNAME, data: Data::Cname(vec![3, 2, 1]) },
        MRr { name: vec![9, 2, 1], class: C_IN, ttl: 300, rtype: T_CNAME, data: Data::Cname(vec![6, 2, 1]) },
        MRr { name: vec![9, 2, 1], class: C_IN, ttl: 300, rtype: T_A, data: Data::Gen(1) },
        MRr { name: apex.clone(), class: C_IN, ttl: 300, rtype: T_A, data: Data::Gen(1) },
        MRr { name: apex.clone(), class: C_IN, ttl: 300, rtype: T_MX, data: Data::Gen(1) },
    ];
    let p = r.range(1, 5);
    for rr in pool {
        if r.chance(p, 6) {
            v.push(rr);
        }
    }
    v
}

/// records the history has already mentioned or that are in the zone: re-using them makes
/// deletes, duplicates and value-dependent prerequisites hit
pub fn gen_rr_like(r: &mut Rng, known: &[MRr]) -> (NameId, u16, Data, u32) {
    if !known.is_empty() && r.chance(3, 5) {
        let k = r.pick(known);
        let ttl = if r.chance(2, 3) { k.ttl } else { *r.pick(TTLS) };
        return (k.name.clone(), k.rtype, k.data.clone(), ttl);
    }
    let t = *r.pick(DATA_TYPES);
    (pick_owner(r), t, gen_data(r, t), *r.pick(TTLS))
}

pub fn gen_prereq(r: &mut Rng, known: &[MRr], malformed: bool) -> MRr {
    let (name, t, data, _) = gen_rr_like(r, known);
    let mut p = match r.below(5) {
        0 => MRr { name, class: C_ANY, ttl: 0, rtype: T_ANY, data: Data::None },
        1 => MRr { name, class: C_ANY, ttl: 0, rtype: t, data: Data::None },
        2 => MRr { name, class: C_NONE, ttl: 0, rtype: T_ANY, data: Data::None },
        3 => MRr { name, class: C_NONE, ttl: 0, rtype: t, data: Data::None },
        _ => MRr { name, class: C_IN, ttl: 0, rtype: t, data },
    };
    if malformed {
        match r.below(5) {
            0 => p.ttl = 60,
            1 => p.class = C_CH,
            2 => p.name = r.pick(OUTSIDE).to_vec(),
            3 => {
                if p.class != C_IN {
                    p.rtype = T_A;
                    p.data = Data::Gen(1);
                }
            }
            _ => p.rtype = *r.pick(&[T_AXFR, T_IXFR, T_SOA, T_NS]),
        }
        if p.rtype != T_A && p.data == Data::Gen(1) && p.class != C_IN {
            p.rtype = T_A;
        }
    }
    p
}

pub fn gen_update(r: &mut Rng, known: &[MRr], cur_serial: u32, malformed: bool) -> MRr {
    let (name, t, data, ttl) = gen_rr_like(r, known);
    let apex = origin_id();
    let mut u = match r.below(16) {
        0..=6 => MRr { name, class: C_IN, ttl, rtype: t, data },
        7 | 8 => MRr { name, class: C_ANY, ttl: 0, rtype: t, data: Data::None },
        9 => MRr { name, class: C_ANY, ttl: 0, rtype: T_ANY, data: Data::None },
        10..=12 => MRr { name, class: C_NONE, ttl: 0, rtype: t, data },
        13 => {
            // SOA add: apex mostly, serial around the current one
            let n = if r.chance(5, 6) { apex.clone() } else { name };
            MRr { name: n, class: C_IN, ttl: *r.pick(TTLS), rtype: T_SOA, data: Data::Soa(serial_near(r, cur_serial), r.range(7, 8) as u32) }
        }
        14 => {
            // apex NS / SOA deletes in every form
            let ty = *r.pick(&[T_NS, T_SOA, T_ANY]);
            match r.below(3) {
                0 => MRr { name: apex.clone(), class: C_ANY, ttl: 0, rtype: ty, data: Data::None },
                1 => MRr { name: apex.clone(), class: C_NONE, ttl: 0, rtype: T_NS, data: Data::Gen(r.range(1, 2) as u32) },
                _ => MRr { name: apex.clone(), class: C_NONE, ttl: 0, rtype: T_SOA, data: Data::Soa(cur_serial, 7) },
            }
        }
        _ => MRr { name: apex.clone(), class: C_IN, ttl, rtype: *r.pick(&[T_NS, T_A, T_CNAME, T_MX]), data: Data::Gen(r.range(1, 3) as u32) },
    };
    if u.rtype == T_CNAME && u.class != C_ANY && !matches!(u.data, Data::Cname(_)) {
        u.data = Data::Cname(pick_owner(r));
    }
    if malformed {
        match r.below(7) {
            0 => u.ttl = 60,
            1 => u.class = C_CH,
            2 => u.name = r.pick(OUTSIDE).to_vec(),
            3 => u.rtype = *r.pick(&[T_AXFR, T_IXFR, T_ANY]),
            4 => {
                if u.class == C_ANY {
                    u.rtype = T_A;
                    u.data = Data::Gen(1);
                }
            }
            5 => {
                // class IN / NONE with empty RDATA
                if u.class != C_ANY {
                    u.data = Data::None;
                }
            }
            _ => {
                if u.class == C_NONE {
                    u.rtype = T_ANY;
                    u.data = Data::None;
                }
            }
        }
    }
    u
}

/// the type of a real record is the type of its RDATA: keep the model record consistent
pub fn normalise(mut r: MRr) -> MRr {
    match &r.data {
        Data::Soa(..) => r.rtype = T_SOA,
        Data::Cname(_) => r.rtype = T_CNAME,
        Data::Gen(_) => {
            if ![T_A, T_AAAA, T_NS, T_MX, T_TXT].contains(&r.rtype) {
                r.data = Data::None;
            }
        }
        Data::None => {}
    }
    r
}

pub struct Hist {
    pub init: Vec<MRr>,
    pub msgs: Vec<MMsg>,
    pub kind: &'static str,
}

pub fn gen_history(r: &mut Rng, max_len: u64) -> Hist {
    let init = gen_init(r);
    let mut known: Vec<MRr> = init.clone();
    let s0 = match &init[0].data {
        Data::Soa(s, _) => *s,
        _ => 0,
    };
    let near_wrap = s0 >= u32::MAX - 2;
    let mal_rate = *r.pick(&[0u64, 0, 1, 3]);
    let n = r.range(1, max_len);
    let mut msgs = vec![];
    let mut any_mal = false;
    let mut any_pre = false;
    for i in 0..n {
        let npre = *r.pick(&[0u64, 0, 1, 1, 2]);
        let nupd = *r.pick(&[0u64, 1, 1, 1, 2, 2, 3]);
        let mut pre = vec![];
        for _ in 0..npre {
            let mal = mal_rate > 0 && r.chance(mal_rate, 20);
            any_mal |= mal;
            pre.push(normalise(gen_prereq(r, &known, mal)));
        }
        any_pre |= npre > 0;
        let mut upd = vec![];
        for _ in 0..nupd {
            let mal = mal_rate > 0 && r.chance(mal_rate, 20);
            any_mal |= mal;
            let u = normalise(gen_update(r, &known, s0.wrapping_add(i as u32), mal));
            if u.class == C_IN && u.rtype != T_SOA {
                known.push(u.clone());
            }
            upd.push(u);
        }
        let auth = !(mal_rate > 0 && r.chance(1, 30));
        any_mal |= !auth;
        msgs.push(MMsg { auth, pre, upd });
    }
    let kind = if near_wrap {
        "near-wrap"
    } else if any_mal {
        "malformed"
    } else if any_pre {
        "with-prereq"
    } else {
        "update-only"
    };
    Hist { init, msgs, kind }
}

/// hand-picked histories (index < FIXED): one witness per known finding + a conformant tour
pub const FIXED: u64 = 11;

pub fn rr(name: &[u8], class: u16, ttl: u32, rtype: u16, data: Data) -> MRr {
    MRr { name: name.to_vec(), class, ttl, rtype, data }
}

pub fn fixed_history(index: u64) -> Hist {
    let apex: &[u8] = &[2, 1];
    let a: &[u8] = &[3, 2, 1];
    let c: &[u8] = &[6, 2, 1];
    let cut: &[u8] = &[5, 2, 1];
    let base = |serial: u32| -> Vec<MRr> {
        vec![
            rr(apex, C_IN, 300, T_SOA, Data::Soa(serial, 7)),
            rr(apex, C_IN, 300, T_NS, Data::Gen(1)),
            rr(apex, C_IN, 300, T_NS, Data::Gen(2)),
            rr(a, C_IN, 300, T_A, Data::Gen(1)),
            rr(a, C_IN, 300, T_A, Data::Gen(2)),
            rr(&[0, 3, 2, 1], C_IN, 300, T_TXT, Data::Gen(2)),
            rr(c, C_IN, 300, T_CNAME, Data::Cname(a.to_vec())),
            rr(cut, C_IN, 300, T_NS, Data::Gen(3)),
            rr(&[7, 5, 2, 1], C_IN, 300, T_A, Data::Gen(1)),
        ]
    };
    let m = |pre: Vec<MRr>, upd: Vec<MRr>| MMsg { auth: true, pre, upd };
    let (init, msgs): (Vec<MRr>, Vec<MMsg>) = match index {
        // C12-apex-delete-all
        0 => (base(10), vec![m(vec![], vec![rr(apex, C_ANY, 0, T_ANY, Data::None)]), m(vec![], vec![rr(a, C_IN, 60, T_A, Data::Gen(3))])]),
        // C12-soa-not-apex
        1 => (base(10), vec![m(vec![], vec![rr(a, C_IN, 300, T_SOA, Data::Soa(1, 7))])]),
        // C12-serial-arith: increment at the top serial
        2 => (base(u32::MAX), vec![m(vec![], vec![rr(a, C_IN, 60, T_A, Data::Gen(3))]), m(vec![], vec![rr(a, C_IN, 60, T_TXT, Data::Gen(1))])]),
        // C12-serial-arith: SOA updates compared without serial arithmetic
        3 => (
            base(4294967293),
            vec![m(vec![], vec![rr(apex, C_IN, 300, T_SOA, Data::Soa(1, 8))]), m(vec![], vec![rr(apex, C_IN, 300, T_SOA, Data::Soa(4294967293u32.wrapping_add(0x8000_0001), 8))])],
        ),
        // C12-delete-name-keeps-ns
        4 => (base(10), vec![m(vec![], vec![rr(cut, C_IN, 60, T_TXT, Data::Gen(1))]), m(vec![], vec![rr(cut, C_ANY, 0, T_ANY, Data::None)])]),
        // C12-empty-rrset-kept
        5 => (
            base(10),
            vec![
                m(vec![], vec![rr(&[9, 2, 1], C_IN, 60, T_A, Data::Gen(1))]),
                m(vec![], vec![rr(&[9, 2, 1], C_NONE, 0, T_A, Data::Gen(1))]),
                m(vec![], vec![rr(&[9, 2, 1], C_IN, 60, T_CNAME, Data::Cname(a.to_vec()))]),
                m(vec![], vec![rr(&[9, 2, 1], C_ANY, 0, T_ANY, Data::None)]),
            ],
        ),
        // C12-ttl-not-replaced
        6 => (base(10), vec![m(vec![], vec![rr(a, C_IN, 60, T_A, Data::Gen(1))])]),
        // C12-serial-bump-without-change
        7 => (
            base(10),
            vec![
                m(vec![], vec![rr(c, C_IN, 300, T_CNAME, Data::Cname(a.to_vec()))]),
                m(vec![], vec![rr(a, C_IN, 60, T_A, Data::Gen(3)), rr(a, C_NONE, 0, T_A, Data::Gen(3))]),
            ],
        ),
        // C12-prereq-via-lookup: wildcard, referral, CNAME chase
        8 => (
            base(10),
            vec![
                m(vec![rr(&[7, 3, 2, 1], C_ANY, 0, T_TXT, Data::None)], vec![rr(a, C_IN, 60, T_TXT, Data::Gen(1))]),
                m(vec![rr(&[7, 5, 2, 1], C_NONE, 0, T_TXT, Data::None)], vec![rr(a, C_IN, 60, T_TXT, Data::Gen(2))]),
                m(vec![rr(c, C_ANY, 0, T_A, Data::None)], vec![rr(a, C_IN, 60, T_TXT, Data::Gen(3))]),
            ],
        ),
        // C12-prereq-subset
        9 => (base(10), vec![m(vec![rr(a, C_IN, 0, T_A, Data::Gen(1))], vec![rr(a, C_IN, 60, T_TXT, Data::Gen(1))])]),
        // a conformant tour of tables 3.2.4 and 3.4.2.6
        _ => (
            base(10),
            vec![
                m(vec![rr(a, C_ANY, 0, T_ANY, Data::None), rr(a, C_ANY, 0, T_A, Data::None)], vec![rr(a, C_IN, 60, T_A, Data::Gen(3))]),
                m(vec![rr(&[9, 2, 1], C_NONE, 0, T_ANY, Data::None), rr(a, C_NONE, 0, T_MX, Data::None)], vec![rr(&[9, 2, 1], C_IN, 60, T_MX, Data::Gen(1))]),
                m(vec![rr(a, C_IN, 0, T_A, Data::Gen(1)), rr(a, C_IN, 0, T_A, Data::Gen(2)), rr(a, C_IN, 0, T_A, Data::Gen(3))], vec![rr(a, C_NONE, 0, T_A, Data::Gen(2))]),
                m(vec![rr(a, C_NONE, 0, T_ANY, Data::None)], vec![rr(a, C_IN, 60, T_A, Data::Gen(2))]),
                m(vec![], vec![rr(a, C_ANY, 0, T_A, Data::None), rr(apex, C_ANY, 0, T_NS, Data::None), rr(apex, C_NONE, 0, T_NS, Data::Gen(1))]),
                m(vec![], vec![rr(apex, C_NONE, 0, T_NS, Data::Gen(2)), rr(a, C_IN, 60, T_CNAME, Data::Cname(c.to_vec()))]),
                m(vec![], vec![rr(&[9, 2, 1], C_ANY, 0, T_ANY, Data::None), rr(apex, C_IN, 300, T_SOA, Data::Soa(20, 8))]),
                m(vec![], vec![rr(a, C_CH, 60, T_A, Data::Gen(1))]),
                MMsg { auth: false, pre: vec![], upd: vec![rr(a, C_IN, 60, T_A, Data::Gen(1))] },
            ],
        ),
    };
    Hist { init, msgs, kind: "fixed" }
}

