//! Shared helpers for the per-property correspondence harness binaries.
//! Every random choice derives from one SplitMix64 state so that a case is a pure
//! function of (seed, index) and replays exactly.

use std::collections::BTreeMap;
use std::fmt::Write as _;
use std::io::Write as _;
use std::path::{Path, PathBuf};

pub struct Rng(pub u64);

impl Rng {
    pub fn new(seed: u64) -> Self {
        Self(seed)
    }
    /// generator for case `index` under `seed` (independent streams)
    pub fn for_case(seed: u64, index: u64) -> Self {
        // fully mix (seed, index) so that neighbouring indices give unrelated streams
        let mut z = seed.wrapping_mul(0xD6E8_FEB8_6659_FD93) ^ index.wrapping_mul(0xA076_1D64_78BD_642F).rotate_left(32);
        z = (z ^ (z >> 30)).wrapping_mul(0xBF58_476D_1CE4_E5B9);
        z = (z ^ (z >> 27)).wrapping_mul(0x94D0_49BB_1331_11EB);
        z ^= z >> 31;
        let mut r = Self(z);
        r.next();
        r
    }
    pub fn next(&mut self) -> u64 {
        self.0 = self.0.wrapping_add(0x9E37_79B9_7F4A_7C15);
        let mut z = self.0;
        z = (z ^ (z >> 30)).wrapping_mul(0xBF58_476D_1CE4_E5B9);
        z = (z ^ (z >> 27)).wrapping_mul(0x94D0_49BB_1331_11EB);
        z ^ (z >> 31)
    }
    /// uniform in 0..n (n > 0)
    pub fn below(&mut self, n: u64) -> u64 {
        self.next() % n
    }
    /// uniform in lo..=hi
    pub fn range(&mut self, lo: u64, hi: u64) -> u64 {
        lo + self.below(hi - lo + 1)
    }
    pub fn chance(&mut self, num: u64, den: u64) -> bool {
        self.below(den) < num
    }
    pub fn pick<'a, T>(&mut self, xs: &'a [T]) -> &'a T {
        &xs[self.below(xs.len() as u64) as usize]
    }
    pub fn bytes(&mut self, n: usize) -> Vec<u8> {
        (0..n).map(|_| self.next() as u8).collect()
    }
}

pub fn hex(b: &[u8]) -> String {
    let mut s = String::with_capacity(b.len() * 2);
    for x in b {
        write!(s, "{:02x}", x).unwrap();
    }
    s
}

pub fn unhex(s: &str) -> Vec<u8> {
    let s = s.as_bytes();
    (0..s.len() / 2)
        .map(|i| u8::from_str_radix(std::str::from_utf8(&s[2 * i..2 * i + 2]).unwrap(), 16).unwrap())
        .collect()
}

/// Coq string literal holding the hex of `b`
pub fn coq_hex(b: &[u8]) -> String {
    format!("\"{}\"", hex(b))
}

/// Coq term of type `pbytes` (Lib/Pack.v): 7 bytes per primitive int, little-endian
pub fn coq_pb(b: &[u8]) -> String {
    let ws: Vec<String> = b
        .chunks(7)
        .map(|c| {
            let mut w = 0u64;
            for (j, x) in c.iter().enumerate() {
                w |= (*x as u64) << (8 * j);
            }
            w.to_string()
        })
        .collect();
    format!("(PB {} [{}]%uint63)", b.len(), ws.join("; "))
}

/// Coq list literal from already-rendered elements
pub fn coq_list<I: IntoIterator<Item = String>>(xs: I) -> String {
    let v: Vec<String> = xs.into_iter().collect();
    format!("[{}]", v.join("; "))
}

pub fn coq_n_list(b: &[u8]) -> String {
    coq_list(b.iter().map(|x| x.to_string()))
}

/// FNV-1a, for counting distinct cases
pub fn fnv(s: &str) -> u64 {
    let mut h = 0xcbf29ce484222325u64;
    for b in s.as_bytes() {
        h ^= *b as u64;
        h = h.wrapping_mul(0x100000001b3);
    }
    h
}

pub struct Args {
    pub seed: u64,
    pub n: u64,
    pub tier: String,
    pub out: PathBuf,
    pub replay: Option<(u64, u64)>,
    pub extra: BTreeMap<String, String>,
}

pub fn parse_args() -> Args {
    let mut a = Args {
        seed: 1,
        n: 1000,
        tier: "quick".into(),
        out: PathBuf::from("."),
        replay: None,
        extra: BTreeMap::new(),
    };
    let v: Vec<String> = std::env::args().skip(1).collect();
    let mut i = 0;
    while i < v.len() {
        let k = v[i].as_str();
        let val = v.get(i + 1).cloned().unwrap_or_default();
        match k {
            "--seed" => a.seed = val.parse().unwrap(),
            "--n" => a.n = val.parse().unwrap(),
            "--tier" => a.tier = val,
            "--out" => a.out = PathBuf::from(val),
            "--replay" => {
                // seed:index
                let mut it = val.split(':');
                let s = it.next().unwrap().parse().unwrap();
                let ix = it.next().unwrap().parse().unwrap();
                a.replay = Some((s, ix));
            }
            _ => {
                a.extra.insert(k.trim_start_matches("--").to_string(), val);
            }
        }
        i += 2;
    }
    a
}

/// One explored case, as the driver needs it.
pub struct CaseOut {
    /// index under the run's seed (replay key)
    pub index: u64,
    /// Coq term of type `case` (input + what the implementation did)
    pub coq: String,
    /// human-readable one-line description (goes to cases.txt / replay files / samples)
    pub text: String,
    /// canonical string of the *input* only (distinctness)
    pub key: String,
    /// non-trivial by the property's rule
    pub nontrivial: bool,
    /// kind tag for the distribution histogram
    pub kind: String,
    /// direct-oracle failures on the implementation (property violated on real code)
    pub oracle_fail: Option<String>,
    /// known-finding class this case falls in, if any
    pub known: Option<String>,
}

/// Writes shards `cases_<k>.v`, `cases.txt` and `summary.json` into `out`.
pub fn emit(
    prop: &str,
    module: &str,
    args: &Args,
    cases: &[CaseOut],
    rule: &str,
    extra: serde_json::Value,
) {
    std::fs::create_dir_all(&args.out).unwrap();
    // about two dozen shards so that the 16 parallel coqc are all busy
    let shard_size = std::env::var("VPH_SHARD").ok().and_then(|s| s.parse().ok()).unwrap_or((cases.len() / 24).clamp(40, 500));
    let mut shards = vec![];
    for (k, chunk) in cases.chunks(shard_size).enumerate() {
        let name = format!("cases_{k}.v");
        let mut f = std::io::BufWriter::new(std::fs::File::create(args.out.join(&name)).unwrap());
        writeln!(f, "From Coq Require Import String Uint63.\nFrom HV Require Import Lib.Base Lib.Pack {module}.Model {module}.Check.\nOpen Scope string_scope. Open Scope N_scope.").unwrap();
        writeln!(f, "Definition cases : list case := [").unwrap();
        for (i, c) in chunk.iter().enumerate() {
            writeln!(f, "  {}{}", c.coq, if i + 1 < chunk.len() { ";" } else { "" }).unwrap();
        }
        writeln!(f, "].\nEval vm_compute in (bad cases).").unwrap();
        shards.push(serde_json::json!({"file": name, "first": k * shard_size, "count": chunk.len()}));
    }
    let mut txt = std::io::BufWriter::new(std::fs::File::create(args.out.join("cases.txt")).unwrap());
    let mut distinct = std::collections::HashSet::new();
    let mut kinds: BTreeMap<String, u64> = BTreeMap::new();
    let mut oracle = vec![];
    let mut known: BTreeMap<String, u64> = BTreeMap::new();
    for (pos, c) in cases.iter().enumerate() {
        let clean: String = c.text.chars().map(|ch| if ch.is_control() { '?' } else { ch }).collect();
        writeln!(txt, "{}\t{}\t{}", pos, c.index, clean).unwrap();
        if c.nontrivial {
            distinct.insert(fnv(&c.key));
        }
        *kinds.entry(c.kind.clone()).or_default() += 1;
        if let Some(k) = &c.known {
            *known.entry(k.clone()).or_default() += 1;
        }
        if let Some(why) = &c.oracle_fail {
            oracle.push(serde_json::json!({"pos": pos, "index": c.index, "why": why, "text": c.text, "known": c.known}));
        }
    }
    let samples: Vec<&str> = cases.iter().step_by((cases.len() / 5).max(1)).take(6).map(|c| c.text.as_str()).collect();
    let summary = serde_json::json!({
        "property": prop, "seed": args.seed, "tier": args.tier,
        "evaluations": cases.len(), "distinct_nontrivial": distinct.len(), "rule": rule,
        "samples": samples, "kinds": kinds, "oracle_failures": oracle, "known_hits": known,
        "shards": shards, "extra": extra,
    });
    std::fs::write(args.out.join("summary.json"), serde_json::to_string_pretty(&summary).unwrap()).unwrap();
}

pub fn out_path(args: &Args, name: &str) -> PathBuf {
    Path::new(&args.out).join(name)
}

/// run `f`, turning a panic into Err(message)
pub fn guard<T>(f: impl FnOnce() -> T + std::panic::UnwindSafe) -> Result<T, String> {
    std::panic::catch_unwind(f).map_err(|e| {
        if let Some(s) = e.downcast_ref::<&str>() {
            s.to_string()
        } else if let Some(s) = e.downcast_ref::<String>() {
            s.clone()
        } else {
            "panic".to_string()
        }
    })
}

pub fn quiet_panics() {
    std::panic::set_hook(Box::new(|_| {}));
}
