//! C15 — drives the real `ResponseCache` (crates/resolver/src/cache.rs) through histories of
//! insert / get (/ clear when the hook is compiled in) with virtual `Instant`s, under
//! generated TTL-bound configurations.
//!
//! Case = (configuration, history); observation per insert = returned | panicked, per get =
//! miss | the full result with every TTL.  The same history is re-run on the Gallina model
//! inside Coq (`C15/Check.v`).  Independently of the model, the statement of C15 is evaluated
//! directly on what the implementation returned (`Oracle`).
//!
//! Virtual time: `base = Instant::now() + 1h`; every instant handed to the cache is
//! `base + t` with `t` in nanoseconds.  moka's own expiry clock therefore never fires
//! (its deadline is `valid_until`, at least one real hour away) and the capacity is huge,
//! so the store behaves as a plain map and the comparison is exact.

use std::collections::BTreeMap;
use std::panic::AssertUnwindSafe;
use std::pin::Pin;
use std::sync::atomic::{AtomicUsize, Ordering};
use std::sync::Arc;
use std::time::{Duration, Instant};

use futures_util::stream::{once, Stream};
use hickory_proto::op::{DnsRequest, DnsRequestOptions, DnsResponse, Message, OpCode, Query, ResponseCode};
use hickory_proto::rr::rdata::{A, AAAA, CNAME, MX, NS, SOA, TXT};
use hickory_proto::rr::{Name, RData, Record, RecordType};
use hickory_resolver::caching_client::CachingClient;
use hickory_resolver::config::ResolverOpts;
use hickory_resolver::net::runtime::TokioRuntimeProvider;
use hickory_resolver::net::xfer::DnsHandle;
use hickory_resolver::net::{DnsError, ForwardNSData, NetError, NoRecords};
use hickory_resolver::{ResponseCache, TtlBounds, TtlConfig};
use vph::*;

const NS_: u64 = 1_000_000_000;
const MAX_TTL: u64 = 86_400;
const U32MAX: u64 = u32::MAX as u64;
const T_CNAME: u16 = 5;
/// instants stay below 2^63 ns (they travel as 63-bit integers to the model)
const T_MAX: u64 = 9_000_000_000_000_000_000;

// ---------------------------------------------------------------------------------------
// plain-data description of a case
// ---------------------------------------------------------------------------------------

#[derive(Clone, Debug, Default, PartialEq)]
struct Bnd {
    pmin: Option<u64>, // nanoseconds
    nmin: Option<u64>,
    pmax: Option<u64>,
    nmax: Option<u64>,
}

#[derive(Clone, Debug, Default)]
struct Cfg {
    dflt: Bnd,
    by_type: Vec<(u16, Bnd)>, // distinct types
}

type Key = (u8, u16); // (name id, query type)

#[derive(Clone, Debug, PartialEq)]
struct Rr {
    ty: u16,
    ttl: u32,
}

#[derive(Clone, Debug, PartialEq, Default)]
struct Msg {
    ans: Vec<Rr>,
    auth: Vec<Rr>,
    addl: Vec<Rr>,
}

#[derive(Clone, Debug, PartialEq, Default)]
struct Neg {
    nttl: Option<u32>,
    soa: Option<u32>,
    auth: Option<Vec<u32>>,
    ns: Option<Vec<(u32, Vec<u32>)>>,
}

#[derive(Clone, Debug, PartialEq)]
enum Res {
    Ok(Msg),
    NoRec(Neg),
    Err(u8),
}

#[derive(Clone, Debug)]
enum Op {
    Ins(Key, Res, u64),
    Get(Key, u64),
    Clear,
    Drop(Key),
}

#[derive(Clone, Debug, PartialEq)]
enum Obs {
    None,
    Panic(String),
    Get(Option<Res>),
}

// ---------------------------------------------------------------------------------------
// building the real values
// ---------------------------------------------------------------------------------------

fn name(id: u8) -> Name {
    Name::from_ascii(["www.example.com.", "alias.example.net.", "mail.example.org."][id as usize % 3]).unwrap()
}

fn rtype(code: u16) -> RecordType {
    RecordType::from(code)
}

fn rdata(ty: u16, salt: u32) -> RData {
    let b = (salt % 250) as u8 + 1;
    match ty {
        1 => RData::A(A::new(192, 0, 2, b)),
        28 => RData::AAAA(AAAA::new(0x2001, 0xdb8, 0, 0, 0, 0, 0, b as u16)),
        5 => RData::CNAME(CNAME(name(1))),
        2 => RData::NS(NS(Name::from_ascii(format!("ns{b}.example.com.")).unwrap())),
        16 => RData::TXT(TXT::new(vec![format!("t{b}")])),
        15 => RData::MX(MX::new(10, name(2))),
        6 => RData::SOA(soa(300)),
        _ => panic!("harness: unsupported record type {ty}"),
    }
}

fn soa(minimum: u32) -> SOA {
    SOA::new(
        Name::from_ascii("ns1.example.com.").unwrap(),
        Name::from_ascii("hostmaster.example.com.").unwrap(),
        2024,
        7200,
        900,
        1209600,
        minimum,
    )
}

fn record(owner: u8, r: &Rr, salt: u32) -> Record {
    Record::from_rdata(name(owner), r.ttl, rdata(r.ty, salt))
}

fn message(q: Key, m: &Msg) -> Message {
    let mut msg = Message::response(0, OpCode::Query);
    msg.add_query(Query::new(name(q.0), rtype(q.1)));
    let mut salt = 0;
    for r in &m.ans {
        salt += 1;
        msg.add_answer(record(q.0, r, salt));
    }
    for r in &m.auth {
        salt += 1;
        msg.add_authority(record(2, r, salt));
    }
    for r in &m.addl {
        salt += 1;
        msg.add_additional(record(1, r, salt));
    }
    msg
}

fn no_records(q: Key, n: &Neg) -> NoRecords {
    let mut nr = NoRecords::new(Query::new(name(q.0), rtype(q.1)), ResponseCode::NXDomain);
    nr.negative_ttl = n.nttl;
    nr.soa = n.soa.map(|t| Box::new(Record::from_rdata(name(2), t, soa(300))));
    nr.authorities = n.auth.as_ref().map(|v| {
        v.iter()
            .enumerate()
            .map(|(i, t)| Record::from_rdata(name(2), *t, rdata(2, i as u32)))
            .collect::<Vec<_>>()
            .into()
    });
    nr.ns = n.ns.as_ref().map(|v| {
        v.iter()
            .enumerate()
            .map(|(i, (t, glue))| ForwardNSData {
                ns: Record::from_rdata(name(2), *t, rdata(2, i as u32)),
                glue: glue
                    .iter()
                    .enumerate()
                    .map(|(j, g)| Record::from_rdata(name(1), *g, rdata(1, j as u32)))
                    .collect::<Vec<_>>()
                    .into(),
            })
            .collect::<Vec<_>>()
            .into()
    });
    nr
}

const N_ERR_KINDS: u64 = 9;
fn transient(kind: u8) -> NetError {
    match kind {
        0 => NetError::Timeout,
        1 => NetError::Message("scripted"),
        2 => NetError::Dns(DnsError::ResponseCode(ResponseCode::ServFail)),
        3 => NetError::NoConnections,
        4 => NetError::Busy,
        5 => NetError::Dns(DnsError::ResponseCode(ResponseCode::Refused)),
        6 => NetError::Msg("scripted".to_string()),
        7 => NetError::Dns(DnsError::ResponseCode(ResponseCode::NXDomain)),
        _ => NetError::Io(Arc::new(std::io::Error::new(std::io::ErrorKind::ConnectionReset, "scripted"))),
    }
}

fn to_result(q: Key, r: &Res) -> Result<Message, NetError> {
    match r {
        Res::Ok(m) => Ok(message(q, m)),
        Res::NoRec(n) => Err(NetError::from(no_records(q, n))),
        Res::Err(k) => Err(transient(*k)),
    }
}

fn dur(ns: u64) -> Duration {
    Duration::new(ns / NS_, (ns % NS_) as u32)
}

fn bounds_json(b: &Bnd) -> serde_json::Value {
    // serde form of TtlBounds: whole seconds only
    let mut m = serde_json::Map::new();
    for (k, v) in [
        ("positive_min_ttl", b.pmin),
        ("negative_min_ttl", b.nmin),
        ("positive_max_ttl", b.pmax),
        ("negative_max_ttl", b.nmax),
    ] {
        if let Some(v) = v {
            assert!(v % NS_ == 0, "harness: per-type bounds are whole seconds");
            m.insert(k.to_string(), serde_json::json!(v / NS_));
        }
    }
    serde_json::Value::Object(m)
}

fn ttl_config(c: &Cfg) -> TtlConfig {
    let mut opts = ResolverOpts::default();
    opts.positive_min_ttl = c.dflt.pmin.map(dur);
    opts.negative_min_ttl = c.dflt.nmin.map(dur);
    opts.positive_max_ttl = c.dflt.pmax.map(dur);
    opts.negative_max_ttl = c.dflt.nmax.map(dur);
    let mut cfg = TtlConfig::from_opts(&opts);
    for (ty, b) in &c.by_type {
        let tb: TtlBounds = serde_json::from_value(bounds_json(b)).expect("TtlBounds from json");
        cfg.with_query_type_ttl_bounds(rtype(*ty), tb);
    }
    cfg
}

// ---------------------------------------------------------------------------------------
// running the implementation
// ---------------------------------------------------------------------------------------

fn observe_msg(m: &Message) -> Msg {
    let f = |v: &Vec<Record>| v.iter().map(|r| Rr { ty: u16::from(r.record_type()), ttl: r.ttl }).collect();
    Msg { ans: f(&m.answers), auth: f(&m.authorities), addl: f(&m.additionals) }
}

fn observe(r: &Result<Message, NetError>) -> Res {
    match r {
        Ok(m) => Res::Ok(observe_msg(m)),
        Err(NetError::Dns(DnsError::NoRecordsFound(nr))) => Res::NoRec(Neg {
            nttl: nr.negative_ttl,
            soa: nr.soa.as_ref().map(|s| s.ttl),
            auth: nr.authorities.as_ref().map(|a| a.iter().map(|r| r.ttl).collect()),
            ns: nr
                .ns
                .as_ref()
                .map(|v| v.iter().map(|d| (d.ns.ttl, d.glue.iter().map(|g| g.ttl).collect())).collect()),
        }),
        Err(_) => Res::Err(99),
    }
}

/// everything except the TTLs must come back as inserted
fn same_but_ttl(a: &Message, b: &Message) -> bool {
    let strip = |m: &Message| {
        let mut m = m.clone();
        for r in m.answers.iter_mut().chain(m.authorities.iter_mut()).chain(m.additionals.iter_mut()) {
            r.ttl = 0;
        }
        m
    };
    strip(a) == strip(b)
}

struct Run {
    obs: Vec<Obs>,
    /// non-TTL content preserved on every positive hit
    content_ok: bool,
}

fn spin_clock() {
    // moka's invalidate_all compares clock readings with `<`: make sure the reading moves
    let t = Instant::now();
    while Instant::now() == t {}
    std::thread::sleep(Duration::from_micros(2));
}

fn run_impl(cfg: &Cfg, ops: &[Op]) -> Run {
    let cache = ResponseCache::new(1 << 20, ttl_config(cfg));
    let base = Instant::now() + Duration::from_secs(3600);
    let mut obs = vec![];
    let mut content_ok = true;
    let mut last_msg: BTreeMap<Key, Message> = BTreeMap::new();
    for op in ops {
        match op {
            Op::Ins(q, r, t) => {
                let query = Query::new(name(q.0), rtype(q.1));
                let res = to_result(*q, r);
                let keep = res.as_ref().ok().cloned();
                let now = base + dur(*t);
                match guard(AssertUnwindSafe(|| cache.insert(query, res, now))) {
                    Ok(()) => {
                        if let Some(m) = keep {
                            last_msg.insert(*q, m);
                        }
                        obs.push(Obs::None)
                    }
                    Err(p) => obs.push(Obs::Panic(p)),
                }
            }
            Op::Get(q, t) => {
                let query = Query::new(name(q.0), rtype(q.1));
                let now = base + dur(*t);
                let got = cache.get(&query, now);
                if let Some(Ok(m)) = &got {
                    match last_msg.get(q) {
                        Some(orig) if same_but_ttl(orig, m) => {}
                        _ => content_ok = false,
                    }
                }
                obs.push(Obs::Get(got.as_ref().map(observe)));
            }
            Op::Clear => {
                spin_clock();
                clear_all(&cache);
                spin_clock();
                obs.push(Obs::None);
            }
            Op::Drop(q) => {
                clear_one(&cache, &Query::new(name(q.0), rtype(q.1)));
                obs.push(Obs::None);
            }
        }
    }
    Run { obs, content_ok }
}

/// `clear` / `clear_query` are crate-private: reached through the add-only hook
/// `ResponseCache::verif_clear{,_query}` (cfg(hickory_dns_verif)) in crates/resolver/src/cache.rs
fn clear_all(c: &ResponseCache) {
    c.verif_clear()
}
fn clear_one(c: &ResponseCache, q: &Query) {
    c.verif_clear_query(q)
}
const HAVE_CLEAR: bool = true;

// ---------------------------------------------------------------------------------------
// the property, evaluated directly (independent of the Gallina model)
// ---------------------------------------------------------------------------------------

fn bnd_for<'a>(c: &'a Cfg, ty: u16) -> &'a Bnd {
    c.by_type.iter().find(|(t, _)| *t == ty).map(|(_, b)| b).unwrap_or(&c.dflt)
}
fn pos_b(c: &Cfg, ty: u16) -> (u64, u64) {
    let b = bnd_for(c, ty);
    (b.pmin.unwrap_or(0), b.pmax.unwrap_or(MAX_TTL * NS_))
}
fn neg_b(c: &Cfg, ty: u16) -> (u64, u64) {
    let b = bnd_for(c, ty);
    (b.nmin.unwrap_or(0), b.nmax.unwrap_or(MAX_TTL * NS_))
}
fn secs32(ns: u64) -> u64 {
    let s = ns / NS_;
    if s > U32MAX {
        MAX_TTL
    } else {
        s
    }
}
fn pos_b_secs(c: &Cfg, ty: u16) -> (u64, u64) {
    let (lo, hi) = pos_b(c, ty);
    (secs32(lo), secs32(hi))
}

const TYPES: &[u16] = &[1, 28, 5, 2, 16, 15, 6];

/// every bound pair that can be consulted is ordered (the configurations of the statement)
fn cfg_ordered(c: &Cfg) -> bool {
    TYPES.iter().chain([0u16].iter()).all(|ty| {
        let (a, b) = pos_b(c, *ty);
        let (d, e) = neg_b(c, *ty);
        let (f, g) = pos_b_secs(c, *ty);
        a <= b && d <= e && f <= g
    })
}

fn stored_ttl(c: &Cfg, r: &Rr) -> u64 {
    let (lo, hi) = pos_b_secs(c, r.ty);
    lo.max(hi.min(r.ttl as u64))
}

/// L of the statement, in nanoseconds (ordered configurations only)
fn lifetime(c: &Cfg, q: Key, r: &Res) -> Option<u64> {
    match r {
        Res::Ok(m) => {
            let (lo, hi) = pos_b(c, q.1);
            let smallest = m
                .ans
                .iter()
                .chain(m.auth.iter())
                .chain(m.addl.iter())
                .filter(|r| r.ty == q.1 || r.ty == T_CNAME)
                .map(|r| stored_ttl(c, r))
                .min();
            Some(match smallest {
                Some(s) => lo.max(hi.min(s * NS_)),
                None => lo,
            })
        }
        Res::NoRec(n) => {
            let (lo, hi) = neg_b(c, q.1);
            Some(match n.nttl {
                Some(t) => lo.max(hi.min(t as u64 * NS_)),
                None => lo,
            })
        }
        Res::Err(_) => None,
    }
}

fn expected_hit(c: &Cfg, r: &Res, e: u64) -> Res {
    let d = |x: u32| (x as u64).saturating_sub(e) as u32;
    match r {
        Res::Ok(m) => {
            let f = |v: &Vec<Rr>| v.iter().map(|r| Rr { ty: r.ty, ttl: stored_ttl(c, r).saturating_sub(e) as u32 }).collect();
            Res::Ok(Msg { ans: f(&m.ans), auth: f(&m.auth), addl: f(&m.addl) })
        }
        Res::NoRec(n) => Res::NoRec(Neg {
            nttl: n.nttl.map(d),
            soa: n.soa.map(d),
            auth: n.auth.as_ref().map(|v| v.iter().map(|x| d(*x)).collect()),
            ns: n.ns.as_ref().map(|v| v.iter().map(|(t, g)| (d(*t), g.iter().map(|x| d(*x)).collect())).collect()),
        }),
        Res::Err(k) => Res::Err(*k),
    }
}

fn all_ttls(r: &Res) -> Vec<u32> {
    match r {
        Res::Ok(m) => m.ans.iter().chain(m.auth.iter()).chain(m.addl.iter()).map(|r| r.ttl).collect(),
        Res::NoRec(n) => {
            let mut v = vec![];
            v.extend(n.nttl);
            v.extend(n.soa);
            if let Some(a) = &n.auth {
                v.extend(a.iter().copied());
            }
            if let Some(ns) = &n.ns {
                for (t, g) in ns {
                    v.push(*t);
                    v.extend(g.iter().copied());
                }
            }
            v
        }
        Res::Err(_) => vec![],
    }
}

/// what the cache may hold for a key according to the history alone
#[derive(Clone)]
struct Src {
    res: Res,
    t0: u64,
    /// last hit served from this insertion: (time, TTLs)
    last_hit: Option<(u64, Vec<u32>)>,
}

fn oracle(c: &Cfg, ops: &[Op], run: &Run) -> Option<String> {
    let ordered = cfg_ordered(c);
    if !run.content_ok {
        return Some("a positive hit differs from the inserted message in something other than TTLs".into());
    }
    let mut live: BTreeMap<Key, Src> = BTreeMap::new();
    for (i, (op, ob)) in ops.iter().zip(run.obs.iter()).enumerate() {
        match (op, ob) {
            (Op::Ins(q, r, t), Obs::None) => {
                if !matches!(r, Res::Err(_)) {
                    live.insert(*q, Src { res: r.clone(), t0: *t, last_hit: None });
                }
            }
            (Op::Ins(..), Obs::Panic(p)) => {
                if ordered {
                    return Some(format!("op {i}: insert panicked under ordered bounds: {p}"));
                }
            }
            (Op::Clear, _) => live.clear(),
            (Op::Drop(q), _) => {
                live.remove(q);
            }
            (Op::Get(q, t), Obs::Get(got)) => {
                if !ordered {
                    // outside the configurations of the statement: only the "never a transient
                    // error, never without a source" clause is evaluated
                    if let Some(Res::Err(_)) = got {
                        return Some(format!("op {i}: get returned an error that is not NoRecordsFound"));
                    }
                    if got.is_some() && !live.contains_key(q) {
                        return Some(format!("op {i}: hit for a query with no stored insertion"));
                    }
                    continue;
                }
                let src = live.get_mut(q);
                match (got, src) {
                    (Some(Res::Err(_)), _) => {
                        return Some(format!("op {i}: get returned an error that is not NoRecordsFound"));
                    }
                    (Some(_), None) => {
                        return Some(format!("op {i}: hit for a query with no stored insertion (transient error cached, or cleared entry served)"));
                    }
                    (Some(r), Some(src)) => {
                        let l = lifetime(c, *q, &src.res).unwrap();
                        let age = t.saturating_sub(src.t0);
                        if age > l {
                            return Some(format!(
                                "op {i}: entry served {age} ns after insertion, lifetime L = {l} ns ({})",
                                if matches!(src.res, Res::Ok(_)) { "positive" } else { "negative" }
                            ));
                        }
                        let want = expected_hit(c, &src.res, age / NS_);
                        if *r != want {
                            return Some(format!(
                                "op {i}: reported TTLs are not (clamped stored TTL - {} whole seconds): got {:?}, expected {:?}",
                                age / NS_,
                                r,
                                want
                            ));
                        }
                        let ttls = all_ttls(r);
                        if let Some((pt, prev)) = &src.last_hit {
                            if *t >= *pt && (ttls.len() != prev.len() || ttls.iter().zip(prev.iter()).any(|(a, b)| a > b)) {
                                return Some(format!("op {i}: a TTL increased between two hits without a refresh: {prev:?} at {pt} then {ttls:?} at {t}"));
                            }
                        }
                        src.last_hit = Some((*t, ttls));
                    }
                    (None, Some(src)) => {
                        // no eviction in this set-up: a live entry must be served (keeps the check
                        // sensitive to "expires too early")
                        let l = lifetime(c, *q, &src.res).unwrap();
                        if *t <= src.t0 + l {
                            return Some(format!(
                                "op {i}: miss at age {} ns although the lifetime is L = {l} ns",
                                t.saturating_sub(src.t0)
                            ));
                        }
                    }
                    (None, None) => {}
                }
            }
            _ => return Some(format!("op {i}: harness bookkeeping error")),
        }
    }
    None
}

// ---------------------------------------------------------------------------------------
// rendering
// ---------------------------------------------------------------------------------------

fn coq_opt(o: Option<u64>) -> String {
    match o {
        Some(x) => format!("(Some {x})"),
        None => "None".into(),
    }
}
fn coq_bnd(b: &Bnd) -> String {
    format!("(WB {} {} {} {})", coq_opt(b.pmin), coq_opt(b.nmin), coq_opt(b.pmax), coq_opt(b.nmax))
}
fn coq_cfg(c: &Cfg) -> String {
    format!(
        "{} {}",
        coq_bnd(&c.dflt),
        coq_list(c.by_type.iter().map(|(t, b)| format!("({t}, {})", coq_bnd(b))))
    )
}
fn coq_key(q: Key) -> String {
    format!("({}, {})", q.0, q.1)
}
fn coq_rrs(v: &[Rr]) -> String {
    coq_list(v.iter().map(|r| format!("({}, {})", r.ty, r.ttl)))
}
fn coq_res(r: &Res) -> String {
    match r {
        Res::Ok(m) => format!("(WOk {} {} {})", coq_rrs(&m.ans), coq_rrs(&m.auth), coq_rrs(&m.addl)),
        Res::NoRec(n) => format!(
            "(WNo {} {} {} {})",
            coq_opt(n.nttl.map(u64::from)),
            coq_opt(n.soa.map(u64::from)),
            match &n.auth {
                Some(v) => format!("(Some {})", coq_list(v.iter().map(|x| x.to_string()))),
                None => "None".into(),
            },
            match &n.ns {
                Some(v) => format!(
                    "(Some {})",
                    coq_list(v.iter().map(|(t, g)| format!("({t}, {})", coq_list(g.iter().map(|x| x.to_string())))))
                ),
                None => "None".into(),
            }
        ),
        Res::Err(k) => format!("(WErr {k})"),
    }
}
fn coq_case(c: &Cfg, ops: &[Op], obs: &[Obs]) -> String {
    let hops = ops.iter().zip(obs.iter()).map(|(op, ob)| match (op, ob) {
        (Op::Ins(q, r, t), ob) => {
            format!("HIns {} {} {} {}", coq_key(*q), coq_res(r), t, matches!(ob, Obs::Panic(_)))
        }
        (Op::Get(q, t), Obs::Get(g)) => format!(
            "HGet {} {} {}",
            coq_key(*q),
            t,
            match g {
                Some(r) => format!("(Some {})", coq_res(r)),
                None => "None".into(),
            }
        ),
        (Op::Get(q, t), _) => format!("HGet {} {} None", coq_key(*q), t),
        (Op::Clear, _) => "HClear".into(),
        (Op::Drop(q), _) => format!("HDrop {}", coq_key(*q)),
    });
    format!("(CHist {} {})%uint63", coq_cfg(c), coq_list(hops))
}

fn txt_dur(ns: u64) -> String {
    if ns % NS_ == 0 {
        format!("{}s", ns / NS_)
    } else {
        format!("{}s+{}ns", ns / NS_, ns % NS_)
    }
}
fn txt_bnd(b: &Bnd) -> String {
    let f = |o: Option<u64>| o.map(txt_dur).unwrap_or_else(|| "-".into());
    format!("pos[{},{}] neg[{},{}]", f(b.pmin), f(b.pmax), f(b.nmin), f(b.nmax))
}
fn txt_cfg(c: &Cfg) -> String {
    let mut s = format!("default {}", txt_bnd(&c.dflt));
    for (t, b) in &c.by_type {
        s += &format!("; {} {}", rtype(*t), txt_bnd(b));
    }
    s
}
fn txt_rrs(v: &[Rr]) -> String {
    v.iter().map(|r| format!("{}:{}", rtype(r.ty), r.ttl)).collect::<Vec<_>>().join(",")
}
fn txt_res(r: &Res) -> String {
    match r {
        Res::Ok(m) => format!("Ok(an[{}] au[{}] ad[{}])", txt_rrs(&m.ans), txt_rrs(&m.auth), txt_rrs(&m.addl)),
        Res::NoRec(n) => format!("NoRecords(negative_ttl={:?} soa={:?} auth={:?} ns={:?})", n.nttl, n.soa, n.auth, n.ns),
        Res::Err(k) => format!("Err#{k}"),
    }
}
fn txt_key(q: Key) -> String {
    format!("q{}/{}", q.0, rtype(q.1))
}
fn txt_ops(ops: &[Op], obs: &[Obs]) -> String {
    ops.iter()
        .zip(obs.iter())
        .map(|(op, ob)| {
            let o = match ob {
                Obs::None => String::new(),
                Obs::Panic(p) => format!(" => PANIC({p})"),
                Obs::Get(None) => " => miss".into(),
                Obs::Get(Some(r)) => format!(" => {}", txt_res(r)),
            };
            match op {
                Op::Ins(q, r, t) => format!("insert({}, {}, t={}){o}", txt_key(*q), txt_res(r), txt_dur(*t)),
                Op::Get(q, t) => format!("get({}, t={}){o}", txt_key(*q), txt_dur(*t)),
                Op::Clear => "clear()".into(),
                Op::Drop(q) => format!("clear_query({})", txt_key(*q)),
            }
        })
        .collect::<Vec<_>>()
        .join(" ; ")
}

// ---------------------------------------------------------------------------------------
// generators
// ---------------------------------------------------------------------------------------

const QTYPES: &[u16] = &[1, 1, 1, 28, 5, 16, 2];
const RTYPES: &[u16] = &[1, 28, 5, 2, 16, 15];
const SECS_POOL: &[u64] = &[0, 1, 2, 3, 5, 10, 30, 60, 61, 300, 3600, 86_399, 86_400, 86_401, 100_000, 604_800];

fn gen_dur(r: &mut Rng, subsec: bool) -> u64 {
    let s = if r.chance(1, 40) {
        *r.pick(&[U32MAX, U32MAX + 1, 1u64 << 33])
    } else if r.chance(1, 3) {
        r.range(0, 12)
    } else {
        *r.pick(SECS_POOL)
    };
    let frac = if subsec && r.chance(1, 4) { *r.pick(&[1u64, 500_000_000, 999_999_999]) } else { 0 };
    s * NS_ + frac
}

fn gen_pair(r: &mut Rng, subsec: bool, allow_unordered: bool) -> (Option<u64>, Option<u64>) {
    let mut lo = if r.chance(2, 5) { None } else { Some(gen_dur(r, subsec)) };
    let mut hi = if r.chance(2, 5) { None } else { Some(gen_dur(r, subsec)) };
    if r.chance(1, 8) {
        hi = lo; // min = max
    }
    let l = lo.unwrap_or(0);
    let h = hi.unwrap_or(MAX_TTL * NS_);
    let unordered = l > h || secs32(l) > secs32(h);
    if unordered && !allow_unordered {
        if lo.is_some() && hi.is_some() && secs32(h) <= secs32(l) && h <= l {
            std::mem::swap(&mut lo, &mut hi);
        }
        let l = lo.unwrap_or(0);
        let h = hi.unwrap_or(MAX_TTL * NS_);
        if l > h || secs32(l) > secs32(h) {
            // still unordered (default max below the minimum, or u32 conversion): drop the minimum
            lo = None;
            if secs32(0) > secs32(hi.unwrap_or(MAX_TTL * NS_)) {
                hi = None;
            }
        }
    }
    (lo, hi)
}

fn gen_bnd(r: &mut Rng, subsec: bool, allow_unordered: bool) -> Bnd {
    let (pmin, pmax) = gen_pair(r, subsec, allow_unordered);
    let (nmin, nmax) = gen_pair(r, subsec, allow_unordered);
    Bnd { pmin, nmin, pmax, nmax }
}

fn gen_cfg(r: &mut Rng) -> Cfg {
    let allow_unordered = r.chance(1, 12);
    let style = r.below(10);
    let dflt = if style == 0 { Bnd::default() } else { gen_bnd(r, true, allow_unordered) };
    let mut by_type = vec![];
    let k = match style {
        0..=3 => 0,
        4..=7 => 1,
        _ => 2,
    };
    for _ in 0..k {
        let ty = *r.pick(&[1u16, 5, 28, 2, 16]);
        if by_type.iter().all(|(t, _)| *t != ty) {
            by_type.push((ty, gen_bnd(r, false, allow_unordered)));
        }
    }
    Cfg { dflt, by_type }
}

/// TTLs near the bounds that apply, plus the usual suspects
fn gen_ttl(r: &mut Rng, c: &Cfg, ty: u16, negative: bool) -> u32 {
    let (lo, hi) = if negative { neg_b(c, ty) } else { pos_b(c, ty) };
    let near = |x: u64, r: &mut Rng| -> u32 {
        let s = (x / NS_).min(U32MAX);
        let d = r.range(0, 2);
        (if r.chance(1, 2) { s.saturating_sub(d) } else { (s + d).min(U32MAX) }) as u32
    };
    match r.below(10) {
        0 | 1 => near(lo, r),
        2 | 3 => near(hi, r),
        4 => *r.pick(&[0u32, 1, u32::MAX, 1 << 31, 86_400, 86_401]),
        5 | 6 => r.range(0, 12) as u32,
        _ => *r.pick(SECS_POOL) as u32,
    }
}

fn gen_msg(r: &mut Rng, c: &Cfg, q: Key) -> Msg {
    let pick_ty = |r: &mut Rng| -> u16 {
        match r.below(10) {
            0..=4 => q.1,
            5 | 6 => T_CNAME,
            _ => *r.pick(RTYPES),
        }
    };
    let mut m = Msg::default();
    let shape = r.below(10);
    let (na, nu, nd) = match shape {
        0 => (0, 0, 0),
        1 => (0, r.range(1, 2), r.range(0, 2)),
        2..=5 => (r.range(1, 3), 0, 0),
        _ => (r.range(1, 3), r.range(0, 2), r.range(0, 2)),
    };
    for _ in 0..na {
        let ty = pick_ty(r);
        m.ans.push(Rr { ty, ttl: gen_ttl(r, c, ty, false) });
    }
    for _ in 0..nu {
        let ty = if r.chance(1, 2) { 2 } else { pick_ty(r) };
        m.auth.push(Rr { ty, ttl: gen_ttl(r, c, ty, false) });
    }
    for _ in 0..nd {
        let ty = if r.chance(1, 2) { 1 } else { pick_ty(r) };
        m.addl.push(Rr { ty, ttl: gen_ttl(r, c, ty, false) });
    }
    m
}

fn gen_neg(r: &mut Rng, c: &Cfg, q: Key) -> Neg {
    let nttl = if r.chance(1, 5) { None } else { Some(gen_ttl(r, c, q.1, true)) };
    let rich = r.chance(1, 3);
    Neg {
        nttl,
        soa: if r.chance(1, 2) { Some(gen_ttl(r, c, q.1, true)) } else { None },
        auth: if rich { Some((0..r.range(1, 2)).map(|_| gen_ttl(r, c, q.1, true)).collect()) } else { None },
        ns: if rich && r.chance(1, 2) {
            Some(
                (0..r.range(1, 2))
                    .map(|_| (gen_ttl(r, c, 2, true), (0..r.range(0, 2)).map(|_| gen_ttl(r, c, 1, true)).collect()))
                    .collect(),
            )
        } else {
            None
        },
    }
}

fn gen_res(r: &mut Rng, c: &Cfg, q: Key) -> Res {
    match r.below(10) {
        0..=5 => Res::Ok(gen_msg(r, c, q)),
        6 | 7 => Res::NoRec(gen_neg(r, c, q)),
        _ => Res::Err(r.below(N_ERR_KINDS) as u8),
    }
}

fn gen_history(r: &mut Rng, c: &Cfg) -> Vec<Op> {
    let ordered = cfg_ordered(c);
    let nq = r.range(1, 3) as usize;
    let keys: Vec<Key> = (0..nq).map(|i| (i as u8, *r.pick(QTYPES))).collect();
    // a second query type on the same name now and then (distinct keys, same name)
    let mut keys = keys;
    if r.chance(1, 4) {
        keys.push((0, *r.pick(QTYPES)));
    }
    let n = r.range(2, 12) as usize;
    let mut ops = vec![];
    let mut now: u64 = r.range(0, 5) * NS_ + if r.chance(1, 3) { r.below(NS_) } else { 0 };
    // what the history says is stored (for aiming at expiry instants)
    let mut live: BTreeMap<Key, (Res, u64)> = BTreeMap::new();
    for _ in 0..n {
        let q = *r.pick(&keys);
        let choice = r.below(20);
        if choice < 7 || live.is_empty() && choice < 12 {
            let res = gen_res(r, c, q);
            if !matches!(res, Res::Err(_)) {
                live.insert(q, (res.clone(), now));
            }
            ops.push(Op::Ins(q, res, now));
        } else if HAVE_CLEAR && choice == 19 {
            if r.chance(1, 2) {
                ops.push(Op::Clear);
                live.clear();
            } else {
                ops.push(Op::Drop(q));
                live.remove(&q);
            }
        } else {
            // a get; first move the clock
            let (t, gq) = gen_get(r, c, ordered, &keys, &live, now, q);
            now = now.max(t);
            ops.push(Op::Get(gq, t));
        }
        if r.chance(1, 3) {
            now = (now + *r.pick(&[1u64, NS_ / 2, NS_, 2 * NS_, 7 * NS_])).min(T_MAX);
        }
    }
    // end on a few gets so that the last insertions are observed
    for _ in 0..r.range(0, 3) {
        let q = *r.pick(&keys);
        let (t, gq) = gen_get(r, c, ordered, &keys, &live, now, q);
        now = now.max(t);
        ops.push(Op::Get(gq, t));
    }
    ops
}

/// instant and key of the next get
fn gen_get(
    r: &mut Rng,
    c: &Cfg,
    ordered: bool,
    keys: &[Key],
    live: &BTreeMap<Key, (Res, u64)>,
    now: u64,
    q: Key,
) -> (u64, Key) {
    let _ = keys;
    // mostly ask for something the history says is stored
    let gq = if !live.is_empty() && r.chance(3, 4) {
        *live.keys().nth(r.below(live.len() as u64) as usize).unwrap()
    } else {
        q
    };
    let mut t;
    match (r.below(10), live.get(&gq)) {
        (0..=5, Some((res, t0))) if ordered => {
            // aim at the expiry instant of the stored entry
            let l = lifetime(c, gq, res).unwrap_or(0);
            let e = t0 + l;
            t = match r.below(8) {
                0 => e,
                1 => e + 1,
                2 => e.saturating_sub(1),
                3 => e + NS_,
                4 => e.saturating_sub(NS_),
                5 => t0 + r.below(l / NS_ + 1) * NS_, // whole seconds inside
                6 => t0 + r.below(l + 1),             // anywhere inside
                _ => t0 + (l / NS_).saturating_sub(r.below(3)) * NS_ + *r.pick(&[0, 1, 999_999_999]),
            };
        }
        (6, _) => t = now,
        (7, _) => t = now + *r.pick(&[1u64, 999_999_999, NS_, NS_ + 1]),
        (8, _) => t = now + r.range(1, 100) * NS_,
        (9, _) => t = now + *r.pick(&[3600u64, 86_400, 86_401, 200_000, U32MAX, U32MAX + 1]) * NS_,
        _ => t = now + r.below(5 * NS_),
    }
    // time is non-decreasing, except for a rare step back (the code saturates)
    if t < now && !r.chance(1, 8) {
        t = now;
    }
    (t.min(T_MAX), gq)
}

// ---------------------------------------------------------------------------------------
// fixed cases (boundary families and witnesses)
// ---------------------------------------------------------------------------------------

fn s(x: u64) -> Option<u64> {
    Some(x * NS_)
}
fn a(ttl: u32) -> Rr {
    Rr { ty: 1, ttl }
}

fn fixed_cases() -> Vec<(&'static str, Cfg, Vec<Op>)> {
    let qa: Key = (0, 1);
    let ok = |ans: Vec<Rr>| Res::Ok(Msg { ans, ..Default::default() });
    let sweep = |q: Key, around: u64| -> Vec<Op> {
        let e = around * NS_;
        vec![0, e.saturating_sub(NS_), e.saturating_sub(1), e, e + 1, e + NS_].into_iter().map(|t| Op::Get(q, t)).collect()
    };
    let mut v: Vec<(&'static str, Cfg, Vec<Op>)> = vec![];
    // defaults, TTL 10: served up to and including t = 10 s
    let mut ops = vec![Op::Ins(qa, ok(vec![a(10)]), 0)];
    ops.extend(sweep(qa, 10));
    v.push(("fixed-default", Cfg::default(), ops));
    // min above ttl
    let c = Cfg { dflt: Bnd { pmin: s(3600), ..Default::default() }, by_type: vec![] };
    let mut ops = vec![Op::Ins(qa, ok(vec![a(60)]), 0)];
    ops.extend(sweep(qa, 3600));
    v.push(("fixed-min-gt-ttl", c, ops));
    // max below ttl
    let c = Cfg { dflt: Bnd { pmax: s(120), ..Default::default() }, by_type: vec![] };
    let mut ops = vec![Op::Ins(qa, ok(vec![a(3600)]), 0)];
    ops.extend(sweep(qa, 120));
    v.push(("fixed-max-lt-ttl", c, ops));
    // min = max
    let c = Cfg { dflt: Bnd { pmin: s(30), pmax: s(30), nmin: s(30), nmax: s(30) }, by_type: vec![] };
    let mut ops = vec![Op::Ins(qa, ok(vec![a(5), a(500)]), 0)];
    ops.extend(sweep(qa, 30));
    v.push(("fixed-min-eq-max", c, ops));
    // all zero
    let c = Cfg { dflt: Bnd { pmin: s(0), pmax: s(0), nmin: s(0), nmax: s(0) }, by_type: vec![] };
    v.push((
        "fixed-zero",
        c,
        vec![Op::Ins(qa, ok(vec![a(50)]), 5 * NS_), Op::Get(qa, 5 * NS_), Op::Get(qa, 5 * NS_ + 1), Op::Get(qa, 4 * NS_)],
    ));
    // lifetime comes from the smallest record of the query type / CNAME in any section, not from others
    let m = Msg { ans: vec![a(120), Rr { ty: 5, ttl: 40 }], auth: vec![Rr { ty: 2, ttl: 7 }], addl: vec![a(90), Rr { ty: 28, ttl: 3 }] };
    let mut ops = vec![Op::Ins(qa, Res::Ok(m), 0)];
    ops.extend(sweep(qa, 40));
    ops.extend(sweep(qa, 7));
    v.push(("fixed-sections", Cfg::default(), ops));
    // per-type bounds on a mixed answer: CNAME has its own minimum, the A query its own maximum
    let c = Cfg {
        dflt: Bnd::default(),
        by_type: vec![(5, Bnd { pmin: s(100), ..Default::default() }), (1, Bnd { pmax: s(50), ..Default::default() })],
    };
    let mut ops = vec![Op::Ins(qa, ok(vec![Rr { ty: 5, ttl: 5 }, a(70)]), 0)];
    ops.extend(sweep(qa, 50));
    v.push(("fixed-per-type", c, ops));
    // re-insert while live: the new insertion governs
    v.push((
        "fixed-reinsert",
        Cfg::default(),
        vec![
            Op::Ins(qa, ok(vec![a(10)]), 0),
            Op::Get(qa, 4 * NS_),
            Op::Ins(qa, ok(vec![a(3)]), 5 * NS_),
            Op::Get(qa, 8 * NS_),
            Op::Get(qa, 8 * NS_ + 1),
            Op::Get(qa, 10 * NS_),
        ],
    ));
    // a transient error neither is stored nor displaces a stored answer
    v.push((
        "fixed-transient",
        Cfg::default(),
        vec![
            Op::Ins((1, 1), Res::Err(0), 0),
            Op::Get((1, 1), 0),
            Op::Ins(qa, ok(vec![a(10)]), 0),
            Op::Ins(qa, Res::Err(2), NS_),
            Op::Get(qa, 2 * NS_),
            Op::Get(qa, 11 * NS_),
        ],
    ));
    // negative: clamped lifetime, reported negative TTL is the unclamped one minus elapsed
    let c = Cfg { dflt: Bnd { nmax: s(5), ..Default::default() }, by_type: vec![] };
    let n = Neg { nttl: Some(10), soa: Some(10), auth: Some(vec![10]), ns: Some(vec![(10, vec![10])]) };
    let mut ops = vec![Op::Ins(qa, Res::NoRec(n.clone()), 0)];
    ops.extend(sweep(qa, 5));
    v.push(("fixed-negative-max", c, ops));
    let c = Cfg { dflt: Bnd { nmin: s(60), ..Default::default() }, by_type: vec![] };
    let mut ops = vec![Op::Ins(qa, Res::NoRec(n), 0)];
    ops.extend(sweep(qa, 60));
    ops.push(Op::Ins(qa, Res::NoRec(Neg::default()), 100 * NS_));
    ops.extend(vec![Op::Get(qa, 160 * NS_), Op::Get(qa, 160 * NS_ + 1)]);
    v.push(("fixed-negative-min", c, ops));
    // sub-second bounds: records are clamped in whole seconds, the lifetime with the full Duration
    let c = Cfg { dflt: Bnd { pmin: Some(2 * NS_ + NS_ / 2), ..Default::default() }, by_type: vec![] };
    v.push((
        "fixed-subsecond-min",
        c,
        vec![
            Op::Ins(qa, ok(vec![a(1)]), 0),
            Op::Get(qa, 2 * NS_),
            Op::Get(qa, 2 * NS_ + NS_ / 2),
            Op::Get(qa, 2 * NS_ + NS_ / 2 + 1),
        ],
    ));
    // F10: a minimum above the (default) maximum makes Ord::clamp panic
    let c = Cfg { dflt: Bnd { pmin: s(172_800), ..Default::default() }, by_type: vec![] };
    v.push(("fixed-unordered-default-max", c, vec![Op::Ins(qa, ok(vec![a(60)]), 0), Op::Get(qa, 0)]));
    let c = Cfg { dflt: Bnd { nmin: s(10), nmax: s(5), ..Default::default() }, by_type: vec![] };
    v.push((
        "fixed-unordered-negative",
        c,
        vec![
            Op::Ins(qa, Res::NoRec(Neg { nttl: Some(7), ..Default::default() }), 0),
            Op::Get(qa, 0),
            Op::Ins(qa, Res::NoRec(Neg::default()), 0),
            Op::Get(qa, 10 * NS_),
            Op::Get(qa, 10 * NS_ + 1),
        ],
    ));
    // ordered as Durations, unordered after the u32 conversion of whole seconds
    let c = Cfg { dflt: Bnd { pmin: s(100_000), pmax: s(U32MAX + 1), ..Default::default() }, by_type: vec![] };
    v.push(("fixed-unordered-u32", c, vec![Op::Ins(qa, ok(vec![a(60)]), 0), Op::Get(qa, 0)]));
    // very long lifetimes: elapsed seconds saturate at u32::MAX
    let c = Cfg { dflt: Bnd { pmin: s(1 << 33), pmax: s(1 << 33), nmin: s(1 << 33), nmax: s(1 << 33) }, by_type: vec![] };
    v.push((
        "fixed-huge",
        c,
        vec![
            Op::Ins(qa, ok(vec![a(60)]), 0),
            Op::Get(qa, 86_399 * NS_),
            Op::Get(qa, (U32MAX + 5) * NS_),
            Op::Get(qa, (1 << 33) * NS_),
            Op::Get(qa, (1 << 33) * NS_ + 1),
            Op::Ins((1, 1), Res::NoRec(Neg { nttl: Some(u32::MAX), ..Default::default() }), 0),
            Op::Get((1, 1), (U32MAX - 1) * NS_),
            Op::Get((1, 1), (U32MAX + 7) * NS_),
        ],
    ));
    if HAVE_CLEAR {
        v.push((
            "fixed-clear",
            Cfg::default(),
            vec![
                Op::Ins(qa, ok(vec![a(10)]), 0),
                Op::Ins((1, 1), ok(vec![a(10)]), 0),
                Op::Drop(qa),
                Op::Get(qa, NS_),
                Op::Get((1, 1), NS_),
                Op::Clear,
                Op::Get((1, 1), NS_),
                Op::Ins((1, 1), ok(vec![a(10)]), 2 * NS_),
                Op::Get((1, 1), 3 * NS_),
            ],
        ));
    }
    v
}

// ---------------------------------------------------------------------------------------
// DnsResponse::negative_ttl
// ---------------------------------------------------------------------------------------

fn negttl_case(seed: u64, index: u64, r: &mut Rng) -> CaseOut {
    // authority section: NS / SOA records in some order
    let n = r.range(0, 4) as usize;
    let mut recs: Vec<(u32, Option<u32>)> = vec![];
    for _ in 0..n {
        let ttl = *r.pick(&[0u32, 1, 5, 60, 300, 3600, u32::MAX]);
        let min = if r.chance(1, 2) { Some(*r.pick(&[0u32, 1, 5, 60, 300, 3600, u32::MAX])) } else { None };
        recs.push((ttl, min));
    }
    let mut msg = Message::response(7, OpCode::Query);
    msg.add_query(Query::new(name(0), RecordType::A));
    msg.metadata.response_code = if r.chance(1, 2) { ResponseCode::NXDomain } else { ResponseCode::NoError };
    for (i, (ttl, min)) in recs.iter().enumerate() {
        let rec = match min {
            Some(m) => Record::from_rdata(name(2), *ttl, RData::SOA(soa(*m))),
            None => Record::from_rdata(name(2), *ttl, rdata(2, i as u32)),
        };
        msg.add_authority(rec);
    }
    let got = guard(AssertUnwindSafe(|| DnsResponse::from_message(msg).unwrap().negative_ttl()));
    // direct oracle: first SOA, min(ttl, minimum)
    let want = recs.iter().find(|(_, m)| m.is_some()).map(|(t, m)| (*t).min(m.unwrap()));
    let text_in = format!(
        "negative_ttl authorities=[{}]",
        recs.iter()
            .map(|(t, m)| match m {
                Some(m) => format!("SOA ttl={t} minimum={m}"),
                None => format!("NS ttl={t}"),
            })
            .collect::<Vec<_>>()
            .join(", ")
    );
    let l = coq_list(recs.iter().map(|(t, m)| format!("({t}, {})", coq_opt(m.map(u64::from)))));
    let (coq, otext, fail) = match got {
        Ok(g) => (
            format!("(CNegTtl {l} {})%uint63", coq_opt(g.map(u64::from))),
            format!("{g:?}"),
            if g != want { Some(format!("negative_ttl = {g:?}, expected min(ttl, minimum) of the first SOA = {want:?}")) } else { None },
        ),
        Err(p) => (format!("(CNegTtl {l} (Some 4294967296))%uint63"), format!("PANIC {p}"), Some(format!("negative_ttl panicked: {p}"))),
    };
    CaseOut {
        index,
        coq,
        text: format!("seed={seed} index={index} negttl {text_in} => {otext}"),
        key: text_in,
        nontrivial: recs.iter().any(|(_, m)| m.is_some()),
        kind: "negative-ttl-derivation".into(),
        oracle_fail: fail,
        known: None,
    }
}


// ---------------------------------------------------------------------------------------
// CachingClient end to end: upstream response -> DnsError::from_response -> cache -> second lookup
// (default TtlConfig, real clock; shapes restricted to A queries, answers owned by the query name,
// authority section of NS / SOA records of another name, no additionals)
// ---------------------------------------------------------------------------------------

#[derive(Clone, Debug)]
struct Up {
    rc: u16,
    badvers: bool,
    tc: bool,
    ans: Vec<u32>,
    /// (ttl, Some(minimum)) = SOA, (ttl, None) = NS
    auth: Vec<(u32, Option<u32>)>,
    transient: Option<u8>,
}

#[derive(Clone)]
struct Upstream {
    up: Arc<Up>,
    calls: Arc<AtomicUsize>,
}

fn up_response(u: &Up) -> Result<DnsResponse, NetError> {
    if let Some(k) = u.transient {
        return Err(transient(k));
    }
    let q: Key = (0, 1);
    let mut msg = Message::response(4711, OpCode::Query);
    msg.add_query(Query::new(name(q.0), rtype(q.1)));
    msg.metadata.response_code = if u.rc == 16 && u.badvers { ResponseCode::BADVERS } else { <ResponseCode as From<u16>>::from(u.rc) };
    msg.metadata.truncation = u.tc;
    for (i, t) in u.ans.iter().enumerate() {
        msg.add_answer(Record::from_rdata(name(q.0), *t, rdata(1, i as u32)));
    }
    let zone = Name::from_ascii("example.com.").unwrap();
    for (i, (t, m)) in u.auth.iter().enumerate() {
        msg.add_authority(match m {
            Some(m) => Record::from_rdata(zone.clone(), *t, RData::SOA(soa(*m))),
            None => Record::from_rdata(zone.clone(), *t, rdata(2, i as u32)),
        });
    }
    Ok(DnsResponse::from_message(msg).expect("harness: response encodes"))
}

impl DnsHandle for Upstream {
    type Response = Pin<Box<dyn Stream<Item = Result<DnsResponse, NetError>> + Send + Unpin>>;
    type Runtime = TokioRuntimeProvider;

    fn send(&self, _: DnsRequest) -> Self::Response {
        self.calls.fetch_add(1, Ordering::SeqCst);
        Box::pin(once(std::future::ready(up_response(&self.up))))
    }
}

const RC_ERRORS: &[u16] = &[1, 2, 4, 5, 6, 7, 8, 9, 10, 16, 17, 18, 19, 20, 21, 22, 23];

fn observe_lookup(r: &Result<hickory_resolver::lookup::Lookup, NetError>) -> Res {
    match r {
        Ok(l) => Res::Ok(observe_msg(l.message())),
        Err(e) => observe(&Err(e.clone())),
    }
}

fn cclient_case(seed: u64, index: u64, r: &mut Rng) -> CaseOut {
    let ttl_pool = [0u32, 1, 2, 30, 300, 86_399, 86_400, 86_401, 100_000, u32::MAX];
    let rc = match r.below(10) {
        0..=3 => 0,
        4 | 5 => 3,
        6 | 7 => *r.pick(RC_ERRORS),
        8 => *r.pick(&[2u16, 5]),
        _ => *r.pick(&[11u16, 12, 15, 24, 3841]),
    };
    let na = if r.chance(1, 2) { 0 } else { r.range(1, 3) };
    let mut auth = vec![];
    for _ in 0..r.below(3) {
        auth.push((*r.pick(&ttl_pool), None));
    }
    if r.chance(2, 3) {
        let pos = r.below(auth.len() as u64 + 1) as usize;
        auth.insert(pos, (*r.pick(&ttl_pool), Some(*r.pick(&ttl_pool))));
    }
    let up = Up {
        rc,
        badvers: r.chance(1, 2),
        tc: r.chance(1, 8),
        ans: (0..na).map(|_| *r.pick(&ttl_pool)).collect(),
        auth,
        transient: if r.chance(1, 12) { Some(r.below(N_ERR_KINDS) as u8) } else { None },
    };
    let q: Key = (0, 1);
    let upc = up.clone();
    let got = guard(AssertUnwindSafe(move || {
        let calls = Arc::new(AtomicUsize::new(0));
        let client = CachingClient::new(1 << 20, Upstream { up: Arc::new(upc), calls: calls.clone() }, false);
        let query = Query::new(name(q.0), rtype(q.1));
        let before = Instant::now();
        let first = futures_executor::block_on(client.lookup(query.clone(), DnsRequestOptions::default()));
        let life = first.as_ref().ok().map(|l| l.valid_until().saturating_duration_since(before).as_secs());
        let c1 = calls.load(Ordering::SeqCst);
        spin_clock();
        let second = futures_executor::block_on(client.lookup(query, DnsRequestOptions::default()));
        let c2 = calls.load(Ordering::SeqCst);
        (observe_lookup(&first), c1, observe_lookup(&second), c2, life)
    }));
    let text_in = format!(
        "caching-client A? upstream: {} rcode={}{} answers(A ttl)={:?} authority={}",
        match up.transient {
            Some(k) => format!("Err#{k}"),
            None => "response".into(),
        },
        up.rc,
        if up.tc { " TC" } else { "" },
        up.ans,
        up.auth
            .iter()
            .map(|(t, m)| match m {
                Some(m) => format!("SOA(ttl={t},minimum={m})"),
                None => format!("NS(ttl={t})"),
            })
            .collect::<Vec<_>>()
            .join(",")
    );
    let coq_up = format!(
        "{} {} {} {} {}",
        up.rc,
        up.tc,
        coq_list(up.ans.iter().map(|t| t.to_string())),
        coq_list(up.auth.iter().map(|(t, m)| format!("({t}, {})", coq_opt(m.map(u64::from))))),
        up.transient.is_some()
    );
    let (coq, otext, fail) = match got {
        Ok((first, c1, second, c2, life)) => {
            let mut fail = None;
            // the statement, directly: error responses and transient errors are never cached;
            // positive answers are clamped to MAX_TTL and cached for the smallest answer TTL
            let is_err = up.transient.is_some() || RC_ERRORS.contains(&up.rc);
            if c1 != 1 {
                fail = Some(format!("first lookup made {c1} upstream calls"));
            } else if is_err {
                if !matches!(first, Res::Err(_)) || !matches!(second, Res::Err(_)) || c2 != 2 {
                    fail = Some(format!("an upstream error was served from the cache or turned into an answer: first={first:?} second={second:?} upstream calls={c2}"));
                }
            } else if !up.ans.is_empty() {
                let want: Vec<u32> = up.ans.iter().map(|t| (*t).min(MAX_TTL as u32)).collect();
                let l = *want.iter().min().unwrap() as u64;
                match &first {
                    Res::Ok(m) if m.ans.iter().map(|r| r.ttl).collect::<Vec<_>>() == want => {
                        if life != Some(l) {
                            fail = Some(format!("Lookup::valid_until is {life:?} s ahead, expected {l}"));
                        } else if (c2 == 1) != (l >= 1) {
                            fail = Some(format!("lifetime {l} s but {c2} upstream calls for two lookups"));
                        } else if c2 == 1 && second != first {
                            fail = Some(format!("cached answer differs within the same second: {first:?} then {second:?}"));
                        }
                    }
                    _ => fail = Some(format!("first lookup did not return the answers with TTLs clamped to MAX_TTL: {first:?}")),
                }
            } else {
                let nt = up.auth.iter().find(|(_, m)| m.is_some()).map(|(t, m)| (*t).min(m.unwrap()));
                // only the NoRecords built by DnsError::from_response (NoError / NXDomain, not
                // truncated) is handed to the cache; what handle_noerror builds is returned uncached
                let cached_path = (up.rc == 0 || up.rc == 3) && !up.tc;
                let l = if cached_path { nt.map(|t| (t as u64).min(MAX_TTL)).unwrap_or(0) } else { 0 };
                match &first {
                    Res::NoRec(n) if n.nttl == nt => {
                        if (c2 == 1) != (l >= 1) {
                            fail = Some(format!("negative lifetime {l} s but {c2} upstream calls for two lookups"));
                        } else if c2 == 1 && second != first {
                            fail = Some(format!("cached negative answer differs within the same second: {first:?} then {second:?}"));
                        }
                    }
                    _ => fail = Some(format!("empty response did not become NoRecords with negative_ttl {nt:?}: {first:?}")),
                }
            }
            (
                format!("(CClient {coq_up} {} {} {})%uint63", coq_res(&first), c2, coq_res(&second)),
                format!("first={} ; upstream calls after two lookups={c2} ; second={}", txt_res(&first), txt_res(&second)),
                fail,
            )
        }
        Err(p) => (
            format!("(CClient {coq_up} (WErr 98) 0 (WErr 98))%uint63"),
            format!("PANIC {p}"),
            Some(format!("caching client panicked: {p}")),
        ),
    };
    CaseOut {
        index,
        coq,
        text: format!("seed={seed} index={index} {text_in} => {otext}"),
        key: text_in,
        nontrivial: up.transient.is_none(),
        kind: format!(
            "caching-client-{}",
            if up.transient.is_some() {
                "upstream-error"
            } else if RC_ERRORS.contains(&up.rc) {
                "error-rcode"
            } else if !up.ans.is_empty() {
                "positive"
            } else {
                "negative"
            }
        ),
        oracle_fail: fail,
        known: None,
    }
}

// ---------------------------------------------------------------------------------------

fn hist_kind(c: &Cfg, ops: &[Op], obs: &[Obs]) -> String {
    if obs.iter().any(|o| matches!(o, Obs::Panic(_))) {
        return "hist-unordered-bounds-panic".into();
    }
    if !cfg_ordered(c) {
        return "hist-unordered-bounds".into();
    }
    let neg = ops.iter().any(|o| matches!(o, Op::Ins(_, Res::NoRec(_), _)));
    let per = !c.by_type.is_empty();
    let mut back = false;
    let mut last = 0;
    for o in ops {
        let t = match o {
            Op::Ins(_, _, t) | Op::Get(_, t) => *t,
            _ => last,
        };
        if t < last {
            back = true;
        }
        last = last.max(t);
    }
    format!(
        "hist{}{}{}",
        if per { "-pertype" } else { "-global" },
        if neg { "-neg" } else { "" },
        if back { "-stepback" } else { "" }
    )
}

fn hist_case(seed: u64, index: u64, kind: Option<&str>, c: Cfg, ops: Vec<Op>) -> CaseOut {
    let run = run_impl(&c, &ops);
    let fail = oracle(&c, &ops, &run);
    let key = format!("{} | {}", txt_cfg(&c), txt_ops(&ops, &vec![Obs::None; ops.len()]));
    let hits = run.obs.iter().filter(|o| matches!(o, Obs::Get(Some(_)))).count();
    let misses = run.obs.iter().filter(|o| matches!(o, Obs::Get(None))).count();
    CaseOut {
        index,
        coq: coq_case(&c, &ops, &run.obs),
        text: format!("seed={seed} index={index} cfg: {} | {}", txt_cfg(&c), txt_ops(&ops, &run.obs)),
        key,
        nontrivial: hits >= 1 && hits + misses >= 2,
        kind: kind.map(|k| k.to_string()).unwrap_or_else(|| hist_kind(&c, &ops, &run.obs)),
        oracle_fail: fail,
        known: None,
    }
}

fn case(seed: u64, index: u64) -> CaseOut {
    let fixed = fixed_cases();
    if (index as usize) < fixed.len() {
        let (k, c, ops) = fixed.into_iter().nth(index as usize).unwrap();
        return hist_case(seed, index, Some(k), c, ops);
    }
    let mut r = Rng::for_case(seed, index);
    if index % 16 == 15 {
        return negttl_case(seed, index, &mut r);
    }
    if index % 16 == 7 {
        return cclient_case(seed, index, &mut r);
    }
    let c = gen_cfg(&mut r);
    let ops = gen_history(&mut r, &c);
    hist_case(seed, index, None, c, ops)
}

fn main() {
    quiet_panics();
    let args = parse_args();
    if let Some((seed, index)) = args.replay {
        let c = case(seed, index);
        println!("{}", c.text);
        println!("COQ {}", c.coq);
        if let Some(f) = c.oracle_fail {
            println!("ORACLE-FAIL {f}");
        }
        return;
    }
    let nfixed = fixed_cases().len() as u64;
    let cases: Vec<CaseOut> = (0..nfixed + args.n).map(|i| case(args.seed, i)).collect();
    emit(
        "C15",
        "C15",
        &args,
        &cases,
        "histories of 2..12 operations (insert of positive / NoRecords / transient results, get, clear and clear_query when the hook is built) over 1..4 queries on 3 names and 5 query types, virtual time in nanoseconds, gets aimed at the expiry instant of a stored entry (exact, +-1 ns, +-1 s), inside the lifetime, far beyond it, and rare steps back; TTL bound configurations: default and per-type, absent / 0 / min=max / min>ttl / max<ttl / sub-second / beyond u32 seconds, 1 in 12 with unordered bounds allowed (panic expected); fixed boundary families first; 1 in 16 cases exercises DnsResponse::negative_ttl; 1 in 16 drives CachingClient::lookup twice over a scripted upstream (response codes incl. every error code and unknown ones, TC, 0..3 answers, NS/SOA authority, transient upstream errors) and observes both results and the number of upstream calls. Non-trivial = at least one hit and at least two gets; distinct by (configuration, history).",
        serde_json::json!({"fixed_cases": nfixed, "clear_hook": HAVE_CLEAR}),
    );
}
