//! C02 — encode/decode round trip.
//!
//! Families (every case a pure function of (seed, index)):
//!  A  "rt-modelled*"  messages of the subset modelled byte-exactly by coq/C03/Model.v; the case term
//!                     `CRt <msg> <bytes of Message::to_vec>` ties the encoder model (and the reference
//!                     decoder of coq/C02/Model.v) to the implementation.
//!  B  "rt-oracle-<T>" messages carrying every other RData variant; oracle only (`COracle 1`).
//!  C  "bytes-*"       byte strings: mutated encodings of A/B, hand-made compression pointers (also in
//!                     RDATA of types the encoder never compresses), hand-made oversize inputs;
//!                     oracle only (`COracle 2`).
//!
//! ORACLE (on the implementation alone):
//!  (a) A, B: decode(encode m) == m under `deep_eq` (below);
//!  (b) every accepted byte string b (and the encodings of A/B): m1 = decode b; b2 = encode m1 must
//!      succeed; m2 = decode b2 must exist and m2 == m1 (strict `deep_eq`, no normalisation);
//!  (c) RDATA slices (located by an independent wire walker) of b and b2 are byte-identical for every
//!      record whose type is not NS/CNAME/PTR/MX/SOA (compressible) or OPT (rebuilt hop by hop),
//!      unless a name embedded in the original RDATA used a compression pointer (then the
//!      encoder expands it; m2 == m1 still has to hold).  This is the predicate of
//!      fuzz/fuzz_targets/preserve_rdata.rs.
//!
//! `deep_eq` compares: id, QR, opcode (numeric), AA/TC/RD/RA/AD/CD, rcode (numeric 12 bit), every
//! question (name labels byte for byte incl. case and the fqdn flag, type, class), every record of
//! every section in order (owner name byte for byte, type, class, TTL, RDATA by the derived
//! `PartialEq` of the RData enum AND every embedded name byte for byte), EDNS (version, DO, Z,
//! payload, options as an ORDERED list), TSIG record (owner, class, TTL, all fields, algorithm name).
//!
//! Normalisations allowed in (a) only — (b) allows none:
//!  N1 rcode compared by its number (`BADVERS` and `BADSIG` are both 16; the decoder has to pick one);
//!  N2 without EDNS only the low 4 rcode bits travel (emit_message_parts only warns) — expected rcode
//!     = low nibble; with EDNS the OPT TTL carries the high 8 bits, so `Edns::rcode_high` of the
//!     decoded message is the message's rcode >> 4 whatever the original Edns held;
//!  N3 `DNSSECRData::Unknown{code, rdata}` is the same record as `RData::Unknown{Unknown(code), rdata}`;
//!  N4 zero-length RDATA is RFC 2136 syntax: it decodes as `Update0(type)` (generated only under
//!     opcode UPDATE, the only opcode for which the decoder accepts it);
//!  not on the wire, hence not compared: header counts (recomputed), the Z header bit (no field),
//!  `Record::proof`.  OPT/TSIG live outside `additionals` on both sides by construction.
//! Generator domain (what "structurally valid" means here): canonical enum values (no `Unknown(n)`
//! for an assigned n), opcode < 16, rcode < 4096, TSIG time < 2^48, ECS address bytes beyond
//! ceil(prefix/8) zero, SVCB params strictly ascending with values of the key's kind, CAA tag 1..15
//! alphanumerics, every name fully qualified except TSIG `Unknown` algorithm names, which are relative (the decoder clears fqdn), OPT/TSIG set with
//! set_edns/set_signature, SIG only in the additional section.

use std::collections::{BTreeMap, BTreeSet};
use std::net::{IpAddr, Ipv4Addr, Ipv6Addr};
use std::str::FromStr;

use hickory_proto::dnssec::rdata::{DNSSECRData, SigInput, CDNSKEY, CDS, DNSKEY, DS, KEY, NSEC, NSEC3, NSEC3PARAM, RRSIG};
use hickory_proto::dnssec::{Algorithm, DigestType, Nsec3HashAlgorithm, PublicKeyBuf, SupportedAlgorithms};
use hickory_proto::op::{Edns, Message, MessageType, OpCode, Query, ResponseCode};
use hickory_proto::rr::rdata::opt::{ClientSubnet, EdnsOption, NSIDPayload};
use hickory_proto::rr::rdata::svcb::{Alpn, EchConfigList, IpHint, Mandatory, SvcParamKey, SvcParamValue, Unknown as SvcUnknown};
use hickory_proto::rr::rdata::tsig::{TsigAlgorithm, TsigError};
use hickory_proto::rr::rdata::{
    A, AAAA, ANAME, CAA, CERT, CNAME, CSYNC, HINFO, HTTPS, MX, NAPTR, NS, NULL, OPENPGPKEY, PTR, SMIMEA, SOA, SRV, SSHFP, SVCB, TLSA, TSIG, TXT,
};
use hickory_proto::rr::{DNSClass, Name, RData, Record, RecordType, SerialNumber};
use hickory_proto::serialize::binary::BinEncodable;
use hickory_proto::ProtoError;
use vph::*;

// ------------------------------------------------------------------------------------------------
// family A: the modelled subset (generator of c03.rs, extended)
// ------------------------------------------------------------------------------------------------

const LABELS: &[&str] = &["a", "b", "www", "example", "ExAmple", "com", "COM", "net", "x1", "mail", "ns1", "_tcp", "long-label-0123456789"];

#[derive(Clone, Debug, PartialEq)]
struct GName(Vec<Vec<u8>>);

impl GName {
    fn to_name(&self) -> Name {
        let mut n = Name::from_labels(self.0.iter().map(|l| l.as_slice())).unwrap();
        n.set_fqdn(true);
        n
    }
    fn coq(&self) -> String {
        coq_list(self.0.iter().map(|l| format!("unpack {}", coq_pb(l))))
    }
    fn text(&self) -> String {
        if self.0.is_empty() {
            ".".into()
        } else {
            self.0.iter().map(|l| String::from_utf8_lossy(l).to_string()).collect::<Vec<_>>().join(".")
        }
    }
}

fn gen_name(r: &mut Rng) -> GName {
    // share suffixes often
    let suffixes: [&[&str]; 5] = [&["example", "com"], &["ExAmple", "COM"], &["example", "net"], &["com"], &[]];
    let mut ls: Vec<Vec<u8>> = vec![];
    let pre = r.below(4);
    for _ in 0..pre {
        if r.chance(1, 12) {
            let n = r.range(1, 6) as usize;
            ls.push(r.bytes(n));
        } else {
            ls.push(r.pick(LABELS).as_bytes().to_vec());
        }
    }
    for l in *r.pick(&suffixes) {
        ls.push(l.as_bytes().to_vec());
    }
    GName(ls)
}

/// many distinct names (fills the 64-entry candidate table)
fn gen_distinct_name(r: &mut Rng, k: u64) -> GName {
    let mut ls: Vec<Vec<u8>> = vec![format!("h{k}").into_bytes()];
    for _ in 0..r.range(1, 3) {
        ls.push(format!("{}{}", r.pick(LABELS), r.below(50)).into_bytes());
    }
    if r.chance(1, 2) {
        ls.push(b"example".to_vec());
        ls.push(b"com".to_vec());
    }
    GName(ls)
}

fn pk<T: Copy>(r: &mut Rng, xs: &[T]) -> T {
    *r.pick(xs)
}

/// uniform below `small` or below `big`, each with probability 1/2
fn lim(r: &mut Rng, small: u64, big: u64) -> u64 {
    let m = if r.chance(1, 2) { small } else { big };
    r.below(m)
}

fn rlab(r: &mut Rng, lo: u64, hi: u64) -> Vec<u8> {
    let n = r.range(lo, hi) as usize;
    rand_label(r, n)
}

fn rand_label(r: &mut Rng, n: usize) -> Vec<u8> {
    (0..n).map(|_| *r.pick(b"abcdefghijklmnopqrstuvwxyzABCDEFGHIJKLMNOPQRSTUVWXYZ0123456789-")).collect()
}

/// a name of exactly 255 octets on the wire: 63+63+63+61 octet labels
fn gen_max_name(r: &mut Rng) -> GName {
    GName(vec![rand_label(r, 63), rand_label(r, 63), rand_label(r, 63), rand_label(r, 61)])
}

#[derive(Clone, Debug)]
enum GPart {
    Bytes(Vec<u8>),
    Name(bool, GName), // compressed?
}

#[derive(Clone, Debug)]
struct GRec {
    name: GName,
    rtype: u16,
    class: u16,
    ttl: u32,
    parts: Vec<GPart>,
    rec: Record,
}

fn gen_class(r: &mut Rng) -> DNSClass {
    match r.below(16) {
        0 | 1 => DNSClass::CH,
        2 => DNSClass::HS,
        3 => DNSClass::NONE,
        4 => DNSClass::ANY,
        5 => DNSClass::Unknown(*r.pick(&[0u16, 2, 5, 253, 256, 4660, 65535])),
        _ => DNSClass::IN,
    }
}

fn gen_ttl(r: &mut Rng) -> u32 {
    if r.chance(1, 3) {
        r.next() as u32
    } else {
        *r.pick(&[0u32, 1, 300, 86400, 0x7fff_ffff, 0x8000_0000, u32::MAX])
    }
}

/// record with RDATA of kind `k` (0..=9) over the names produced by `nm`
fn gen_rec_with(r: &mut Rng, k: u64, name: GName, nm: &mut dyn FnMut(&mut Rng) -> GName) -> GRec {
    let ttl = gen_ttl(r);
    let (rdata, parts): (RData, Vec<GPart>) = match k {
        0 => {
            let b = r.bytes(4);
            (RData::A(A::new(b[0], b[1], b[2], b[3])), vec![GPart::Bytes(b)])
        }
        1 => {
            let b = r.bytes(16);
            let mut a = [0u8; 16];
            a.copy_from_slice(&b);
            (RData::AAAA(AAAA(Ipv6Addr::from(a))), vec![GPart::Bytes(b)])
        }
        2 => {
            let k = r.range(1, 3);
            let strs: Vec<Vec<u8>> = (0..k)
                .map(|_| {
                    let n = if r.chance(1, 20) { 255 } else { r.range(0, 40) as usize };
                    r.bytes(n)
                })
                .collect();
            let mut bytes = vec![];
            for s in &strs {
                bytes.push(s.len() as u8);
                bytes.extend_from_slice(s);
            }
            (RData::TXT(TXT::from_bytes(strs.iter().map(|s| s.as_slice()).collect())), vec![GPart::Bytes(bytes)])
        }
        3 => {
            let n = nm(r);
            (RData::NS(NS(n.to_name())), vec![GPart::Name(true, n)])
        }
        4 => {
            let n = nm(r);
            (RData::CNAME(CNAME(n.to_name())), vec![GPart::Name(true, n)])
        }
        5 => {
            let n = nm(r);
            (RData::PTR(PTR(n.to_name())), vec![GPart::Name(true, n)])
        }
        6 => {
            let n = nm(r);
            let p = r.below(65536) as u16;
            (RData::MX(MX::new(p, n.to_name())), vec![GPart::Bytes(p.to_be_bytes().to_vec()), GPart::Name(true, n)])
        }
        7 => {
            let m = nm(r);
            let rn = nm(r);
            let v: Vec<u32> = (0..5).map(|_| r.next() as u32).collect();
            let mut b = vec![];
            for x in &v {
                b.extend_from_slice(&x.to_be_bytes());
            }
            (
                RData::SOA(SOA::new(m.to_name(), rn.to_name(), v[0], v[1] as i32, v[2] as i32, v[3] as i32, v[4])),
                vec![GPart::Name(true, m), GPart::Name(true, rn), GPart::Bytes(b)],
            )
        }
        8 => {
            let t = nm(r);
            let (p, w, port) = (r.below(65536) as u16, r.below(65536) as u16, r.below(65536) as u16);
            let mut b = vec![];
            b.extend_from_slice(&p.to_be_bytes());
            b.extend_from_slice(&w.to_be_bytes());
            b.extend_from_slice(&port.to_be_bytes());
            (RData::SRV(SRV::new(p, w, port, t.to_name())), vec![GPart::Bytes(b), GPart::Name(false, t)])
        }
        _ => {
            let n = r.range(1, 60) as usize;
            let b = r.bytes(n);
            (RData::NULL(NULL::with(b.clone())), vec![GPart::Bytes(b)])
        }
    };
    let mut rec = Record::from_rdata(name.to_name(), ttl, rdata);
    let class = gen_class(r);
    rec.dns_class = class;
    GRec { name, rtype: u16::from(rec.record_type()), class: u16::from(class), ttl, parts, rec }
}

fn gen_rec(r: &mut Rng) -> GRec {
    let name = gen_name(r);
    let k = r.below(10);
    gen_rec_with(r, k, name, &mut |r| gen_name(r))
}

/// RFC 2136 record without RDATA (only valid under opcode UPDATE)
fn gen_update0(r: &mut Rng) -> GRec {
    let name = gen_name(r);
    let rt = *r.pick(&[RecordType::A, RecordType::ANY, RecordType::MX, RecordType::TXT, RecordType::SOA, RecordType::Unknown(999)]);
    let ttl = *r.pick(&[0u32, 0, 300]);
    let mut rec = Record::update0(name.to_name(), ttl, rt);
    let class = *r.pick(&[DNSClass::ANY, DNSClass::NONE, DNSClass::IN]);
    rec.dns_class = class;
    GRec { name, rtype: u16::from(rt), class: u16::from(class), ttl, parts: vec![], rec }
}

fn null_rec(name: GName, len: usize, r: &mut Rng) -> GRec {
    let b = r.bytes(len);
    let rec = Record::from_rdata(name.to_name(), 60, RData::NULL(NULL::with(b.clone())));
    GRec { name, rtype: 10, class: 1, ttl: 60, parts: vec![GPart::Bytes(b)], rec }
}

struct GMsg {
    msg: Message,
    id: u16,
    flags1: u8,
    tc: bool,
    flags2: u8,
    queries: Vec<(GName, u16, u16)>,
    answers: Vec<GRec>,
    auth: Vec<GRec>,
    add: Vec<GRec>,
    edns: Option<GRec>,
    sig: Option<GRec>,
}

#[derive(Clone, Copy, PartialEq, Debug)]
enum AMode {
    Plain,
    Big,
    Names120,
    Cand64,
    Straddle,
    MaxName,
    Update,
}

fn gen_rcode(r: &mut Rng) -> ResponseCode {
    match r.below(8) {
        0..=2 => ResponseCode::NoError,
        3 => *r.pick(&[ResponseCode::NXDomain, ResponseCode::ServFail, ResponseCode::Refused, ResponseCode::NotZone, ResponseCode::FormErr]),
        4 => *r.pick(&[ResponseCode::BADVERS, ResponseCode::BADSIG, ResponseCode::BADKEY, ResponseCode::BADCOOKIE, ResponseCode::BADTRUNC]),
        5 => ResponseCode::from(r.below(256) as u8, r.below(16) as u8), // any 12-bit value, canonical variant
        6 => ResponseCode::from(255, 15),
        _ => ResponseCode::from(0, r.below(16) as u8),
    }
}

fn gen_opcode(r: &mut Rng) -> OpCode {
    if r.chance(1, 2) {
        OpCode::Query
    } else {
        OpCode::from_u8(r.below(16) as u8)
    }
}

fn set_header(r: &mut Rng, msg: &mut Message, rcode: ResponseCode) -> bool {
    msg.metadata.response_code = rcode;
    msg.metadata.authoritative = r.chance(1, 2);
    msg.metadata.recursion_desired = r.chance(1, 2);
    msg.metadata.recursion_available = r.chance(1, 2);
    msg.metadata.authentic_data = r.chance(1, 4);
    msg.metadata.checking_disabled = r.chance(1, 4);
    let tc = r.chance(1, 10);
    msg.metadata.truncation = tc;
    tc
}

fn opt_unknown_code(r: &mut Rng) -> u16 {
    // not 3 (NSID), 5 (DAU), 8 (Subnet): those decode to typed options
    *r.pick(&[0u16, 1, 2, 4, 6, 7, 9, 10, 11, 12, 13, 14, 15, 110, 65001, 65535])
}

fn gen_msg(r: &mut Rng, mode: AMode) -> GMsg {
    let id = r.below(65536) as u16;
    let op = if mode == AMode::Update { OpCode::Update } else { gen_opcode(r) };
    let mut msg = Message::new(id, if r.chance(3, 4) { MessageType::Response } else { MessageType::Query }, op);
    let rcode = gen_rcode(r);
    let tc = set_header(r, &mut msg, rcode);
    let nq = *r.pick(&[0usize, 1, 1, 1, 2]);
    let mut queries = vec![];
    for _ in 0..nq {
        let n = gen_name(r);
        let t = *r.pick(&[RecordType::A, RecordType::AAAA, RecordType::MX, RecordType::ANY, RecordType::TXT, RecordType::SOA, RecordType::AXFR, RecordType::Unknown(4242)]);
        let mut q = Query::new(n.to_name(), t);
        let c = if r.chance(1, 6) { gen_class(r) } else { DNSClass::IN };
        q.set_query_class(c);
        msg.add_query(q);
        queries.push((n, u16::from(t), u16::from(c)));
    }
    let scale = if mode == AMode::Big { 12 } else { 4 };
    let upd = op == OpCode::Update;
    let sect = |r: &mut Rng, maxn: u64| -> Vec<GRec> {
        let k = r.below(maxn + 1);
        (0..k).map(|_| if upd && r.chance(1, 3) { gen_update0(r) } else { gen_rec(r) }).collect()
    };
    let mut answers = sect(r, scale);
    let mut auth = sect(r, scale / 2);
    let add = sect(r, scale / 2);
    match mode {
        AMode::Names120 => {
            // > 120 names written in Compressed mode: owners + NS/CNAME/PTR/MX/SOA targets
            let n = r.range(62, 80);
            for _ in 0..n {
                let name = gen_name(r);
                let k = *r.pick(&[3u64, 4, 5, 6, 7, 8]);
                answers.push(gen_rec_with(r, k, name, &mut |r| gen_name(r)));
            }
        }
        AMode::Cand64 => {
            // > 64 pointer candidates, then the same names again (some in the table, some not)
            let n = r.range(24, 40);
            let pool: Vec<GName> = (0..n).map(|k| gen_distinct_name(r, k)).collect();
            for p in &pool {
                let k = *r.pick(&[0u64, 3, 6, 8]);
                let pool2 = pool.clone();
                answers.push(gen_rec_with(r, k, p.clone(), &mut move |r| r.pick(&pool2).clone()));
            }
            for _ in 0..r.range(4, 12) {
                let p = r.pick(&pool).clone();
                let pool2 = pool.clone();
                let k = pk(r, &[3u64, 4, 7]);
                auth.push(gen_rec_with(r, k, p, &mut move |r| r.pick(&pool2).clone()));
            }
        }
        AMode::MaxName => {
            let big = gen_max_name(r);
            let mut pool = vec![big.clone()];
            // names sharing the long suffix
            let mut s1 = big.0[1..].to_vec();
            s1.insert(0, rlab(r, 1, 63));
            pool.push(GName(s1));
            pool.push(GName(big.0[2..].to_vec()));
            pool.push(GName(vec![rand_label(r, 63), b"example".to_vec(), b"com".to_vec()]));
            pool.push(gen_max_name(r));
            for _ in 0..r.range(3, 8) {
                let p = r.pick(&pool).clone();
                let pool2 = pool.clone();
                let k = pk(r, &[3u64, 4, 6, 7, 8, 0]);
                answers.push(gen_rec_with(r, k, p, &mut move |r| r.pick(&pool2).clone()));
            }
        }
        AMode::Straddle => {
            // pad with one NULL record so that the names written next start around offset 0x3FFF,
            // then repeat them (candidates are stored only while offset < 0x3FFF)
            answers.truncate(2);
            let pad_owner = gen_name(r);
            let mut probe = Message::new(id, MessageType::Response, OpCode::Query);
            for q in &msg.queries {
                probe.add_query(q.clone());
            }
            for g in &answers {
                probe.add_answer(g.rec.clone());
            }
            probe.add_answer(null_rec(pad_owner.clone(), 1, &mut Rng::new(0)).rec);
            let p = probe.to_vec().unwrap().len();
            let target = (16383 + 6 - r.below(70)) as usize;
            let len = 1 + target - p;
            answers.push(null_rec(pad_owner, len, r));
            let n = r.range(3, 5);
            let pool: Vec<GName> = (0..n).map(|k| if r.chance(1, 2) { gen_distinct_name(r, k) } else { gen_name(r) }).collect();
            for _ in 0..r.range(5, 10) {
                let p = r.pick(&pool).clone();
                let pool2 = pool.clone();
                let k = pk(r, &[3u64, 4, 6, 7, 8]);
                answers.push(gen_rec_with(r, k, p, &mut move |r| r.pick(&pool2).clone()));
            }
        }
        _ => {}
    }
    for g in &answers {
        msg.add_answer(g.rec.clone());
    }
    for g in &auth {
        msg.add_authority(g.rec.clone());
    }
    for g in &add {
        msg.add_additional(g.rec.clone());
    }
    let mut edns_rec = None;
    if r.chance(1, 2) {
        let mut e = Edns::new();
        e.set_max_payload(*r.pick(&[512u16, 1232, 4096, 0, 65535, 513]));
        e.set_version(if r.chance(1, 4) { r.below(256) as u8 } else { 0 });
        if r.chance(1, 2) {
            e.set_dnssec_ok(true);
        }
        if r.chance(1, 5) {
            e.flags_mut().z = r.below(0x8000) as u16;
        }
        let mut rdata_bytes = vec![];
        if r.chance(1, 3) {
            for _ in 0..r.range(1, 3) {
                let code = opt_unknown_code(r);
                let n = r.range(0, 12) as usize;
                let data = r.bytes(n);
                rdata_bytes.extend_from_slice(&code.to_be_bytes());
                rdata_bytes.extend_from_slice(&(n as u16).to_be_bytes());
                rdata_bytes.extend_from_slice(&data);
                e.options_mut().insert(EdnsOption::Unknown(code, data));
            }
        }
        msg.set_edns(e.clone());
        // what emit_message_parts will write: Record::from(&edns) after set_rcode_high
        let ttl = (u32::from(rcode.high()) << 24) | (u32::from(e.version()) << 16) | u32::from(u16::from(*e.flags()));
        e.set_rcode_high(rcode.high());
        let rec = Record::from(&e);
        edns_rec = Some(GRec {
            name: GName(vec![]),
            rtype: 41,
            class: e.max_payload(),
            ttl,
            parts: if rdata_bytes.is_empty() { vec![] } else { vec![GPart::Bytes(rdata_bytes)] },
            rec,
        });
    }
    let mut sig_rec = None;
    if r.chance(1, 4) {
        let key = gen_name(r);
        let alg = r.pick(&[TsigAlgorithm::HmacSha256, TsigAlgorithm::HmacSha512, TsigAlgorithm::HmacSha384, TsigAlgorithm::HmacMd5]).clone();
        let mac = {
            let n = r.range(0, 64) as usize;
            r.bytes(n)
        };
        let time = r.next() & 0xffff_ffff_ffff;
        let fudge = r.below(65536) as u16;
        let oid = r.below(65536) as u16;
        let other = {
            let n = r.range(0, 6) as usize;
            r.bytes(n)
        };
        let tsig = TSIG::new(alg.clone(), time, fudge, mac.clone(), oid, None, other.clone());
        let mut rec = Record::from_rdata(key.to_name(), 0, tsig);
        rec.dns_class = DNSClass::ANY;
        let alg_name = alg.to_name();
        let alg_g = GName(alg_name.iter().map(|l| l.to_vec()).collect());
        let mut b = vec![];
        b.extend_from_slice(&((time >> 32) as u16).to_be_bytes());
        b.extend_from_slice(&(time as u32).to_be_bytes());
        b.extend_from_slice(&fudge.to_be_bytes());
        b.extend_from_slice(&(mac.len() as u16).to_be_bytes());
        b.extend_from_slice(&mac);
        b.extend_from_slice(&oid.to_be_bytes());
        b.extend_from_slice(&0u16.to_be_bytes());
        b.extend_from_slice(&(other.len() as u16).to_be_bytes());
        b.extend_from_slice(&other);
        msg.set_signature(Box::new(rec.clone()));
        sig_rec = Some(GRec { name: key, rtype: 250, class: 255, ttl: 0, parts: vec![GPart::Name(false, alg_g), GPart::Bytes(b)], rec: rec.into_record_of_rdata() });
    }
    let h = &msg.metadata;
    let mut flags1 = if h.message_type == MessageType::Response { 0x80u8 } else { 0 };
    flags1 |= u8::from(h.op_code) << 3;
    flags1 |= if h.authoritative { 4 } else { 0 };
    flags1 |= if h.recursion_desired { 1 } else { 0 };
    let mut flags2 = if h.recursion_available { 0x80u8 } else { 0 };
    flags2 |= if h.authentic_data { 0x20 } else { 0 };
    flags2 |= if h.checking_disabled { 0x10 } else { 0 };
    flags2 |= rcode.low();
    GMsg { msg, id, flags1, tc, flags2, queries, answers, auth, add, edns: edns_rec, sig: sig_rec }
}

fn rec_coq(g: &GRec) -> String {
    let parts = coq_list(g.parts.iter().map(|p| match p {
        GPart::Bytes(b) => format!("PBytes (unpack {})", coq_pb(b)),
        GPart::Name(c, n) => format!("PName {} {}", if *c { "Compressed" } else { "Uncompressed" }, n.coq()),
    }));
    format!("mkRec {} {} {} {} {}", g.name.coq(), g.rtype, g.class, g.ttl, parts)
}

fn msg_coq(m: &GMsg) -> String {
    let opt = |o: &Option<GRec>| match o {
        Some(g) => format!("(Some ({}))", rec_coq(g)),
        None => "None".to_string(),
    };
    format!(
        "(mkMsg {} {} {} {} {} {} {} {} {} {})",
        m.id,
        m.flags1,
        if m.tc { "true" } else { "false" },
        m.flags2,
        coq_list(m.queries.iter().map(|(n, t, c)| format!("mkQ {} {} {}", n.coq(), t, c))),
        coq_list(m.answers.iter().map(|g| format!("({})", rec_coq(g)))),
        coq_list(m.auth.iter().map(|g| format!("({})", rec_coq(g)))),
        coq_list(m.add.iter().map(|g| format!("({})", rec_coq(g)))),
        opt(&m.edns),
        opt(&m.sig)
    )
}

fn msg_text(m: &GMsg) -> String {
    let sect = |v: &Vec<GRec>| {
        let s = v.iter().take(8).map(|g| format!("{}/{}", g.name.text(), g.rtype)).collect::<Vec<_>>().join(",");
        if v.len() > 8 {
            format!("{s},..{} recs", v.len())
        } else {
            s
        }
    };
    format!(
        "id={} op={} rcode={} q=[{}] an=[{}] ns=[{}] ar=[{}] edns={} tsig={} tc={}",
        m.id,
        u8::from(m.msg.metadata.op_code),
        u16::from(m.msg.metadata.response_code),
        m.queries.iter().map(|(n, t, _)| format!("{}/{}", n.text(), t)).collect::<Vec<_>>().join(","),
        sect(&m.answers),
        sect(&m.auth),
        sect(&m.add),
        m.edns.is_some(),
        m.sig.is_some(),
        m.tc
    )
}

// ------------------------------------------------------------------------------------------------
// family B: every other RData variant (oracle only)
// ------------------------------------------------------------------------------------------------

const B_TYPES: &[&str] = &[
    "CAA", "CERT", "CSYNC", "HINFO", "HTTPS", "SVCB", "NAPTR", "OPENPGPKEY", "SSHFP", "TLSA", "SMIMEA", "ANAME", "DNSKEY", "CDNSKEY", "DS", "CDS", "KEY", "RRSIG", "SIG", "NSEC",
    "NSEC3", "NSEC3PARAM", "TSIG", "OPT", "Unknown", "DNSSEC-Unknown", "EmptyRdata",
];

fn rbytes(r: &mut Rng, lo: u64, hi: u64) -> Vec<u8> {
    let n = r.range(lo, hi) as usize;
    r.bytes(n)
}

fn gen_types(r: &mut Rng) -> Vec<RecordType> {
    let n = r.below(8);
    (0..n)
        .map(|_| {
            if r.chance(1, 4) {
                RecordType::from(r.below(65536) as u16)
            } else {
                RecordType::from(*r.pick(&[1u16, 2, 5, 6, 15, 16, 28, 33, 46, 47, 48, 50, 64, 65, 255, 256, 257, 1234]))
            }
        })
        .collect()
}

fn gen_alg(r: &mut Rng) -> Algorithm {
    Algorithm::from_u8(if r.chance(1, 2) { *r.pick(&[5u8, 7, 8, 10, 13, 14, 15]) } else { r.below(256) as u8 })
}

fn gen_alg_nz(r: &mut Rng) -> Option<Algorithm> {
    if r.chance(1, 5) {
        None
    } else {
        Some(Algorithm::from_u8(r.range(1, 255) as u8))
    }
}

fn gen_svcb(r: &mut Rng) -> SVCB {
    let mut keys: BTreeMap<u16, SvcParamValue> = BTreeMap::new();
    let n = r.below(6);
    for _ in 0..n {
        let k: u16 = match r.below(10) {
            0..=6 => r.below(7) as u16,
            7 => r.range(7, 65279) as u16,
            8 => r.range(65280, 65534) as u16,
            _ => 65535,
        };
        let v = match k {
            0 => SvcParamValue::Mandatory(Mandatory((0..r.range(1, 4)).map(|_| SvcParamKey::from(if r.chance(1, 2) { r.below(7) as u16 } else { r.below(65536) as u16 })).collect())),
            1 => SvcParamValue::Alpn(Alpn(
                (0..r.range(1, 3))
                    .map(|_| if r.chance(1, 4) { String::from_utf8(rlab(r, 0, 19)).unwrap() } else { r.pick(&["h2", "h3", "http/1.1", "H2", ""]).to_string() })
                    .collect(),
            )),
            2 => SvcParamValue::NoDefaultAlpn,
            3 => SvcParamValue::Port(r.below(65536) as u16),
            4 => SvcParamValue::Ipv4Hint(IpHint((0..r.below(4)).map(|_| A(Ipv4Addr::from(r.next() as u32))).collect())),
            5 => SvcParamValue::EchConfigList(EchConfigList(rbytes(r, 0, 40))),
            6 => SvcParamValue::Ipv6Hint(IpHint((0..r.below(3)).map(|_| AAAA(Ipv6Addr::from(((r.next() as u128) << 64) | r.next() as u128))).collect())),
            _ => SvcParamValue::Unknown(SvcUnknown(rbytes(r, 0, 30))),
        };
        keys.insert(k, v);
    }
    let target = if r.chance(1, 5) { Name::root() } else { gen_name(r).to_name() };
    SVCB::new(r.below(65536) as u16, target, keys.into_iter().map(|(k, v)| (SvcParamKey::from(k), v)).collect())
}

fn gen_sig_input(r: &mut Rng) -> SigInput {
    SigInput {
        type_covered: RecordType::from(if r.chance(1, 2) { *r.pick(&[1u16, 2, 6, 15, 28, 48]) } else { r.below(65536) as u16 }),
        algorithm: gen_alg(r),
        num_labels: r.below(256) as u8,
        original_ttl: r.next() as u32,
        sig_expiration: SerialNumber::new(r.next() as u32),
        sig_inception: SerialNumber::new(r.next() as u32),
        key_tag: r.below(65536) as u16,
        signer_name: gen_name(r).to_name(),
    }
}

/// RDATA of B-type `t` (not TSIG / OPT, which live in Message::signature / Message::edns)
#[allow(deprecated)]
fn gen_b_rdata(r: &mut Rng, t: &str) -> RData {
    match t {
        "CAA" => {
            let name = if r.chance(1, 4) { None } else { Some(gen_name(r).to_name()) };
            let opts = (0..r.below(3)).map(|k| hickory_proto::rr::rdata::caa::KeyValue::new(format!("k{k}"), format!("v{}", r.below(100)))).collect();
            let mut c = if r.chance(1, 2) { CAA::new_issue(r.chance(1, 2), name, opts) } else { CAA::new_issuewild(r.chance(1, 2), name, opts) };
            match r.below(4) {
                0 => {
                    c.tag = "iodef".into();
                    c.value = b"mailto:Security@Example.COM".to_vec();
                }
                1 => {
                    c.tag = String::from_utf8(rlab(r, 1, 15).iter().map(|b| if *b == b'-' { b'x' } else { *b }).collect()).unwrap();
                    c.value = rbytes(r, 0, 40);
                }
                _ => {}
            }
            if r.chance(1, 4) {
                c.reserved_flags = r.below(128) as u8;
            }
            RData::CAA(c)
        }
        "CERT" => RData::CERT(CERT::new((lim(r, 10, 65536) as u16).into(), r.below(65536) as u16, (r.below(256) as u8).into(), rbytes(r, 1, 60))),
        "CSYNC" => {
            let mut c = CSYNC::new(r.next() as u32, r.chance(1, 2), r.chance(1, 2), gen_types(r));
            if r.chance(1, 4) {
                c.reserved_flags = (r.below(256) as u16) << 8; // the decoder only rejects bits 2..7
            }
            RData::CSYNC(c)
        }
        "HINFO" => RData::HINFO(HINFO::from_bytes(rbytes(r, 0, 30).into_boxed_slice(), if r.chance(1, 10) { r.bytes(255).into_boxed_slice() } else { rbytes(r, 0, 30).into_boxed_slice() })),
        "HTTPS" => RData::HTTPS(HTTPS(gen_svcb(r))),
        "SVCB" => RData::SVCB(gen_svcb(r)),
        "NAPTR" => RData::NAPTR(NAPTR::new(
            r.below(65536) as u16,
            r.below(65536) as u16,
            rlab(r, 0, 3).iter().map(|b| if *b == b'-' { b'U' } else { *b }).collect::<Vec<u8>>().into_boxed_slice(),
            if r.chance(1, 2) { b"E2U+sip".to_vec().into_boxed_slice() } else { rbytes(r, 0, 20).into_boxed_slice() },
            if r.chance(1, 2) { b"!^.*$!sip:Info@Example.COM!".to_vec().into_boxed_slice() } else { rbytes(r, 0, 40).into_boxed_slice() },
            if r.chance(1, 4) { Name::root() } else { gen_name(r).to_name() },
        )),
        "OPENPGPKEY" => RData::OPENPGPKEY(OPENPGPKEY::new(rbytes(r, 1, 80))),
        "SSHFP" => RData::SSHFP(SSHFP::new((lim(r, 8, 256) as u8).into(), (lim(r, 4, 256) as u8).into(), rbytes(r, 0, 64))),
        "TLSA" => RData::TLSA(TLSA::new((r.next() as u8 % if r.chance(1, 2) { 5 } else { 255 }).into(), (r.below(256) as u8).into(), (r.below(256) as u8).into(), rbytes(r, 0, 64))),
        "SMIMEA" => RData::SMIMEA(SMIMEA::new((r.below(256) as u8).into(), (r.below(3) as u8).into(), (r.below(4) as u8).into(), rbytes(r, 0, 64))),
        "ANAME" => RData::ANAME(ANAME(gen_name(r).to_name())),
        "DNSKEY" => RData::DNSSEC(DNSSECRData::DNSKEY(if r.chance(1, 2) {
            DNSKEY::new(r.chance(1, 2), r.chance(1, 2), r.chance(1, 4), PublicKeyBuf::new(rbytes(r, 0, 70), gen_alg(r)))
        } else {
            DNSKEY::with_flags(r.below(65536) as u16, PublicKeyBuf::new(rbytes(r, 0, 70), gen_alg(r)))
        })),
        "CDNSKEY" => RData::DNSSEC(DNSSECRData::CDNSKEY(CDNSKEY::with_flags(r.below(65536) as u16, gen_alg_nz(r), rbytes(r, 0, 70)))),
        "DS" => RData::DNSSEC(DNSSECRData::DS(DS::new(r.below(65536) as u16, gen_alg(r), DigestType::from(lim(r, 5, 256) as u8), rbytes(r, 0, 48)))),
        "CDS" => RData::DNSSEC(DNSSECRData::CDS(CDS::new(r.below(65536) as u16, gen_alg_nz(r), DigestType::from(r.below(6) as u8), rbytes(r, 0, 48)))),
        "KEY" => {
            let f = r.below(65536) as u16;
            RData::DNSSEC(DNSSECRData::KEY(KEY::new(f.into(), f.into(), f.into(), (lim(r, 5, 256) as u8).into(), gen_alg(r), rbytes(r, 0, 70))))
        }
        "RRSIG" => RData::DNSSEC(DNSSECRData::RRSIG(RRSIG::from_sig(gen_sig_input(r), rbytes(r, 0, 70)))),
        "SIG" => {
            let rrsig = RRSIG::from_sig(gen_sig_input(r), rbytes(r, 0, 70));
            RData::DNSSEC(DNSSECRData::SIG((*rrsig).clone()))
        }
        "NSEC" => RData::DNSSEC(DNSSECRData::NSEC(if r.chance(1, 3) { NSEC::new_cover_self(gen_name(r).to_name(), gen_types(r)) } else { NSEC::new(gen_name(r).to_name(), gen_types(r)) })),
        "NSEC3" => RData::DNSSEC(DNSSECRData::NSEC3(NSEC3::new(
            Nsec3HashAlgorithm::SHA1,
            r.chance(1, 2),
            r.below(65536) as u16,
            if r.chance(1, 20) { r.bytes(255) } else { rbytes(r, 0, 16) },
            if r.chance(1, 20) { r.bytes(255) } else { rbytes(r, 0, 32) },
            gen_types(r),
        ))),
        "NSEC3PARAM" => RData::DNSSEC(DNSSECRData::NSEC3PARAM(NSEC3PARAM::new(Nsec3HashAlgorithm::SHA1, r.chance(1, 2), r.below(65536) as u16, rbytes(r, 0, 16)))),
        "DNSSEC-Unknown" => RData::DNSSEC(DNSSECRData::Unknown { code: *r.pick(&[3u16, 99, 32769]), rdata: NULL::with(rbytes(r, 1, 40)) }),
        _ => RData::Unknown { code: RecordType::Unknown(*r.pick(&[3u16, 4, 7, 8, 9, 14, 17, 99, 249, 256, 32769, 65280, 65534])), rdata: NULL::with(rbytes(r, 1, 40)) },
    }
}

/// records whose RDATA is empty on the wire (only under opcode UPDATE)
fn gen_empty_rdata(r: &mut Rng) -> RData {
    match r.below(3) {
        0 => RData::NULL(NULL::new()),
        1 => RData::Unknown { code: RecordType::Unknown(99), rdata: NULL::new() },
        _ => RData::OPENPGPKEY(OPENPGPKEY::new(vec![])),
    }
}

fn gen_tsig(r: &mut Rng) -> Record<TSIG> {
    let alg = match r.below(4) {
        0 => {
            // relative name: the decoder clears the fqdn flag of unknown algorithm names
            let mut n = gen_name(r).to_name();
            if n.is_root() {
                n = Name::from_labels(vec![b"Custom-Alg".as_slice()]).unwrap();
            }
            n.set_fqdn(false);
            TsigAlgorithm::Unknown(n)
        }
        _ => r
            .pick(&[
                TsigAlgorithm::HmacMd5,
                TsigAlgorithm::Gss,
                TsigAlgorithm::HmacSha1,
                TsigAlgorithm::HmacSha224,
                TsigAlgorithm::HmacSha256,
                TsigAlgorithm::HmacSha256_128,
                TsigAlgorithm::HmacSha384,
                TsigAlgorithm::HmacSha384_192,
                TsigAlgorithm::HmacSha512,
                TsigAlgorithm::HmacSha512_256,
            ])
            .clone(),
    };
    let err = match r.below(4) {
        0 => Some(*r.pick(&[TsigError::BadSig, TsigError::BadKey, TsigError::BadTime, TsigError::BadTrunc])),
        1 => Some(TsigError::Unknown(*r.pick(&[1u16, 15, 19, 21, 23, 65535]))),
        _ => None,
    };
    let tsig = TSIG::new(alg, r.next() & 0xffff_ffff_ffff, r.below(65536) as u16, rbytes(r, 0, 64), r.below(65536) as u16, err, rbytes(r, 0, 8));
    let mut rec = Record::from_rdata(gen_name(r).to_name(), if r.chance(1, 4) { r.next() as u32 } else { 0 }, tsig);
    rec.dns_class = if r.chance(1, 6) { gen_class(r) } else { DNSClass::ANY };
    rec
}

#[allow(deprecated)]
fn gen_edns_typed(r: &mut Rng) -> Edns {
    let mut e = Edns::new();
    e.set_max_payload(*r.pick(&[512u16, 1232, 4096, 65535, 100]));
    e.set_version(if r.chance(1, 4) { r.below(256) as u8 } else { 0 });
    e.set_dnssec_ok(r.chance(1, 2));
    if r.chance(1, 4) {
        e.flags_mut().z = r.below(0x8000) as u16;
    }
    for _ in 0..r.range(1, 4) {
        let o = match r.below(5) {
            0 => {
                let algs: Vec<Algorithm> = (0..r.below(5)).map(|_| *r.pick(&[Algorithm::RSASHA1, Algorithm::RSASHA256, Algorithm::RSASHA1NSEC3SHA1, Algorithm::RSASHA512, Algorithm::ECDSAP256SHA256, Algorithm::ECDSAP384SHA384, Algorithm::ED25519])).collect();
                EdnsOption::DAU(SupportedAlgorithms::from_vec(&algs))
            }
            1 => {
                if r.chance(1, 2) {
                    let src = r.range(0, 32) as u8;
                    let n = (src as usize).div_ceil(8);
                    let mut o = (r.next() as u32).to_be_bytes();
                    for x in o.iter_mut().skip(n) {
                        *x = 0;
                    }
                    EdnsOption::Subnet(ClientSubnet::new(IpAddr::V4(Ipv4Addr::from(o)), src, r.below(33) as u8))
                } else {
                    let src = r.range(0, 128) as u8;
                    let n = (src as usize).div_ceil(8);
                    let mut o = (((r.next() as u128) << 64) | r.next() as u128).to_be_bytes();
                    for x in o.iter_mut().skip(n) {
                        *x = 0;
                    }
                    EdnsOption::Subnet(ClientSubnet::new(IpAddr::V6(Ipv6Addr::from(o)), src, r.below(129) as u8))
                }
            }
            2 => EdnsOption::NSID(NSIDPayload::new(rbytes(r, 0, 24)).unwrap()),
            _ => EdnsOption::Unknown(opt_unknown_code(r), rbytes(r, 0, 24)),
        };
        e.options_mut().insert(o);
    }
    e
}

/// message around records of B-type `t`
fn gen_b_msg(r: &mut Rng, t: &str) -> Message {
    let op = if t == "EmptyRdata" { OpCode::Update } else { gen_opcode(r) };
    let mut msg = Message::new(r.below(65536) as u16, if r.chance(3, 4) { MessageType::Response } else { MessageType::Query }, op);
    let rcode = gen_rcode(r);
    set_header(r, &mut msg, rcode);
    if r.chance(3, 4) {
        let qt = *r.pick(&[RecordType::A, RecordType::ANY, RecordType::HTTPS, RecordType::DNSKEY, RecordType::NSEC, RecordType::TSIG, RecordType::Unknown(65280)]);
        msg.add_query(Query::new(gen_name(r).to_name(), qt));
    }
    let n = r.range(1, 5);
    for _ in 0..n {
        let rd = match t {
            "TSIG" | "OPT" => {
                let t2 = pk(r, &B_TYPES[..22]);
                gen_b_rdata(r, t2)
            }
            "EmptyRdata" => gen_empty_rdata(r),
            _ => gen_b_rdata(r, t),
        };
        let mut rec = Record::from_rdata(gen_name(r).to_name(), gen_ttl(r), rd);
        rec.dns_class = gen_class(r);
        let sig = rec.record_type() == RecordType::SIG;
        match if sig { 2 } else { r.below(3) } {
            0 => msg.add_answer(rec),
            1 => msg.add_authority(rec),
            _ => msg.add_additional(rec),
        };
        // interleave modelled records so that compression candidates exist around the B records
        if r.chance(1, 2) {
            let g = gen_rec(r).rec;
            match r.below(3) {
                0 => msg.add_answer(g),
                1 => msg.add_authority(g),
                _ => msg.add_additional(g),
            };
        }
    }
    if t == "OPT" || r.chance(1, 3) {
        msg.set_edns(gen_edns_typed(r));
    }
    if t == "TSIG" || r.chance(1, 6) {
        msg.set_signature(Box::new(gen_tsig(r)));
    }
    msg
}

// ------------------------------------------------------------------------------------------------
// deep comparison
// ------------------------------------------------------------------------------------------------

/// labels byte for byte (case included) and the fqdn flag
fn name_eq(a: &Name, b: &Name) -> bool {
    a.is_fqdn() == b.is_fqdn() && a.iter().eq(b.iter())
}

fn name_dbg(n: &Name) -> String {
    format!("{}{}", n.iter().map(|l| String::from_utf8_lossy(l).to_string()).collect::<Vec<_>>().join("."), if n.is_fqdn() { "." } else { "" })
}

/// every name embedded in the RDATA (the derived PartialEq compares them case-insensitively)
fn rdata_names(d: &RData) -> Vec<&Name> {
    match d {
        RData::ANAME(n) => vec![&n.0],
        RData::CNAME(n) => vec![&n.0],
        RData::NS(n) => vec![&n.0],
        RData::PTR(n) => vec![&n.0],
        RData::MX(m) => vec![&m.exchange],
        RData::SOA(s) => vec![&s.mname, &s.rname],
        RData::SRV(s) => vec![&s.target],
        RData::NAPTR(n) => vec![&n.replacement],
        RData::SVCB(s) => vec![&s.target_name],
        RData::HTTPS(s) => vec![&s.0.target_name],
        RData::TSIG(t) => tsig_names(t),
        RData::DNSSEC(DNSSECRData::NSEC(n)) => vec![n.next_domain_name()],
        RData::DNSSEC(DNSSECRData::SIG(s)) => vec![&s.input().signer_name],
        RData::DNSSEC(DNSSECRData::RRSIG(s)) => vec![&s.input().signer_name],
        _ => vec![],
    }
}

fn tsig_names(t: &TSIG) -> Vec<&Name> {
    match &t.algorithm {
        TsigAlgorithm::Unknown(n) => vec![n],
        _ => vec![],
    }
}

fn variant_name(d: &RData) -> String {
    match d {
        RData::DNSSEC(x) => {
            let s = format!("{x:?}");
            format!("DNSSEC::{}", s.split(|c: char| !c.is_alphanumeric()).next().unwrap_or(""))
        }
        RData::Update0(_) => "Update0".into(),
        _ => {
            let s = format!("{d:?}");
            s.split(|c: char| !c.is_alphanumeric()).next().unwrap_or("").to_string()
        }
    }
}

/// N3 / N4 of the header comment; applied to the ORIGINAL of check (a) only
fn norm_rdata(d: &RData) -> RData {
    match d {
        RData::DNSSEC(DNSSECRData::Unknown { code, rdata }) => RData::Unknown { code: RecordType::Unknown(*code), rdata: rdata.clone() },
        RData::NULL(n) if n.anything.is_empty() => RData::Update0(RecordType::NULL),
        RData::Unknown { code, rdata } if rdata.anything.is_empty() => RData::Update0(*code),
        RData::OPENPGPKEY(k) if k.public_key.is_empty() => RData::Update0(RecordType::OPENPGPKEY),
        _ => d.clone(),
    }
}

fn rdata_eq(a: &RData, b: &RData) -> Result<(), String> {
    if let (RData::OPT(x), RData::OPT(y)) = (a, b) {
        // OPT's own PartialEq ignores the order of options
        if x.options != y.options {
            return Err("OPT options differ".into());
        }
    }
    if a != b {
        return Err(format!("RDATA differs: {a:?} vs {b:?}"));
    }
    let (na, nb) = (rdata_names(a), rdata_names(b));
    if na.len() != nb.len() {
        return Err("RDATA name count differs".into());
    }
    for (x, y) in na.iter().zip(nb.iter()) {
        if !name_eq(x, y) {
            return Err(format!("name inside {} RDATA changed: {} vs {}", a.record_type(), name_dbg(x), name_dbg(y)));
        }
    }
    Ok(())
}

fn rec_eq(what: &str, i: usize, a: &Record, b: &Record, norm: bool) -> Result<(), String> {
    let ctx = |s: String| format!("{what}[{i}] ({}): {s}", a.record_type());
    if !name_eq(&a.name, &b.name) {
        return Err(ctx(format!("owner name {} vs {}", name_dbg(&a.name), name_dbg(&b.name))));
    }
    if a.dns_class != b.dns_class || u16::from(a.dns_class) != u16::from(b.dns_class) {
        return Err(ctx(format!("class {:?} vs {:?}", a.dns_class, b.dns_class)));
    }
    if a.ttl != b.ttl {
        return Err(ctx(format!("ttl {} vs {}", a.ttl, b.ttl)));
    }
    let ad = if norm { norm_rdata(&a.data) } else { a.data.clone() };
    if ad.record_type() != b.data.record_type() {
        return Err(ctx(format!("type vs {}", b.data.record_type())));
    }
    rdata_eq(&ad, &b.data).map_err(ctx)
}

/// `norm` = check (a): `a` is the original, `b` the decoded message; otherwise strict
fn deep_eq(a: &Message, b: &Message, norm: bool) -> Result<(), String> {
    let (ha, hb) = (&a.metadata, &b.metadata);
    if ha.id != hb.id {
        return Err(format!("id {} vs {}", ha.id, hb.id));
    }
    if ha.message_type != hb.message_type {
        return Err("QR differs".into());
    }
    if u8::from(ha.op_code) != u8::from(hb.op_code) || (!norm && ha.op_code != hb.op_code) {
        return Err(format!("opcode {:?} vs {:?}", ha.op_code, hb.op_code));
    }
    let fl = |h: &hickory_proto::op::Metadata| (h.authoritative, h.truncation, h.recursion_desired, h.recursion_available, h.authentic_data, h.checking_disabled);
    if fl(ha) != fl(hb) {
        return Err(format!("flags (AA,TC,RD,RA,AD,CD) {:?} vs {:?}", fl(ha), fl(hb)));
    }
    let ra = u16::from(ha.response_code);
    let want = if !norm {
        ra
    } else if a.edns.is_some() {
        ra & 0x0fff
    } else {
        ra & 0x000f // N2
    };
    if want != u16::from(hb.response_code) || (!norm && ha.response_code != hb.response_code) {
        return Err(format!("rcode {} (expected {want}) vs {}", ra, u16::from(hb.response_code)));
    }
    if a.queries.len() != b.queries.len() {
        return Err(format!("{} questions vs {}", a.queries.len(), b.queries.len()));
    }
    for (i, (x, y)) in a.queries.iter().zip(b.queries.iter()).enumerate() {
        if !name_eq(&x.name, &y.name) || x.query_type != y.query_type || x.query_class != y.query_class || u16::from(x.query_class) != u16::from(y.query_class) {
            return Err(format!("question[{i}] {} {} {:?} vs {} {} {:?}", name_dbg(&x.name), x.query_type, x.query_class, name_dbg(&y.name), y.query_type, y.query_class));
        }
    }
    for (what, x, y) in [("answers", &a.answers, &b.answers), ("authorities", &a.authorities, &b.authorities), ("additionals", &a.additionals, &b.additionals)] {
        if x.len() != y.len() {
            return Err(format!("{} {what} vs {}", x.len(), y.len()));
        }
        for (i, (p, q)) in x.iter().zip(y.iter()).enumerate() {
            rec_eq(what, i, p, q, norm)?;
        }
    }
    match (&a.edns, &b.edns) {
        (None, None) => {}
        (Some(x), Some(y)) => {
            if x.version() != y.version() || x.flags() != y.flags() || x.max_payload() != y.max_payload() {
                return Err(format!("EDNS version/flags/payload {} {:?} {} vs {} {:?} {}", x.version(), x.flags(), x.max_payload(), y.version(), y.flags(), y.max_payload()));
            }
            if x.options().options != y.options().options {
                return Err(format!("EDNS options {:?} vs {:?}", x.options().options, y.options().options));
            }
            let want_high = if norm { (want >> 4) as u8 } else { x.rcode_high() };
            if y.rcode_high() != want_high {
                return Err(format!("EDNS rcode_high {} vs expected {want_high}", y.rcode_high()));
            }
        }
        _ => return Err(format!("EDNS present {} vs {}", a.edns.is_some(), b.edns.is_some())),
    }
    match (&a.signature, &b.signature) {
        (None, None) => {}
        (Some(x), Some(y)) => {
            if !name_eq(&x.name, &y.name) || x.dns_class != y.dns_class || x.ttl != y.ttl {
                return Err(format!("TSIG record {} {:?} {} vs {} {:?} {}", name_dbg(&x.name), x.dns_class, x.ttl, name_dbg(&y.name), y.dns_class, y.ttl));
            }
            if x.data != y.data {
                return Err(format!("TSIG differs: {:?} vs {:?}", x.data, y.data));
            }
            let (na, nb) = (tsig_names(&x.data), tsig_names(&y.data));
            if na.len() != nb.len() || !na.iter().zip(nb.iter()).all(|(p, q)| name_eq(p, q)) {
                return Err("TSIG algorithm name changed".into());
            }
        }
        _ => return Err(format!("TSIG present {} vs {}", a.signature.is_some(), b.signature.is_some())),
    }
    Ok(())
}

// ------------------------------------------------------------------------------------------------
// independent wire walker (no hickory code)
// ------------------------------------------------------------------------------------------------

#[derive(Clone, Debug)]
struct WRec {
    start: usize,
    ty: u16,
    rdlen_pos: usize,
    rd: (usize, usize),
    sect: usize, // 1 answer, 2 authority, 3 additional
}

#[derive(Clone, Debug)]
struct Walk {
    qstarts: Vec<usize>,
    recs: Vec<WRec>,
    end: usize,
}

fn be16(b: &[u8], p: usize) -> Option<u16> {
    Some(u16::from_be_bytes([*b.get(p)?, *b.get(p + 1)?]))
}

/// position after the name starting at `p` (pointers are not followed)
fn skip_name(b: &[u8], mut p: usize) -> Option<usize> {
    loop {
        let c = *b.get(p)?;
        if c == 0 {
            return Some(p + 1);
        }
        match c & 0xC0 {
            0 => p += 1 + c as usize,
            0xC0 => {
                b.get(p + 1)?;
                return Some(p + 2);
            }
            _ => return None,
        }
    }
}

fn walk(b: &[u8]) -> Option<Walk> {
    let counts = [be16(b, 4)?, be16(b, 6)?, be16(b, 8)?, be16(b, 10)?];
    let mut p = 12;
    let mut qstarts = vec![];
    for _ in 0..counts[0] {
        qstarts.push(p);
        p = skip_name(b, p)? + 4;
        if p > b.len() {
            return None;
        }
    }
    let mut recs = vec![];
    for sect in 1..4 {
        for _ in 0..counts[sect] {
            let start = p;
            let e = skip_name(b, p)?;
            let ty = be16(b, e)?;
            let rdlen = be16(b, e + 8)? as usize;
            let rd = (e + 10, e + 10 + rdlen);
            if rd.1 > b.len() {
                return None;
            }
            recs.push(WRec { start, ty, rdlen_pos: e + 8, rd, sect });
            p = rd.1;
        }
    }
    Some(Walk { qstarts, recs, end: p })
}

/// does the name embedded in RDATA of a non-compressible type end in a pointer?
fn rdata_name_compressed(ty: u16, rd: &[u8]) -> bool {
    let off = match ty {
        24 | 46 => 18,        // SIG, RRSIG: signer name
        33 => 6,              // SRV target
        35 => {
            // NAPTR: order, preference, three character-strings, replacement
            let mut o = 4;
            for _ in 0..3 {
                match rd.get(o) {
                    Some(l) => o += 1 + *l as usize,
                    None => return false,
                }
            }
            o
        }
        47 | 250 | 65305 => 0, // NSEC next name, TSIG algorithm, ANAME
        64 | 65 => 2,          // SVCB, HTTPS target
        _ => return false,
    };
    let mut p = off;
    loop {
        match rd.get(p) {
            None | Some(0) => return false,
            Some(c) if c & 0xC0 == 0xC0 => return true,
            Some(c) if c & 0xC0 == 0 => p += 1 + *c as usize,
            Some(_) => return false,
        }
    }
}

fn wire_name_len(n: &Name) -> usize {
    if n.is_root() {
        1
    } else {
        n.len() + 1
    }
}

/// over-estimate of the size of any encoding of `m` (no compression anywhere)
fn size_upper_bound(m: &Message) -> usize {
    let rec = |r: &Record| wire_name_len(&r.name) + 10 + r.data.to_bytes().map(|b| b.len()).unwrap_or(0) + rdata_names(&r.data).iter().map(|n| wire_name_len(n)).sum::<usize>();
    let mut s = 12 + m.queries.iter().map(|q| wire_name_len(&q.name) + 4).sum::<usize>();
    s += m.answers.iter().chain(m.authorities.iter()).chain(m.additionals.iter()).map(rec).sum::<usize>();
    s + m.edns.as_ref().map(|e| 11 + Record::from(e).data.to_bytes().map(|b| b.len()).unwrap_or(0)).unwrap_or(0) + m.signature.as_ref().map(|t| wire_name_len(&t.name) + 10 + 300 + t.data.mac.len() + t.data.other.len()).unwrap_or(0)
}

const OVERFLOW: &str = "C02-reencode-overflow";
const SVCB_PORT: &str = "C02-svcb-port-trailing";

/// SVCB/HTTPS RDATA (uncompressed target) with every over-long `port` (key 3) value cut to two
/// octets; None when no port parameter is longer than 2 or the RDATA does not parse
fn svcb_port_cut(rd: &[u8]) -> Option<Vec<u8>> {
    let mut p = 2;
    loop {
        let c = *rd.get(p)? as usize;
        if c == 0 {
            p += 1;
            break;
        }
        if c > 63 {
            return None;
        }
        p += 1 + c;
    }
    let mut out = rd.get(..p)?.to_vec();
    let mut cut = false;
    while p + 4 <= rd.len() {
        let key = be16(rd, p)?;
        let len = be16(rd, p + 2)? as usize;
        let val = rd.get(p + 4..p + 4 + len)?;
        if key == 3 && len > 2 {
            out.extend_from_slice(&[0, 3, 0, 2, val[0], val[1]]);
            cut = true;
        } else {
            out.extend_from_slice(&rd[p..p + 4 + len]);
        }
        p += 4 + len;
    }
    (cut && p == rd.len()).then_some(out)
}

/// checks (b) and (c) on an accepted byte string; Err((why, known class))
fn oracle_bytes(b: &[u8]) -> Result<(), (String, Option<String>)> {
    let m1 = match guard({
        let b = b.to_vec();
        move || Message::from_vec(&b)
    }) {
        Ok(Ok(m)) => m,
        Ok(Err(e)) => return Err((format!("precondition: input does not decode: {e}"), None)),
        Err(p) => return Err((format!("decoder panicked: {p}"), None)),
    };
    let enc = guard({
        let m1 = m1.clone();
        move || m1.to_vec()
    });
    let b2 = match enc {
        Ok(Ok(v)) => v,
        Ok(Err(e)) => {
            let known = matches!(e, ProtoError::NotAllRecordsWritten { .. } | ProtoError::MaxBufferSizeExceeded(_)) && size_upper_bound(&m1) > 65535;
            return Err((format!("(b) re-encoding an accepted {}-byte input failed: {e}", b.len()), known.then(|| OVERFLOW.to_string())));
        }
        Err(p) => return Err((format!("(b) re-encoding panicked: {p}"), None)),
    };
    let m2 = match guard({
        let b2 = b2.clone();
        move || Message::from_vec(&b2)
    }) {
        Ok(Ok(m)) => m,
        Ok(Err(e)) => return Err((format!("(b) re-encoded bytes do not decode: {e}"), None)),
        Err(p) => return Err((format!("(b) decoder panicked on re-encoded bytes: {p}"), None)),
    };
    if let Err(why) = deep_eq(&m1, &m2, false) {
        // narrow class: TC appeared, records were dropped at the very end of the 65535-byte buffer
        let n1 = m1.answers.len() + m1.authorities.len() + m1.additionals.len();
        let n2 = m2.answers.len() + m2.authorities.len() + m2.additionals.len();
        let mut known = None;
        if m2.metadata.truncation && !m1.metadata.truncation && n2 < n1 && size_upper_bound(&m1) > 65535 {
            let first_dropped = m1.answers.iter().chain(m1.authorities.iter()).chain(m1.additionals.iter()).nth(n2);
            let room = 65535usize.saturating_sub(b2.len());
            let need = first_dropped.map(|r| wire_name_len(&r.name) + 10 + r.data.to_bytes().map(|b| b.len()).unwrap_or(0) + rdata_names(&r.data).iter().map(|n| wire_name_len(n)).sum::<usize>()).unwrap_or(0);
            if need > room {
                known = Some(OVERFLOW.to_string());
            }
        }
        return Err((format!("(b) decode(encode(decode b)) != decode b for a {}-byte input (re-encoded {} bytes): {why}", b.len(), b2.len()), known));
    }
    // (c)
    let (w1, w2) = match (walk(b), walk(&b2)) {
        (Some(x), Some(y)) => (x, y),
        (None, _) => return Err(("(c) the independent wire walker cannot parse an input the decoder accepted".into(), None)),
        (_, None) => return Err(("(c) the independent wire walker cannot parse the re-encoded bytes".into(), None)),
    };
    let part = |w: &Walk| -> Vec<WRec> {
        let mut v: Vec<WRec> = w.recs.iter().filter(|r| r.ty != 41).cloned().collect();
        v.extend(w.recs.iter().filter(|r| r.ty == 41).cloned());
        v
    };
    let (r1, r2) = (part(&w1), part(&w2));
    if r1.len() != r2.len() {
        return Err((format!("(c) {} records in the input, {} after re-encoding", r1.len(), r2.len()), None));
    }
    for (i, (x, y)) in r1.iter().zip(r2.iter()).enumerate() {
        if x.ty != y.ty {
            return Err((format!("(c) record {i}: type {} became {}", x.ty, y.ty), None));
        }
        if matches!(x.ty, 41 | 2 | 5 | 12 | 15 | 6) {
            continue;
        }
        let (d1, d2) = (&b[x.rd.0..x.rd.1], &b2[y.rd.0..y.rd.1]);
        if rdata_name_compressed(x.ty, d1) {
            continue; // stated: compressed originals are expanded
        }
        if d1 != d2 {
            // narrow class: SVCB/HTTPS whose `port` SvcParam is longer than 2 octets; the decoder keeps the
            // first two and silently drops the rest, everything else in the RDATA is preserved
            let known = (x.ty == 64 || x.ty == 65) && svcb_port_cut(d1).as_deref() == Some(d2);
            return Err((format!("(c) RDATA of record {i} (type {}) not preserved byte for byte: {} -> {}", x.ty, hex(d1), hex(d2)), known.then(|| SVCB_PORT.to_string())));
        }
    }
    Ok(())
}

/// check (a) then (b)/(c) on the encoding; returns (bytes, failure)
fn oracle_msg(m: &Message) -> (Option<Vec<u8>>, Option<(String, Option<String>)>) {
    let enc = guard({
        let m = m.clone();
        move || m.to_vec()
    });
    let bytes = match enc {
        Ok(Ok(v)) => v,
        Ok(Err(e)) => return (None, Some((format!("(a) encoding a valid message failed: {e}"), None))),
        Err(p) => return (None, Some((format!("(a) encoder panicked: {p}"), None))),
    };
    let dec = guard({
        let b = bytes.clone();
        move || Message::from_vec(&b)
    });
    let d = match dec {
        Ok(Ok(d)) => d,
        Ok(Err(e)) => return (Some(bytes), Some((format!("(a) encoding of a valid message does not decode: {e}"), None))),
        Err(p) => return (Some(bytes), Some((format!("(a) decoder panicked: {p}"), None))),
    };
    if let Err(why) = deep_eq(m, &d, true) {
        return (Some(bytes), Some((format!("(a) decode(encode m) != m: {why}"), None)));
    }
    let f = oracle_bytes(&bytes).err();
    (Some(bytes), f)
}

// ------------------------------------------------------------------------------------------------
// family C: byte strings
// ------------------------------------------------------------------------------------------------

const MUTS: &[&str] = &["bitflip", "byteset", "rdlen-only", "rdlen-grow", "inner-len", "cut-record", "cut-raw", "splice", "ptr-owner", "count", "hdrbits"];

fn any_message(r: &mut Rng) -> Message {
    if r.chance(1, 2) {
        let mode = if r.chance(1, 5) { AMode::Update } else { AMode::Plain };
        gen_msg(r, mode).msg
    } else {
        let t = *r.pick(B_TYPES);
        gen_b_msg(r, t)
    }
}

fn set16(b: &mut [u8], p: usize, v: u16) {
    b[p..p + 2].copy_from_slice(&v.to_be_bytes());
}

fn bump_count(b: &mut [u8], sect: usize, d: i32) {
    let p = 4 + 2 * sect;
    let v = be16(b, p).unwrap() as i32 + d;
    set16(b, p, v.clamp(0, 65535) as u16);
}

/// one mutation of `b`; returns its name index
fn mutate(r: &mut Rng, b: &mut Vec<u8>) -> usize {
    let w = walk(b);
    let recs: Vec<WRec> = w.as_ref().map(|w| w.recs.clone()).unwrap_or_default();
    let k = r.below(MUTS.len() as u64) as usize;
    if b.len() < 13 {
        return k;
    }
    match k {
        0 => {
            for _ in 0..r.range(1, 3) {
                let p = r.range(2, b.len() as u64 - 1) as usize;
                b[p] ^= 1 << r.below(8);
            }
        }
        1 => {
            let p = r.range(12, b.len() as u64 - 1) as usize;
            let rnd = r.next() as u8;
            b[p] = pk(r, &[0u8, 1, 0x3f, 0x40, 0xc0, 0xff, rnd]);
        }
        2 | 3 | 4 if !recs.is_empty() => {
            let x = r.pick(&recs).clone();
            let len = x.rd.1 - x.rd.0;
            if k == 2 {
                let d = *r.pick(&[-2i32, -1, 1, 2]);
                set16(b, x.rdlen_pos, (len as i32 + d).clamp(0, 65535) as u16);
            } else if k == 3 {
                // lengthen the RDATA consistently (trailing bytes inside the record)
                let extra = rbytes(r, 1, 4);
                set16(b, x.rdlen_pos, (len + extra.len()) as u16);
                let at = x.rd.1;
                b.splice(at..at, extra);
            } else if len > 0 {
                let p = x.rd.0 + r.below(len as u64) as usize;
                b[p] = b[p].wrapping_add(*r.pick(&[1u8, 255, 2, 254]));
            }
        }
        5 if !recs.is_empty() => {
            // drop the records from a boundary on and fix the counts
            let i = r.below(recs.len() as u64) as usize;
            for x in &recs[i..] {
                bump_count(b, x.sect, -1);
            }
            b.truncate(recs[i].start);
        }
        6 => {
            let p = r.range(12, b.len() as u64 - 1) as usize;
            b.truncate(p);
        }
        7 => {
            // insert a record lifted from another message (its pointers now refer to this one)
            let donor = any_message(r).to_vec().unwrap_or_default();
            if let Some(dw) = walk(&donor) {
                if !dw.recs.is_empty() {
                    let i = r.below(dw.recs.len() as u64) as usize;
                    let piece = donor[dw.recs[i].start..dw.recs[i].rd.1].to_vec();
                    let (at, sect) = if recs.is_empty() || r.chance(1, 3) {
                        (w.as_ref().map(|w| w.end).unwrap_or(b.len()), recs.last().map(|x| x.sect).unwrap_or(1))
                    } else {
                        let x = r.pick(&recs);
                        (x.start, x.sect)
                    };
                    if at <= b.len() {
                        b.splice(at..at, piece);
                        bump_count(b, sect, 1);
                    }
                }
            }
        }
        8 if !recs.is_empty() => {
            // replace an owner name by a pointer to an earlier name start
            let i = r.below(recs.len() as u64) as usize;
            let mut targets: Vec<usize> = w.as_ref().unwrap().qstarts.clone();
            targets.extend(recs[..i].iter().map(|x| x.start));
            if r.chance(1, 6) {
                targets.push(recs[i].start); // self / forward pointer
            }
            if let Some(t) = targets.get(r.below(targets.len().max(1) as u64) as usize).copied() {
                if t < 0x4000 {
                    let e = skip_name(b, recs[i].start).unwrap();
                    b.splice(recs[i].start..e, [0xC0 | (t >> 8) as u8, t as u8]);
                }
            }
        }
        9 => bump_count(b, r.below(4) as usize, *r.pick(&[-1i32, 1])),
        10 => {
            b[2] ^= 1 << r.below(8);
            b[3] ^= 1 << r.below(8);
        }
        _ => {
            let p = r.range(12, b.len() as u64 - 1) as usize;
            b[p] ^= 0x20; // case flip somewhere
        }
    }
    k
}

fn push_labels(b: &mut Vec<u8>, ls: &[&[u8]]) {
    for l in ls {
        b.push(l.len() as u8);
        b.extend_from_slice(l);
    }
}

/// hand-written wire format: compression pointers in owner names and inside RDATA of every type
/// that embeds a name — also where the encoder itself never compresses
fn handmade(r: &mut Rng) -> Vec<u8> {
    let mut b = vec![];
    b.extend_from_slice(&(r.below(65536) as u16).to_be_bytes());
    b.extend_from_slice(&[0x84, if r.chance(1, 4) { 0x40 } else { 0 }]); // sometimes the Z bit
    b.extend_from_slice(&[0, 1, 0, 0, 0, 0, 0, 0]);
    // question name at 12: www.ExAmple.COM  -> suffix offsets 12, 16, 24
    push_labels(&mut b, &[b"www", b"ExAmple", b"COM"]);
    b.push(0);
    b.extend_from_slice(&[0, 255, 0, 1]);
    let mut offs: Vec<usize> = vec![12, 16, 24];
    let hm_name = |r: &mut Rng, offs: &mut Vec<usize>, at: usize, force_plain: bool| -> Vec<u8> {
        let mut n = vec![];
        let ptr = |r: &mut Rng, offs: &Vec<usize>| {
            let t = *r.pick(offs);
            [0xC0 | (t >> 8) as u8, t as u8]
        };
        match if force_plain { 2 } else { r.below(4) } {
            0 => n.extend_from_slice(&ptr(r, offs)),
            1 => {
                push_labels(&mut n, &[pk(r, &[b"Mail".as_slice(), b"ns1", b"_sip", b"X"])]);
                n.extend_from_slice(&ptr(r, offs));
                offs.push(at);
            }
            _ => {
                let l1 = pk(r, &[b"Host".as_slice(), b"a", b"B"]);
                let l2 = pk(r, &[b"Example".as_slice(), b"example", b"NET"]);
                push_labels(&mut n, &[l1, l2, b"org"]);
                n.push(0);
                offs.push(at);
            }
        }
        n
    };
    let n = r.range(1, 6);
    let mut counts = [0u16; 4];
    let mut items: Vec<(usize, u16)> = (0..n).map(|_| (1usize, *r.pick(&[33u16, 35, 46, 47, 64, 65, 65305, 2, 15, 6, 99, 5, 12]))).collect();
    if r.chance(1, 3) {
        items.push((3, 24)); // SIG only in the additional section
    }
    if r.chance(1, 3) {
        items.push((3, 41));
    }
    if r.chance(1, 3) {
        items.push((3, 250)); // TSIG last
    }
    items.sort_by_key(|x| x.0);
    for (sect, ty) in items {
        let plain = r.chance(1, 3);
        counts[sect] += 1;
        // owner
        if ty == 41 {
            b.push(0);
        } else {
            let at = b.len();
            let o = hm_name(r, &mut offs, at, false);
            b.extend_from_slice(&o);
        }
        b.extend_from_slice(&ty.to_be_bytes());
        let class: u16 = match ty {
            41 => 1232,
            250 => 255,
            _ => 1,
        };
        b.extend_from_slice(&class.to_be_bytes());
        b.extend_from_slice(&(if ty == 250 || ty == 41 { 0u32 } else { r.next() as u32 }).to_be_bytes());
        let lp = b.len();
        b.extend_from_slice(&[0, 0]);
        let rd0 = b.len();
        match ty {
            33 => {
                b.extend_from_slice(&r.bytes(6));
                let at = b.len();
                let x = hm_name(r, &mut offs, at, plain);
                b.extend_from_slice(&x);
            }
            35 => {
                b.extend_from_slice(&r.bytes(4));
                for s in [b"U".as_slice(), b"E2U+sip", b"!^.*$!sip:a@b!"] {
                    b.push(s.len() as u8);
                    b.extend_from_slice(s);
                }
                let at = b.len();
                let x = hm_name(r, &mut offs, at, plain);
                b.extend_from_slice(&x);
            }
            24 | 46 => {
                b.extend_from_slice(&[0, 1, 8, 2]);
                b.extend_from_slice(&r.bytes(14));
                let at = b.len();
                let x = hm_name(r, &mut offs, at, plain);
                b.extend_from_slice(&x);
                b.extend_from_slice(&rbytes(r, 0, 20));
            }
            47 => {
                let at = b.len();
                let x = hm_name(r, &mut offs, at, plain);
                b.extend_from_slice(&x);
                // sometimes a non-minimal bitmap (trailing zero octet): the decoder keeps the original bytes
                b.extend_from_slice(if r.chance(1, 2) { &[0, 2, 0x40, 0x01] } else { &[0, 3, 0x40, 0x01, 0x00] });
            }
            64 | 65 => {
                b.extend_from_slice(&r.bytes(2));
                let at = b.len();
                let x = hm_name(r, &mut offs, at, plain);
                b.extend_from_slice(&x);
                match r.below(16) {
                    0..=3 => b.extend_from_slice(&[0, 3, 0, 2, 1, 187]),
                    4..=7 => b.extend_from_slice(&[0, 1, 0, 3, 2, b'h', b'2', 0, 3, 0, 2, 0, 80]),
                    8 => b.extend_from_slice(&[0, 3, 0, 3, 1, 187, 9]), // port with a trailing octet (known finding C02-svcb-port-trailing)
                    _ => {}
                }
            }
            65305 | 2 | 5 | 12 => {
                let at = b.len();
                let x = hm_name(r, &mut offs, at, plain);
                b.extend_from_slice(&x);
            }
            15 => {
                b.extend_from_slice(&r.bytes(2));
                let at = b.len();
                let x = hm_name(r, &mut offs, at, plain);
                b.extend_from_slice(&x);
            }
            6 => {
                for _ in 0..2 {
                    let at = b.len();
                    let x = hm_name(r, &mut offs, at, plain);
                    b.extend_from_slice(&x);
                }
                b.extend_from_slice(&r.bytes(20));
            }
            41 => {
                if r.chance(1, 2) {
                    b.extend_from_slice(&[0, 10, 0, 8]);
                    b.extend_from_slice(&r.bytes(8));
                }
            }
            250 => {
                let at = b.len();
                let x = if r.chance(1, 2) {
                    let mut v = vec![];
                    push_labels(&mut v, &[pk(r, &[b"hmac-sha256".as_slice(), b"HMAC-SHA256", b"hmac-sha512"])]);
                    v.push(0);
                    v
                } else {
                    hm_name(r, &mut offs, at, plain)
                };
                b.extend_from_slice(&x);
                b.extend_from_slice(&r.bytes(6));
                b.extend_from_slice(&[1, 44]);
                let mac = rbytes(r, 0, 32);
                b.extend_from_slice(&(mac.len() as u16).to_be_bytes());
                b.extend_from_slice(&mac);
                b.extend_from_slice(&r.bytes(2));
                b.extend_from_slice(&[0, 0, 0, 0]);
            }
            _ => {
                // unknown type: opaque bytes that look like a pointer
                b.extend_from_slice(&[3, b'a', b'b', b'c', 0xC0, 0x0C]);
                b.extend_from_slice(&rbytes(r, 0, 6));
            }
        }
        let l = (b.len() - rd0) as u16;
        set16(&mut b, lp, l);
    }
    set16(&mut b, 6, counts[1]);
    set16(&mut b, 8, counts[2]);
    set16(&mut b, 10, counts[3]);
    b
}

/// §10-F11: a maximally compressed input whose re-encoding (compression stops after 120 names)
/// does not fit 65535 bytes.  variant 0: NS records, variant 1: questions
fn overflow_input(r: &mut Rng, variant: u64) -> Vec<u8> {
    let mut b = vec![];
    b.extend_from_slice(&(r.below(65536) as u16).to_be_bytes());
    b.extend_from_slice(&[0x84, 0]);
    b.extend_from_slice(&[0, 0, 0, 0, 0, 0, 0, 0]);
    let l1 = rand_label(r, 30);
    push_labels(&mut b, &[&l1, b"example", b"com"]);
    b.push(0);
    b.extend_from_slice(&[0, 2, 0, 1]);
    if variant == 0 {
        let n = r.range(3000, 4200) as u16;
        set16(&mut b, 4, 1);
        set16(&mut b, 6, n);
        for _ in 0..n {
            b.extend_from_slice(&[0xC0, 12, 0, 2, 0, 1, 0, 0, 1, 0, 0, 2, 0xC0, 12]);
        }
    } else {
        let n = r.range(7000, 9000) as u16;
        set16(&mut b, 4, n + 1);
        for _ in 0..n {
            b.extend_from_slice(&[0xC0, 12, 0, 1, 0, 1]);
        }
    }
    b
}

// ------------------------------------------------------------------------------------------------
// cases
// ------------------------------------------------------------------------------------------------

#[derive(Default)]
struct Stat {
    attempts: u64,
    accepted: u64,
    by_mut: BTreeMap<String, (u64, u64)>,
    variants: BTreeSet<String>,
    crt: u64,
    crt_bytes: u64,
}

fn note_variants(st: &mut Stat, m: &Message) {
    for rec in m.answers.iter().chain(m.authorities.iter()).chain(m.additionals.iter()) {
        st.variants.insert(variant_name(&rec.data));
    }
    if let Some(e) = &m.edns {
        st.variants.insert("OPT".into());
        for (_, o) in &e.options().options {
            let s = format!("{o:?}");
            st.variants.insert(format!("OPT::{}", s.split(|c: char| !c.is_alphanumeric()).next().unwrap_or("")));
        }
    }
    if m.signature.is_some() {
        st.variants.insert("TSIG".into());
    }
}

fn msg_summary(m: &Message) -> String {
    let ty = |v: &Vec<Record>| v.iter().take(6).map(|x| x.record_type().to_string()).collect::<Vec<_>>().join(",");
    format!(
        "id={} op={} rcode={} q={} an=[{}]{} ns=[{}]{} ar=[{}]{} edns={} tsig={}",
        m.metadata.id,
        u8::from(m.metadata.op_code),
        u16::from(m.metadata.response_code),
        m.queries.len(),
        ty(&m.answers),
        m.answers.len(),
        ty(&m.authorities),
        m.authorities.len(),
        ty(&m.additionals),
        m.additionals.len(),
        m.edns.is_some(),
        m.signature.is_some()
    )
}

fn case(seed: u64, index: u64, st: &mut Stat) -> CaseOut {
    let mut r = Rng::for_case(seed, index);
    let fam = r.below(1000);
    let head = format!("seed={seed} index={index}");
    if fam < 450 {
        // ---- A
        let (mode, kind) = match r.below(450) {
            0..=9 => (AMode::Straddle, "rt-modelled-3fff"), // 1% of all cases: 16 KiB each
            10..=29 => (AMode::Names120, "rt-modelled-names120"),
            30..=49 => (AMode::Cand64, "rt-modelled-cand64"),
            50..=69 => (AMode::MaxName, "rt-modelled-maxname"),
            70..=109 => (AMode::Update, "rt-modelled-update"),
            110..=169 => (AMode::Big, "rt-modelled"),
            _ => (AMode::Plain, "rt-modelled"),
        };
        let m = gen_msg(&mut r, mode);
        note_variants(st, &m.msg);
        let (bytes, fail) = oracle_msg(&m.msg);
        let out = bytes.clone().unwrap_or_default();
        st.crt += 1;
        st.crt_bytes += out.len() as u64;
        let text_in = msg_text(&m);
        let nrec = m.answers.len() + m.auth.len() + m.add.len();
        return CaseOut {
            index,
            coq: format!("CRt {} {}", msg_coq(&m), coq_pb(&out)),
            text: format!("{head} {kind} {text_in} => {}B {}", out.len(), hex(&out[..out.len().min(40)])),
            key: hex(&out),
            nontrivial: nrec > 0,
            kind: kind.to_string(),
            known: fail.as_ref().and_then(|f| f.1.clone()),
            oracle_fail: fail.map(|f| f.0),
        };
    }
    if fam < 700 {
        // ---- B
        let t = B_TYPES[r.below(B_TYPES.len() as u64) as usize];
        let m = gen_b_msg(&mut r, t);
        note_variants(st, &m);
        let (bytes, fail) = oracle_msg(&m);
        let out = bytes.unwrap_or_default();
        return CaseOut {
            index,
            coq: "COracle 1".into(),
            text: format!("{head} rt-oracle-{t} {} => {}B {}", msg_summary(&m), out.len(), hex(&out[..out.len().min(60)])),
            key: hex(&out),
            nontrivial: true,
            kind: format!("rt-oracle-{t}"),
            known: fail.as_ref().and_then(|f| f.1.clone()),
            oracle_fail: fail.map(|f| f.0),
        };
    }
    // ---- C
    let sub = r.below(600);
    let (kind, bytes): (String, Option<Vec<u8>>) = if sub < 2 {
        ("bytes-overflow".into(), Some(overflow_input(&mut r, sub)))
    } else if sub < 180 {
        let b = handmade(&mut r);
        st.attempts += 1;
        let e = st.by_mut.entry("handptr".into()).or_default();
        e.0 += 1;
        let ok = matches!(guard({
            let b = b.clone();
            move || Message::from_vec(&b).is_ok()
        }), Ok(true));
        if ok {
            st.accepted += 1;
            e.1 += 1;
            ("bytes-handptr".into(), Some(b))
        } else {
            ("bytes-rejected".into(), None)
        }
    } else {
        let mut found = None;
        for _ in 0..6 {
            let base = any_message(&mut r);
            let mut b = match base.to_vec() {
                Ok(b) => b,
                Err(_) => continue,
            };
            let orig = b.clone();
            let mut names = vec![];
            for _ in 0..r.range(1, 2) {
                names.push(MUTS[mutate(&mut r, &mut b)]);
            }
            if b == orig {
                continue;
            }
            st.attempts += 1;
            let e = st.by_mut.entry(names[0].to_string()).or_default();
            e.0 += 1;
            let ok = matches!(guard({
                let b = b.clone();
                move || Message::from_vec(&b).is_ok()
            }), Ok(true));
            if ok {
                st.accepted += 1;
                e.1 += 1;
                found = Some((format!("bytes-{}", names[0]), b));
                break;
            }
        }
        match found {
            Some((k, b)) => (k, Some(b)),
            None => ("bytes-rejected".into(), None),
        }
    };
    let (fail, text_out, key, nontrivial) = match &bytes {
        Some(b) => {
            if let Ok(Ok(m1)) = guard({
                let b = b.clone();
                move || Message::from_vec(&b)
            }) {
                note_variants(st, &m1);
            }
            let f = oracle_bytes(b).err();
            (f, format!("{}B {}", b.len(), hex(&b[..b.len().min(1024)])), hex(b), true)
        }
        None => (None, "no mutation accepted by the decoder".to_string(), format!("rej{index}"), false),
    };
    CaseOut {
        index,
        coq: "COracle 2".into(),
        text: format!("{head} {kind} {text_out}"),
        key,
        nontrivial,
        kind,
        known: fail.as_ref().and_then(|f| f.1.clone()),
        oracle_fail: fail.map(|f| f.0),
    }
}

/// the comparison must see what `PartialEq` of Record / Name / OPT does not: TTL, case, option order
fn self_test() {
    let n = Name::from_ascii("Www.ExAmple.COM.").unwrap();
    let mut a = Message::new(1, MessageType::Response, OpCode::Query);
    a.add_answer(Record::from_rdata(n.clone(), 300, RData::SRV(SRV::new(1, 2, 3, n.clone()))));
    let mut e = Edns::new();
    e.options_mut().insert(EdnsOption::Unknown(10, vec![1]));
    e.options_mut().insert(EdnsOption::Unknown(11, vec![2]));
    a.set_edns(e);
    assert!(deep_eq(&a, &a.clone(), false).is_ok());
    let mut b = a.clone();
    b.answers[0].ttl = 301;
    assert!(deep_eq(&a, &b, false).is_err(), "ttl");
    let mut b = a.clone();
    b.answers[0].name = n.to_lowercase();
    assert!(deep_eq(&a, &b, false).is_err(), "owner case");
    let mut b = a.clone();
    b.answers[0].data = RData::SRV(SRV::new(1, 2, 3, n.to_lowercase()));
    assert!(a.answers[0] == b.answers[0] && deep_eq(&a, &b, false).is_err(), "rdata name case");
    let mut b = a.clone();
    b.edns.as_mut().unwrap().options_mut().options.reverse();
    assert!(a.edns == b.edns && deep_eq(&a, &b, false).is_err(), "option order");
    let mut b = a.clone();
    b.metadata.response_code = ResponseCode::BADVERS;
    assert!(deep_eq(&a, &b, true).is_err(), "rcode");
}

fn main() {
    self_test();
    if std::env::var("VPH_LOUD").is_err() {
        quiet_panics();
    }
    let args = parse_args();
    let _ = Name::from_str("x.").unwrap();
    let mut st = Stat::default();
    if let Some((seed, index)) = args.replay {
        let c = case(seed, index, &mut st);
        println!("{}", c.text);
        println!("COQ {}", c.coq);
        if let Some(f) = c.oracle_fail {
            println!("ORACLE-FAIL {f}");
        }
        return;
    }
    let cases: Vec<CaseOut> = (0..args.n).map(|i| case(args.seed, i, &mut st)).collect();
    let by_mut: BTreeMap<String, serde_json::Value> = st.by_mut.iter().map(|(k, (a, ok))| (k.clone(), serde_json::json!({"attempts": a, "accepted": ok}))).collect();
    emit(
        "C02",
        "C02",
        &args,
        &cases,
        "A (45%, CRt: tied byte for byte to the encoder model and re-read by the reference decoder): random messages over every opcode 0..15 (UPDATE with RDATA-less records), rcodes 0..4095 with and without EDNS, all header flags, 0-2 questions, A/AAAA/TXT/NS/CNAME/PTR/MX/SOA/SRV/NULL records with any class/TTL over names sharing suffixes, mixed case, arbitrary-byte labels, EDNS (version, DO, Z, unknown options), TSIG; sub-families: >120 compressed names, >64 pointer candidates, names straddling offset 0x3FFF behind a 16 KiB NULL record and repeated afterwards (1% of cases), 255-octet names / 63-octet labels. B (25%, oracle only): every other RData variant with randomised fields and mixed-case embedded names, typed EDNS options, TSIG with every algorithm/error. C (30%, oracle only): encodings of A/B mutated (bit flips, byte sets, RDLENGTH and inner length edits, cuts, spliced foreign records, owner names replaced by pointers, count and header-bit edits), hand-written packets with pointers inside RDATA of SRV/NAPTR/SIG/RRSIG/NSEC/SVCB/HTTPS/ANAME/TSIG/unknown types, two oversize families (F11); kept when Message::from_vec accepts. ORACLE: (a) decode(encode m) == m under a deep comparison (TTL, class, exact case and fqdn flag of every owner and embedded name, ordered EDNS options, TSIG) with normalisations N1 rcode by number, N2 rcode low nibble without EDNS / Edns::rcode_high derived from the rcode, N3 DNSSECRData::Unknown == RData::Unknown, N4 empty RDATA == Update0 (opcode UPDATE only); (b) for every accepted b: encode(decode b) succeeds and decodes to the same message, strictly; (c) RDATA byte-identical for all types but NS/CNAME/PTR/MX/SOA/OPT unless the original embedded name used a pointer. non-trivial = A with at least one record, every B, every accepted C; distinct by encoded bytes",
        serde_json::json!({
            "accepted_fraction": if st.attempts > 0 { st.accepted as f64 / st.attempts as f64 } else { 0.0 },
            "byte_strings_tried": st.attempts,
            "byte_strings_accepted": st.accepted,
            "by_mutation": by_mut,
            "rdata_variants": st.variants.iter().cloned().collect::<Vec<_>>(),
            "crt_cases": st.crt,
            "crt_bytes": st.crt_bytes,
        }),
    );
}
