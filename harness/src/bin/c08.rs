//! C08 — NSEC denial of existence.  Drives the real `verify_nsec` (through the
//! cfg(hickory_dns_verif) hook) on NSEC sets taken from the genuine chain of a generated
//! zone; the observation is the `Proof` it returns.  The direct oracle evaluates the
//! response's claim semantically on the generating zone (independent of the model):
//! `Secure` while the claim is false in a zone that genuinely contains the NSECs = unsound.
//!
//! Names are kept root-first as lists of lower-case labels (the form of the Coq model);
//! the real code gets `Name`s, sometimes with upper-case letters.

use hickory_net::dnssec::verif_hooks::verify_nsec;
use hickory_net::proto::dnssec::rdata::{DNSSECRData, SigInput, NSEC, RRSIG};
use hickory_net::proto::dnssec::{Algorithm, Proof};
use hickory_net::proto::op::{Query, ResponseCode};
use hickory_net::proto::rr::{rdata, Name, RData, Record, RecordType, SerialNumber};
use futures_util::StreamExt;
use hickory_net::proto::dnssec::crypto::Ed25519SigningKey;
use hickory_net::proto::dnssec::rdata::{DNSKEY, DS};
use hickory_net::proto::dnssec::{DigestType, DnssecSigner, SigningKey};
use hickory_net::proto::op::{Edns, Message, SerialMessage};
use hickory_net::proto::serialize::binary::BinEncodable;
use hickory_net::xfer::Protocol;
use hickory_net::BufDnsStreamHandle;
use hickory_server::dnssec::NxProofKind;
use hickory_server::server::VerifContext;
use hickory_server::store::in_memory::InMemoryZoneHandler;
use hickory_server::zone_handler::{AxfrPolicy, Catalog, ZoneType};
use std::cmp::Ordering;
use std::collections::BTreeMap;
use std::net::SocketAddr;
use std::sync::Arc;
use vph::*;

type Lbl = Vec<u8>;
type Nm = Vec<Lbl>; // root first

const T_A: u16 = 1;
const T_NS: u16 = 2;
const T_CNAME: u16 = 5;
const T_SOA: u16 = 6;
const T_MX: u16 = 15;
const T_TXT: u16 = 16;
const T_DNAME: u16 = 39;
const T_DS: u16 = 43;
const T_RRSIG: u16 = 46;
const T_NSEC: u16 = 47;
const T_DNSKEY: u16 = 48;

fn star() -> Lbl {
    b"*".to_vec()
}

// ---------------------------------------------------------------- independent name algebra

fn is_prefix(p: &Nm, n: &Nm) -> bool {
    p.len() <= n.len() && p.iter().zip(n.iter()).all(|(a, b)| a == b)
}
/// RFC 4034 6.1 canonical order on root-first lower-case label lists
fn canon_cmp(a: &Nm, b: &Nm) -> Ordering {
    for (x, y) in a.iter().zip(b.iter()) {
        match x.as_slice().cmp(y.as_slice()) {
            Ordering::Equal => {}
            o => return o,
        }
    }
    a.len().cmp(&b.len())
}
fn with(n: &Nm, l: Lbl) -> Nm {
    let mut v = n.clone();
    v.push(l);
    v
}
fn lcp_len(a: &Nm, b: &Nm) -> usize {
    a.iter().zip(b.iter()).take_while(|(x, y)| x == y).count()
}
/// label count not counting a leftmost "*" (RFC 4034 3.1.3)
fn nlabels(n: &Nm) -> usize {
    if n.last().map(|l| l.as_slice() == b"*").unwrap_or(false) {
        n.len() - 1
    } else {
        n.len()
    }
}
fn show_name(n: &Nm) -> String {
    if n.is_empty() {
        return ".".into();
    }
    let mut s = String::new();
    for l in n.iter().rev() {
        for &b in l {
            if b.is_ascii_graphic() && b != b'.' && b != b'\\' {
                s.push(b as char);
            } else {
                s.push_str(&format!("\\{:03}", b));
            }
        }
        s.push('.');
    }
    s
}

// ---------------------------------------------------------------- zone (the semantic side)

#[derive(Clone, Debug)]
struct Zone {
    apex: Nm,
    /// authoritative owner names in canonical order with their types (without NSEC/RRSIG)
    rrs: Vec<(Nm, Vec<u16>)>,
}

#[derive(Clone, Debug)]
struct NsecRec {
    owner: Nm,
    next: Nm,
    types: Vec<u16>,
}

#[derive(Clone, Debug)]
struct Ans {
    name: Nm,
    secure: bool,
    rrsig: Option<u8>,
}

impl Zone {
    fn types(&self, n: &Nm) -> Option<&Vec<u16>> {
        self.rrs.iter().find(|(o, _)| o == n).map(|(_, t)| t)
    }
    fn is_owner(&self, n: &Nm) -> bool {
        self.types(n).is_some()
    }
    fn has(&self, n: &Nm, t: u16) -> bool {
        // a signed name always carries NSEC and RRSIG
        self.types(n).map(|ts| ts.contains(&t) || t == T_NSEC || t == T_RRSIG).unwrap_or(false)
    }
    fn exists(&self, n: &Nm) -> bool {
        self.rrs.iter().any(|(o, _)| is_prefix(n, o))
    }
    fn ce(&self, q: &Nm) -> Option<Nm> {
        (0..=q.len()).rev().map(|k| q[..k].to_vec()).find(|p| self.exists(p))
    }
    fn is_cut(&self, d: &Nm) -> bool {
        self.has(d, T_NS) && !self.has(d, T_SOA)
    }
    fn occluded(&self, q: &Nm, qt: u16) -> bool {
        self.rrs.iter().any(|(d, _)| {
            is_prefix(d, q) && ((self.is_cut(d) && !(d == q && qt == T_DS)) || (self.has(d, T_DNAME) && d != q))
        })
    }
    fn lacks(&self, n: &Nm, qt: u16) -> bool {
        self.is_owner(n) && !self.has(n, qt) && !self.has(n, T_CNAME)
    }
    /// RFC 4034 4: one NSEC per owner, next = successor in canonical order, last -> apex
    fn chain(&self) -> Vec<NsecRec> {
        let n = self.rrs.len();
        (0..n)
            .map(|i| {
                let mut types = self.rrs[i].1.clone();
                types.push(T_RRSIG);
                types.push(T_NSEC);
                types.sort();
                types.dedup();
                NsecRec { owner: self.rrs[i].0.clone(), next: if i + 1 < n { self.rrs[i + 1].0.clone() } else { self.apex.clone() }, types }
            })
            .collect()
    }
}

fn wild_rrsig(r: &Ans) -> Option<usize> {
    match (r.secure, r.rrsig) {
        (true, Some(l)) if (l as usize) < nlabels(&r.name) => Some(l as usize),
        _ => None,
    }
}
fn trim(n: &Nm, l: usize) -> Nm {
    if l > n.len() {
        n.clone()
    } else {
        n[..l].to_vec()
    }
}
fn genuine_answers(z: &Zone, answers: &[Ans]) -> bool {
    answers.iter().all(|r| match wild_rrsig(r) {
        Some(l) => z.is_owner(&with(&trim(&r.name, l), star())),
        None => true,
    })
}

#[derive(Clone, Copy, PartialEq, Debug)]
enum Rc {
    NoError,
    NxDomain,
    Other,
}

/// the response's claim, evaluated in the zone
fn claim_holds(z: &Zone, q: &Nm, qt: u16, rc: Rc, answers: &[Ans]) -> bool {
    if !is_prefix(&z.apex, q) || z.occluded(q, qt) {
        return false;
    }
    let ce = z.ce(q).expect("in zone");
    let wc = with(&ce, star());
    match (rc, answers.is_empty()) {
        (Rc::NxDomain, true) => !z.exists(q) && !z.exists(&wc),
        (Rc::NoError, true) => {
            z.lacks(q, qt)
                || (z.exists(q) && !z.is_owner(q))
                || (!z.exists(q) && (z.lacks(&wc, qt) || (z.exists(&wc) && !z.is_owner(&wc))))
        }
        (Rc::NoError, false) => {
            !z.exists(q)
                && answers.iter().all(|r| match wild_rrsig(r) {
                    Some(l) if &r.name == q => ce == trim(q, l),
                    _ => true,
                })
        }
        _ => false,
    }
}

// ---------------------------------------------------------------- known classes (inputs only)

fn covers(soa: &Option<Nm>, t: &Nm, r: &NsecRec) -> bool {
    canon_cmp(t, &r.owner) == Ordering::Greater
        && (canon_cmp(t, &r.next) == Ordering::Less || soa.as_ref() == Some(&r.next))
}
fn strict_prefix(p: &Nm, n: &Nm) -> bool {
    is_prefix(p, n) && p != n
}

/// the wildcard the procedure compares against (part of the class predicate K4; written from
/// the class definition in Model.v, kept in step with it by the correspondence check)
fn class_wildcard_base(q: &Nm, answers: &[Ans], nsecs: &[NsecRec]) -> Option<Nm> {
    if !answers.is_empty() {
        let mut best: Option<(usize, Nm)> = None;
        for r in answers {
            let (true, Some(l)) = (r.secure, r.rrsig) else { continue };
            let l = l as usize;
            if l >= nlabels(&r.name) || l >= nlabels(q) {
                continue;
            }
            let t = trim(&r.name, l);
            if !is_prefix(&t, q) {
                continue;
            }
            if best.as_ref().map(|(b, _)| l < *b).unwrap_or(true) {
                best = Some((l, with(&t, star())));
            }
        }
        best.map(|(_, n)| n)
    } else {
        let mut best: Option<&NsecRec> = None;
        for r in nsecs {
            let wild = r.owner.last().map(|l| l.as_slice() == b"*").unwrap_or(false);
            if !wild || !is_prefix(&r.owner[..r.owner.len() - 1].to_vec(), q) {
                continue;
            }
            if best.map(|b| nlabels(&r.owner) < nlabels(&b.owner)).unwrap_or(true) {
                best = Some(r);
            }
        }
        best.map(|r| r.owner.clone())
    }
}

fn class_no_closer_matches(q: &Nm, soa: &Option<Nm>, nsecs: &[NsecRec], wb: Option<&Nm>) -> bool {
    let Some(w) = wb else { return false };
    if let Some(s) = soa {
        if !is_prefix(s, w) || !is_prefix(s, q) {
            return false;
        }
    }
    if nlabels(w) > nlabels(q) {
        return false;
    }
    let base: Nm = if w.is_empty() { vec![] } else { w[..w.len() - 1].to_vec() };
    if !is_prefix(&base, q) {
        return false;
    }
    let mut name: Nm = if q.is_empty() { vec![] } else { q[..q.len() - 1].to_vec() };
    while nlabels(&name) > nlabels(w) {
        let wc = with(&name, star());
        if !nsecs.iter().any(|r| covers(soa, &wc, r)) {
            return false;
        }
        name.pop();
    }
    true
}

fn known_class(q: &Nm, qt: u16, soa: &Option<Nm>, rc: Rc, answers: &[Ans], nsecs: &[NsecRec]) -> Option<&'static str> {
    // ancestor delegation / DNAME
    for r in nsecs {
        if is_prefix(&r.owner, q) {
            let ns = r.types.contains(&T_NS) && !r.types.contains(&T_SOA);
            if (ns && !(r.owner == *q && qt == T_DS)) || (r.types.contains(&T_DNAME) && r.owner != *q) {
                return Some("C08-ancestor-delegation");
            }
        }
    }
    // empty non-terminal: a tested name is covered by an NSEC whose next name lies below it
    let mut tested = vec![q.clone()];
    for k in 0..=q.len() {
        tested.push(with(&q[..k].to_vec(), star()));
    }
    for t in &tested {
        for r in nsecs {
            if covers(soa, t, r) && strict_prefix(t, &r.next) {
                return Some("C08-ent-covered");
            }
        }
    }
    if let Some(cov) = nsecs.iter().find(|r| covers(soa, q, r)) {
        let m = lcp_len(q, &cov.owner).max(lcp_len(q, &cov.next));
        if soa.is_none() && rc == Rc::NxDomain && answers.is_empty() && m + 1 < q.len() {
            return Some("C08-nosoa-encloser");
        }
        if rc == Rc::NoError
            && class_no_closer_matches(q, soa, nsecs, class_wildcard_base(q, answers, nsecs).as_ref())
            && answers.iter().any(|r| matches!(wild_rrsig(r), Some(l) if &r.name == q && m > l))
        {
            return Some("C08-wildcard-closer-encloser");
        }
    }
    // interior "*" label in the query name
    if q.len() >= 1 && q[..q.len() - 1].iter().any(|l| l.as_slice() == b"*") {
        return Some("C08-interior-star");
    }
    None
}

/// classes of server-built responses that the validator is known to reject
fn incomplete_class(p: &Probe) -> Option<&'static str> {
    let z = &p.z;
    let chain = z.chain();
    let has = |i: usize| p.nsecs.iter().any(|r| r.owner == chain[i].owner);
    // server side: what RFC 4035 3.1.3 requires for this query in this zone is not all there
    let need = honest_nsecs(z, &chain, &p.q);
    if p.nsecs.is_empty() || !need.iter().all(|&i| has(i)) {
        // known only when the reply carries exactly what the unchanged nsec_records() selects:
        // the NSEC at qname, else closest_nsec(qname) and closest_nsec(parent of qname, or the
        // origin), where closest_nsec(n) = the NSEC of the greatest owner <= n and finds nothing
        // in a single-name zone.  Any other shortfall (e.g. no NSEC at all beside a
        // wildcard-expanded answer) is new.
        let closest = |n: &Nm| -> Option<usize> {
            if chain.len() < 2 {
                return None;
            }
            (0..chain.len()).rev().find(|&i| canon_cmp(&chain[i].owner, n) != Ordering::Greater)
        };
        let mut sel: Vec<usize> = vec![];
        if let Some(i) = chain.iter().position(|r| r.owner == p.q) {
            sel.push(i);
        } else {
            let mut w: Nm = p.q.clone();
            w.pop();
            if !is_prefix(&z.apex, &w) {
                w = z.apex.clone();
            }
            if let Some(i) = closest(&p.q) {
                sel.push(i);
            }
            if w != p.q {
                if let Some(i) = closest(&w) {
                    if !sel.contains(&i) {
                        sel.push(i);
                    }
                }
            }
        }
        let same = p.nsecs.iter().all(|r| sel.iter().any(|&i| chain[i].owner == r.owner)) && sel.iter().all(|&i| has(i));
        return if same { Some("C08-server-proof-incomplete") } else { None };
    }
    // validator side
    let wild_answer = p.answers.iter().any(|a| wild_rrsig(a).is_some());
    if p.rc == Rc::NoError && p.answers.is_empty() && z.exists(&p.q) && !z.is_owner(&p.q) {
        return Some("C08-incomplete-ent-nodata");
    }
    if wild_answer {
        if let Some(ce) = z.ce(&p.q) {
            if ce.len() + 1 == p.q.len() {
                return Some("C08-incomplete-wildcard-answer");
            }
        }
        // the NSEC covering the query name is the last of the chain and there is no SOA
        if p.soa.is_none() && chain.last().map(|l| canon_cmp(&p.q, &l.owner) == Ordering::Greater).unwrap_or(false) {
            return Some("C08-incomplete-wildcard-answer");
        }
    }
    if p.q.len() >= 1 && p.q[..p.q.len() - 1].iter().any(|l| l.as_slice() == b"*") {
        return Some("C08-interior-star");
    }
    None
}

// ---------------------------------------------------------------- real code

fn to_name(n: &Nm, upper: bool) -> Name {
    let labels: Vec<Vec<u8>> = n
        .iter()
        .rev()
        .map(|l| if upper { l.to_ascii_uppercase() } else { l.clone() })
        .collect();
    Name::from_labels(labels).expect("name")
}

fn run_real(q: &Nm, qt: u16, soa: &Option<Nm>, rc: Rc, answers: &[Ans], nsecs: &[NsecRec], upper: u64) -> u8 {
    let qn = to_name(q, upper & 1 != 0);
    let query = Query::new(qn, RecordType::from(qt));
    let soa_name = soa.as_ref().map(|s| to_name(s, upper & 2 != 0));
    let rcode = match rc {
        Rc::NoError => ResponseCode::NoError,
        Rc::NxDomain => ResponseCode::NXDomain,
        Rc::Other => ResponseCode::ServFail,
    };
    let recs: Vec<Record> = answers
        .iter()
        .map(|a| {
            let name = to_name(&a.name, upper & 4 != 0);
            let mut r = match a.rrsig {
                Some(l) => {
                    let input = SigInput {
                        type_covered: RecordType::A,
                        algorithm: Algorithm::ED25519,
                        num_labels: l,
                        original_ttl: 0,
                        sig_expiration: SerialNumber::new(0),
                        sig_inception: SerialNumber::new(0),
                        key_tag: 0,
                        signer_name: Name::root(),
                    };
                    Record::from_rdata(name, 3600, RData::DNSSEC(DNSSECRData::RRSIG(RRSIG::from_sig(input, vec![]))))
                }
                None => Record::from_rdata(name, 3600, RData::A(rdata::A::new(192, 0, 2, 1))),
            };
            r.proof = if a.secure { Proof::Secure } else { Proof::Insecure };
            r
        })
        .collect();
    let owned: Vec<(Name, NSEC)> = nsecs
        .iter()
        .map(|r| {
            (
                to_name(&r.owner, upper & 8 != 0),
                NSEC::new(to_name(&r.next, upper & 16 != 0), r.types.iter().map(|t| RecordType::from(*t))),
            )
        })
        .collect();
    let refs: Vec<(&Name, &NSEC)> = owned.iter().map(|(n, r)| (n, r)).collect();
    let res = guard(std::panic::AssertUnwindSafe(|| verify_nsec(&query, soa_name.as_ref(), rcode, &recs, &refs)));
    match res {
        Ok(Proof::Secure) => 1,
        Ok(Proof::Bogus) => 0,
        Ok(_) => 2,
        Err(_) => 3,
    }
}

// ---------------------------------------------------------------- generators

const LABELS: [&[u8]; 3] = [b"a", b"b", b"*"];
const EXTRA: [&[u8]; 5] = [b"!", b"c", b"ab", b"-", b"b*"];

fn gen_label(r: &mut Rng, wide: bool) -> Lbl {
    if wide && r.chance(1, 5) {
        r.pick(&EXTRA).to_vec()
    } else {
        r.pick(&LABELS).to_vec()
    }
}
fn gen_below(r: &mut Rng, base: &Nm, max_depth: u64, wide: bool) -> Nm {
    let mut n = base.clone();
    for _ in 0..r.range(1, max_depth) {
        n.push(gen_label(r, wide));
    }
    n
}

fn gen_types(r: &mut Rng) -> Vec<u16> {
    match r.below(12) {
        0 | 1 | 2 => vec![T_A],
        3 => vec![T_TXT],
        4 => vec![T_A, T_TXT],
        5 => vec![T_CNAME],
        6 | 7 => vec![T_NS],
        8 => vec![T_NS, T_DS],
        9 => vec![T_DNAME],
        10 => vec![T_A, T_MX],
        _ => vec![T_MX],
    }
}

fn finish_zone(apex: Nm, mut rrs: Vec<(Nm, Vec<u16>)>, apex_a: bool) -> Zone {
    let mut at = vec![T_NS, T_SOA];
    if apex_a {
        at.push(T_A);
    }
    rrs.retain(|(n, _)| n != &apex);
    rrs.push((apex.clone(), at));
    rrs.sort_by(|a, b| canon_cmp(&a.0, &b.0));
    rrs.dedup_by(|a, b| a.0 == b.0);
    // nothing authoritative strictly below a delegation or a DNAME
    let cuts: Vec<Nm> = rrs
        .iter()
        .filter(|(n, t)| n != &apex && ((t.contains(&T_NS) && !t.contains(&T_SOA)) || t.contains(&T_DNAME)))
        .map(|(n, _)| n.clone())
        .collect();
    rrs.retain(|(n, _)| !cuts.iter().any(|c| strict_prefix(c, n)));
    Zone { apex, rrs }
}

/// the 12 names of depth <= 2 below the apex over {a,b,*}
fn small_universe(apex: &Nm) -> Vec<Nm> {
    let mut v = vec![];
    for l1 in LABELS {
        let n1 = with(apex, l1.to_vec());
        v.push(n1.clone());
        for l2 in LABELS {
            v.push(with(&n1, l2.to_vec()));
        }
    }
    v
}

fn gen_zone(r: &mut Rng, zid: u64, systematic: bool) -> Zone {
    let apex: Nm = if r.chance(1, 8) { vec![b"f".to_vec(), b"e".to_vec()] } else { vec![b"e".to_vec()] };
    let mut rrs = vec![];
    if systematic {
        // owner set = bits of zid over the small universe, a few deeper names on top
        let u = small_universe(&apex);
        for (i, n) in u.iter().enumerate() {
            if zid >> i & 1 == 1 {
                rrs.push((n.clone(), gen_types(r)));
            }
        }
        for _ in 0..r.below(3) {
            rrs.push((gen_below(r, &apex, 3, false), gen_types(r)));
        }
    } else {
        let wide = r.chance(1, 3);
        for _ in 0..r.range(0, 7) {
            rrs.push((gen_below(r, &apex, 3, wide), gen_types(r)));
        }
    }
    let apex_a = r.chance(1, 2);
    finish_zone(apex, rrs, apex_a)
}

fn gen_qname(r: &mut Rng, z: &Zone) -> Nm {
    if r.chance(1, 60) {
        // the root, or a top-level name
        return if r.chance(1, 2) { vec![] } else { vec![gen_label(r, true)] };
    }
    match r.below(20) {
        0..=8 => gen_below(r, &z.apex, 3, false),
        9 | 10 => gen_below(r, &z.apex, 4, true),
        11 | 12 => {
            // below or beside an existing owner
            let o = r.pick(&z.rrs).0.clone();
            gen_below(r, &o, 2, false)
        }
        13 | 14 => {
            // an ancestor of an owner (owner itself or an empty non-terminal)
            let o = r.pick(&z.rrs).0.clone();
            let k = r.range(z.apex.len().min(o.len()) as u64, o.len() as u64) as usize;
            o[..k].to_vec()
        }
        15 | 16 => {
            // sibling of an owner
            let mut o = r.pick(&z.rrs).0.clone();
            if o.len() > z.apex.len() {
                o.pop();
            }
            with(&o, gen_label(r, true))
        }
        17 => z.apex.clone(),
        18 => {
            // outside the zone: before it, after it, or a sibling of the apex
            let mut n: Nm = if z.apex.len() > 1 && r.chance(1, 2) {
                vec![z.apex[0].clone(), r.pick(&[&b"a"[..], b"x"]).to_vec()]
            } else {
                vec![r.pick(&[&b"a"[..], b"f", b"z", b"*"]).to_vec()]
            };
            if n == z.apex {
                n[0] = b"z".to_vec();
            }
            for _ in 0..r.below(3) {
                n.push(gen_label(r, false));
            }
            n
        }
        _ => r.pick(&z.rrs).0.clone(),
    }
}

/// what a correct server would attach (independent reading of RFC 4035 3.1.3)
fn honest_nsecs(z: &Zone, chain: &[NsecRec], q: &Nm) -> Vec<usize> {
    let mut v = vec![];
    let find_match = |n: &Nm| chain.iter().position(|r| &r.owner == n);
    let find_cover = |n: &Nm| {
        // predecessor in canonical order (the last NSEC covers everything after it)
        let mut best = None;
        for (i, r) in chain.iter().enumerate() {
            if canon_cmp(&r.owner, n) == Ordering::Less {
                best = Some(i);
            }
        }
        best
    };
    if let Some(i) = find_match(q) {
        v.push(i);
        return v;
    }
    if let Some(i) = find_cover(q) {
        v.push(i);
    }
    if let Some(ce) = z.ce(q) {
        let wc = with(&ce, star());
        if let Some(i) = find_match(&wc).or_else(|| find_cover(&wc)) {
            if !v.contains(&i) {
                v.push(i);
            }
        }
    }
    v
}

struct Probe {
    z: Zone,
    q: Nm,
    qt: u16,
    soa: Option<Nm>,
    rc: Rc,
    answers: Vec<Ans>,
    nsecs: Vec<NsecRec>,
    upper: u64,
    family: &'static str,
    /// server-built response: completeness is expected (the proof the server attached)
    e2e: Option<String>,
    /// the server's reply is a referral (NS below the apex in the authority section)
    referral: bool,
}

const SWEEP_BASE: u64 = 1 << 40;
const PROBES_PER_ZONE: u64 = 24;

fn gen_probe(seed: u64, index: u64) -> Probe {
    let sweep = index >= SWEEP_BASE;
    let zid = (index & (SWEEP_BASE - 1)) / PROBES_PER_ZONE;
    let systematic = sweep || zid % 2 == 0;
    // the zone depends on (seed, zone id) only: PROBES_PER_ZONE consecutive indices share it
    let mut zr = Rng::for_case(seed ^ 0x5a5a_0000, if sweep { SWEEP_BASE + zid } else { zid });
    let z = gen_zone(&mut zr, zid, systematic);
    let chain = z.chain();
    let mut r = Rng::for_case(seed, index);
    let q = gen_qname(&mut r, &z);
    let qt = *r.pick(&[T_A, T_A, T_TXT, T_NS, T_DS, T_CNAME, T_MX, T_NSEC, T_SOA]);
    let rc = match r.below(40) {
        0 => Rc::Other,
        1..=19 => Rc::NxDomain,
        _ => Rc::NoError,
    };
    let soa = match r.below(20) {
        0..=8 => Some(z.apex.clone()),
        9..=17 => None,
        18 => Some(q[..r.below(q.len() as u64 + 1) as usize].to_vec()),
        _ => Some(gen_below(&mut r, &vec![], 2, false)),
    };
    // NSEC selection
    let honest = honest_nsecs(&z, &chain, &q);
    let mut family = "honest";
    let mut sel: Vec<usize> = match r.below(10) {
        0..=3 => honest.clone(),
        4 | 5 => {
            family = "honest+1";
            let mut v = honest.clone();
            v.push(r.below(chain.len() as u64) as usize);
            v
        }
        6 => {
            family = "honest-1";
            let mut v = honest.clone();
            if !v.is_empty() {
                v.remove(r.below(v.len() as u64) as usize);
            }
            v
        }
        7 | 8 => {
            family = "random";
            (0..r.range(0, 3)).map(|_| r.below(chain.len() as u64) as usize).collect()
        }
        _ => {
            family = "all";
            (0..chain.len()).collect()
        }
    };
    if r.chance(1, 4) && sel.len() > 1 {
        // order matters to `find`
        let i = r.below(sel.len() as u64) as usize;
        let j = r.below(sel.len() as u64) as usize;
        sel.swap(i, j);
    }
    let nsecs: Vec<NsecRec> = sel.iter().map(|&i| chain[i].clone()).collect();
    // answers
    let mut answers = vec![];
    if rc == Rc::NoError && r.chance(2, 5) || r.chance(1, 30) {
        // candidate wildcards that could have produced an answer for q
        let gen: Vec<usize> =
            (0..q.len()).filter(|&k| z.is_owner(&with(&q[..k].to_vec(), star()))).collect();
        let l = if !gen.is_empty() && r.chance(3, 4) { *r.pick(&gen) as u64 } else { r.below(q.len() as u64 + 1) };
        let name = if r.chance(1, 12) { gen_qname(&mut r, &z) } else { q.clone() };
        answers.push(Ans { name: name.clone(), secure: !r.chance(1, 10), rrsig: None });
        answers.push(Ans { name: name.clone(), secure: !r.chance(1, 10), rrsig: Some(l as u8) });
        if r.chance(1, 8) {
            answers.push(Ans { name, secure: true, rrsig: Some(r.below(q.len() as u64 + 1) as u8) });
        }
        if r.chance(1, 6) {
            answers.swap(0, 1);
        }
    }
    let upper = if r.chance(1, 4) { r.below(32) } else { 0 };
    Probe { z, q, qt, soa, rc, answers, nsecs, upper, family, e2e: None, referral: false }
}


// ---------------------------------------------------------------- end to end: the real server builds the proof

fn from_name(n: &Name) -> Nm {
    let mut v: Nm = n.iter().map(|l| l.to_ascii_lowercase()).collect();
    v.reverse();
    v
}

fn invalid(host: &str) -> Name {
    Name::from_ascii(format!("{host}.invalid.")).unwrap()
}

/// signed in-memory zone with exactly the owner names and types of `z`
fn build_server(z: &Zone) -> VerifContext<Catalog> {
    let origin = to_name(&z.apex, false);
    let mut h = InMemoryZoneHandler::<hickory_net::runtime::TokioRuntimeProvider>::empty(origin.clone(), ZoneType::Primary, AxfrPolicy::Deny, Some(NxProofKind::Nsec));
    let key = Ed25519SigningKey::from_pkcs8(&Ed25519SigningKey::generate_pkcs8().expect("keygen")).expect("key");
    h.add_zone_signing_key_mut(DnssecSigner::new(
        DNSKEY::from_key(&key.to_public_key().expect("public key")),
        Box::new(key),
        origin.clone(),
        std::time::Duration::from_secs(3600),
    ))
    .expect("add key");
    for (n, types) in &z.rrs {
        let name = to_name(n, false);
        for t in types {
            let data = match *t {
                T_A => RData::A(rdata::A::new(192, 0, 2, 1)),
                T_NS => RData::NS(rdata::NS(invalid("ns"))),
                T_CNAME => RData::CNAME(rdata::CNAME(invalid("target"))),
                T_SOA => RData::SOA(rdata::SOA::new(invalid("ns"), invalid("admin"), 1, 3600, 600, 86400, 300)),
                T_MX => RData::MX(rdata::MX::new(10, invalid("mail"))),
                T_TXT => RData::TXT(rdata::TXT::new(vec!["x".to_string()])),
                T_DS => RData::DNSSEC(DNSSECRData::DS(DS::new(1, Algorithm::ED25519, DigestType::SHA256, vec![0; 32]))),
                T_DNSKEY => continue, // added by the signer
                other => panic!("e2e zone with type {other}"),
            };
            assert!(h.upsert_mut(Record::from_rdata(name.clone(), 300, data), 0));
        }
    }
    h.secure_zone_mut().expect("sign");
    let mut catalog = Catalog::new();
    catalog.upsert(origin.into(), vec![Arc::new(h)]);
    VerifContext::new(catalog, Vec::new(), Vec::new())
}

fn e2e_query(ctx: &VerifContext<Catalog>, q: &Nm, qt: u16) -> Option<Message> {
    let mut m = Message::query();
    m.add_query(Query::new(to_name(q, false), RecordType::from(qt)));
    m.edns.get_or_insert_with(Edns::new).enable_dnssec();
    let bytes = m.to_bytes().ok()?;
    let addr: SocketAddr = ([127, 0, 0, 1], 5353).into();
    let (handle, rx) = BufDnsStreamHandle::new(addr);
    let rt = tokio::runtime::Builder::new_current_thread().enable_all().build().unwrap();
    let replies: Vec<Vec<u8>> = rt.block_on(async {
        ctx.handle_raw_request(SerialMessage::new(bytes, addr), Protocol::Udp, handle).await;
        rx.map(|m| m.into_parts().0).collect::<Vec<_>>().await
    });
    Message::from_vec(replies.first()?).ok()
}

const E2E_BASE: u64 = 1 << 41;

/// e2e zones use only types the in-memory store can hold here
fn e2e_normalise(z: &Zone) -> Zone {
    let mut z = z.clone();
    for (n, t) in z.rrs.iter_mut() {
        for x in t.iter_mut() {
            if *x == T_DNAME {
                *x = T_TXT;
            }
        }
        if *n == z.apex {
            t.push(T_DNSKEY);
        }
        t.sort();
        t.dedup();
    }
    z
}

fn gen_e2e_probe(seed: u64, index: u64) -> Probe {
    let zid = (index & (SWEEP_BASE - 1)) / PROBES_PER_ZONE;
    let mut zr = Rng::for_case(seed ^ 0x5a5a_0000, E2E_BASE + zid);
    let mut z0 = gen_zone(&mut zr, zid, zid % 2 == 0);
    // every third zone gets a wildcard whose RRset is a CNAME or of some other single type,
    // and most of its queries ask names the wildcard matches for a DIFFERENT type
    let mut forced: Option<(Nm, u16)> = None;
    if zr.chance(1, 3) {
        let base = if zr.chance(1, 2) { z0.apex.clone() } else { with(&z0.apex, zr.pick(&[&b"a"[..], b"b", b"x"]).to_vec()) };
        let wt = *zr.pick(&[T_CNAME, T_CNAME, T_MX, T_TXT]);
        let apex_a = z0.has(&z0.apex, T_A);
        let mut rrs: Vec<(Nm, Vec<u16>)> = z0.rrs.iter().filter(|(n, _)| *n != with(&base, star())).cloned().collect();
        rrs.push((with(&base, star()), vec![wt]));
        z0 = finish_zone(z0.apex.clone(), rrs, apex_a);
        if z0.is_owner(&with(&base, star())) {
            forced = Some((base, wt));
        }
    }
    let z = e2e_normalise(&z0);
    let mut r = Rng::for_case(seed, index);
    let mut q = {
        let mut q = gen_qname(&mut r, &z);
        if !is_prefix(&z.apex, &q) {
            q = gen_below(&mut r, &z.apex, 3, false);
        }
        q
    };
    let mut qt = *r.pick(&[T_A, T_A, T_TXT, T_NS, T_DS, T_CNAME, T_MX]);
    if let Some((base, wt)) = &forced {
        if r.chance(2, 3) {
            q = base.clone();
            for _ in 0..r.range(1, 3) {
                q.push(r.pick(&[&b"a"[..], b"b", b"c", b"0", b"x", b"zz"]).to_vec());
            }
            let others: Vec<u16> = [T_A, T_TXT, T_MX].iter().copied().filter(|t| t != wt).collect();
            qt = *r.pick(&others);
        }
    }
    let ctx = build_server(&z);
    let mut referral = false;
    let (rc, soa, answers, nsecs, note) = match e2e_query(&ctx, &q, qt) {
        None => (Rc::Other, None, vec![], vec![], "no reply".to_string()),
        Some(m) => {
            let rc = match m.response_code {
                ResponseCode::NoError => Rc::NoError,
                ResponseCode::NXDomain => Rc::NxDomain,
                _ => Rc::Other,
            };
            let soa = m.authorities.iter().find(|r| r.record_type() == RecordType::SOA).map(|r| from_name(&r.name));
            referral = m.authorities.iter().any(|r| r.record_type() == RecordType::NS && from_name(&r.name) != z.apex);
            let answers: Vec<Ans> = m
                .answers
                .iter()
                .map(|r| Ans {
                    name: from_name(&r.name),
                    secure: true,
                    rrsig: match &r.data {
                        RData::DNSSEC(DNSSECRData::RRSIG(s)) => Some(s.input().num_labels),
                        _ => None,
                    },
                })
                .collect();
            let nsecs: Vec<NsecRec> = m
                .authorities
                .iter()
                .filter_map(|r| match &r.data {
                    RData::DNSSEC(DNSSECRData::NSEC(n)) => Some(NsecRec {
                        owner: from_name(&r.name),
                        next: from_name(n.next_domain_name()),
                        types: {
                            let mut t: Vec<u16> = n.type_set().iter().map(u16::from).collect();
                            t.sort();
                            t
                        },
                    }),
                    _ => None,
                })
                .collect();
            let note = format!(
                "server reply: rcode {:?}, {} answers, authority [{}]",
                m.response_code,
                m.answers.len(),
                m.authorities.iter().map(|r| format!("{} {}", r.name, r.record_type())).collect::<Vec<_>>().join(", ")
            );
            (rc, soa, answers, nsecs, note)
        }
    };
    Probe { z, q, qt, soa, rc, answers, nsecs, upper: 0, family: "e2e", e2e: Some(note), referral }
}


// ---------------------------------------------------------------- fixed cases: the witnesses of Props.v on the real code

const FIXED_BASE: u64 = 3 << 40;

fn nm(s: &str) -> Nm {
    // "a.b.e." -> [e, b, a]
    let mut v: Nm = s.trim_end_matches('.').split('.').filter(|l| !l.is_empty()).map(|l| l.as_bytes().to_vec()).collect();
    v.reverse();
    v
}

fn fixed_probes() -> Vec<Probe> {
    let apex_t = vec![T_NS, T_SOA];
    let zone = |rrs: Vec<(&str, Vec<u16>)>| {
        let mut v: Vec<(Nm, Vec<u16>)> = vec![(nm("e."), apex_t.clone())];
        v.extend(rrs.into_iter().map(|(n, t)| (nm(n), t)));
        v.sort_by(|a, b| canon_cmp(&a.0, &b.0));
        Zone { apex: nm("e."), rrs: v }
    };
    let pick = |z: &Zone, owners: &[&str]| -> Vec<NsecRec> {
        let ch = z.chain();
        owners.iter().map(|o| ch.iter().find(|r| r.owner == nm(o)).expect("owner in chain").clone()).collect()
    };
    let wild = |q: &str, l: u8| vec![Ans { name: nm(q), secure: true, rrsig: None }, Ans { name: nm(q), secure: true, rrsig: Some(l) }];
    let mut v = vec![];
    let mut add = |z: Zone, q: &str, qt: u16, soa: bool, rc: Rc, answers: Vec<Ans>, owners: &[&str], family: &'static str| {
        let nsecs = pick(&z, owners);
        let soa = if soa { Some(z.apex.clone()) } else { None };
        v.push(Probe { z, q: nm(q), qt, soa, rc, answers, nsecs, upper: 0, family, e2e: None, referral: false });
    };
    // soundness witnesses (Props.v C08_sound_refuted_*): expected Secure, claim false
    add(zone(vec![("a.e.", vec![T_NS])]), "b.a.e.", T_CNAME, true, Rc::NxDomain, vec![], &["a.e."], "fixed-unsound");
    add(zone(vec![("a.a.e.", vec![T_TXT])]), "a.e.", T_A, true, Rc::NxDomain, vec![], &["e."], "fixed-unsound");
    add(zone(vec![("*.e.", vec![T_A]), ("c.e.", vec![T_A])]), "a.b.e.", T_A, false, Rc::NxDomain, vec![], &["*.e."], "fixed-unsound");
    add(zone(vec![("*.e.", vec![T_A]), ("b.e.", vec![T_A]), ("c.e.", vec![T_A])]), "a.b.e.", T_A, false, Rc::NoError, wild("a.b.e.", 1), &["b.e."], "fixed-unsound");
    add(zone(vec![("*.e.", vec![T_TXT]), ("a.e.", vec![T_A])]), "b.*.e.", T_A, true, Rc::NoError, vec![], &["*.e."], "fixed-unsound");
    // completeness witnesses (C08_complete_refuted_*): whole chain, claim true, expected Bogus
    add(zone(vec![("a.a.e.", vec![T_TXT])]), "a.e.", T_A, true, Rc::NoError, vec![], &["e.", "a.a.e."], "fixed-rejected");
    add(zone(vec![("*.e.", vec![T_A]), ("c.e.", vec![T_A])]), "b.e.", T_A, false, Rc::NoError, wild("b.e.", 1), &["e.", "*.e.", "c.e."], "fixed-rejected");
    add(zone(vec![("*.e.", vec![T_A])]), "a.b.e.", T_A, false, Rc::NoError, wild("a.b.e.", 1), &["e.", "*.e."], "fixed-rejected");
    add(zone(vec![("*.e.", vec![T_TXT])]), "b.*.e.", T_A, true, Rc::NxDomain, vec![], &["e.", "*.e."], "fixed-rejected");
    // accepted and true (the Examples of Props.v): chain e. -> *.e. -> a.a.e. -> b.e. -> e.
    let zex = || zone(vec![("*.e.", vec![T_A]), ("b.e.", vec![T_A]), ("a.a.e.", vec![T_TXT])]);
    add(zex(), "b.e.", T_TXT, true, Rc::NoError, vec![], &["b.e."], "fixed-accepted");
    add(zex(), "c.b.e.", T_A, true, Rc::NxDomain, vec![], &["b.e."], "fixed-accepted");
    add(zex(), "x.0.e.", T_A, false, Rc::NoError, wild("x.0.e.", 1), &["b.e.", "*.e."], "fixed-accepted");
    add(zex(), "c.e.", T_TXT, true, Rc::NoError, vec![], &["b.e.", "*.e."], "fixed-accepted");
    // C08_sound_refuted_foreign_soa_name: the SOA owner name is the next name of the NSEC, not the apex
    let zs = zone(vec![("a.e.", vec![T_A]), ("s.e.", vec![T_A]), ("w.s.e.", vec![T_A])]);
    let nsecs = pick(&zs, &["a.e."]);
    v.push(Probe { z: zs, q: nm("w.s.e."), qt: T_A, soa: Some(nm("s.e.")), rc: Rc::NxDomain, answers: vec![], nsecs, upper: 0, family: "fixed-foreign-soa", e2e: None, referral: false });
    v
}

// ---------------------------------------------------------------- Coq rendering

fn enc_name(out: &mut Vec<u8>, n: &Nm) {
    out.push(n.len() as u8);
    for l in n {
        out.push(l.len() as u8);
        out.extend_from_slice(l);
    }
}
fn enc_types(out: &mut Vec<u8>, t: &[u16]) {
    out.push(t.len() as u8);
    for x in t {
        assert!(*x < 256);
        out.push(*x as u8);
    }
}

fn case(seed: u64, index: u64) -> CaseOut {
    let p = if index >= FIXED_BASE {
        fixed_probes().into_iter().nth((index - FIXED_BASE) as usize).expect("fixed case index")
    } else if index >= E2E_BASE {
        gen_e2e_probe(seed, index)
    } else {
        gen_probe(seed, index)
    };
    let fixed_expect = match p.family {
        "fixed-unsound" => Some((1u8, false)),
        "fixed-rejected" => Some((0u8, true)),
        "fixed-accepted" => Some((1u8, true)),
        "fixed-foreign-soa" => Some((1u8, false)),
        _ => None,
    };
    let obs = run_real(&p.q, p.qt, &p.soa, p.rc, &p.answers, &p.nsecs, p.upper);
    // oracle: applicable when the hypotheses of the soundness statement hold
    let soa_ok = p.soa.is_none() || p.soa.as_ref() == Some(&p.z.apex);
    let applicable = soa_ok && genuine_answers(&p.z, &p.answers);
    let claim = claim_holds(&p.z, &p.q, p.qt, p.rc, &p.answers);
    let mut oracle_fail = None;
    let mut known = None;
    let kclass = known_class(&p.q, p.qt, &p.soa, p.rc, &p.answers, &p.nsecs);
    let kn = match kclass {
        None => 0,
        Some("C08-ancestor-delegation") => 1,
        Some("C08-ent-covered") => 2,
        Some("C08-nosoa-encloser") => 3,
        Some("C08-wildcard-closer-encloser") => 4,
        Some(_) => 5,
    };
    if obs == 3 {
        oracle_fail = Some("verify_nsec panicked".to_string());
    } else if obs == 2 {
        oracle_fail = Some("verify_nsec returned neither Secure nor Bogus".to_string());
    } else if obs == 1 && applicable && !claim {
        oracle_fail = Some(format!(
            "unsound: verify_nsec = Secure but the claim ({}) is false in the zone the NSECs come from",
            match (p.rc, p.answers.is_empty()) {
                (Rc::NxDomain, true) => "NXDOMAIN: name and source of synthesis absent",
                (Rc::NoError, true) => "NODATA at the name or at the matching wildcard",
                _ => "wildcard answer: no closer match",
            }
        ));
        known = kclass.map(|s| s.to_string());
    }
    if let Some((want_obs, want_claim)) = fixed_expect {
        // Witnesses of Props.v.  The oracle's own verdict must be the recorded one (the harness
        // is wrong otherwise); a true claim with a sufficient proof must be accepted.  That the
        // defect witnesses still behave as recorded is the tie's business (model = code), not a
        // property violation: repairing a defect changes them legitimately.
        if oracle_fail.is_none() && (claim != want_claim || applicable == (p.family == "fixed-foreign-soa")) {
            oracle_fail = Some(format!("harness oracle disagrees with the recorded verdict of a fixed witness (claim {claim}, expected {want_claim})"));
            known = None;
        } else if oracle_fail.is_none() && p.family == "fixed-accepted" && obs != want_obs {
            oracle_fail = Some("incomplete: a true claim with an RFC-complete proof (RFC 4035 B.2/B.3/B.6/B.7 pattern) is rejected".to_string());
            known = None;
        }
    }
    let mut e2e_path = "";
    if let Some(note) = &p.e2e {
        // the NSEC records the server attached are records of the RFC 4034 chain of the zone
        let chain = p.z.chain();
        let foreign: Vec<String> = p
            .nsecs
            .iter()
            .filter(|r| !chain.iter().any(|c| c.owner == r.owner && c.next == r.next && c.types == r.types))
            .map(|r| format!("{} -> {} {:?}", show_name(&r.owner), show_name(&r.next), r.types))
            .collect();
        let wild_answer = p.answers.iter().any(|a| wild_rrsig(a).is_some());
        let negative = p.rc == Rc::NxDomain || (p.rc == Rc::NoError && p.answers.is_empty());
        let needs_proof = (!p.nsecs.is_empty() || wild_answer || negative) && !p.referral;
        e2e_path = if p.referral { "/referral" } else if !needs_proof { "/positive" } else if wild_answer { "/wildcard-answer" } else if p.rc == Rc::NxDomain { "/nxdomain" } else { "/nodata" };
        if oracle_fail.is_none() && !foreign.is_empty() {
            oracle_fail = Some(format!("server attached NSEC records that are not in the zone's RFC 4034 chain: {} ({note})", foreign.join("; ")));
        } else if oracle_fail.is_none() && needs_proof && obs != 1 && p.rc != Rc::Other && claim && applicable {
            // (a response whose claim is false in the zone is the server's error; rejecting it is right)
            oracle_fail = Some(format!("incomplete: the proof the server attached is rejected ({note})"));
            known = incomplete_class(&p).map(|s| s.to_string());
        }
    }
    let rc_n: u8 = match p.rc {
        Rc::NoError => 0,
        Rc::NxDomain => 1,
        Rc::Other => 2,
    };
    let mut bytes: Vec<u8> = vec![];
    enc_name(&mut bytes, &p.z.apex);
    bytes.push(p.z.rrs.len() as u8);
    for (n, t) in &p.z.rrs {
        let mut t = t.clone();
        t.push(T_RRSIG);
        t.push(T_NSEC);
        t.sort();
        enc_name(&mut bytes, n);
        enc_types(&mut bytes, &t);
    }
    enc_name(&mut bytes, &p.q);
    bytes.push(p.qt as u8);
    match &p.soa {
        Some(s) => {
            bytes.push(1);
            enc_name(&mut bytes, s);
        }
        None => bytes.push(0),
    }
    bytes.push(rc_n);
    bytes.push(p.answers.len() as u8);
    for a in &p.answers {
        enc_name(&mut bytes, &a.name);
        bytes.push(a.secure as u8);
        bytes.push(a.rrsig.is_some() as u8);
        bytes.push(a.rrsig.unwrap_or(0));
    }
    bytes.push(p.nsecs.len() as u8);
    for r in &p.nsecs {
        enc_name(&mut bytes, &r.owner);
        enc_name(&mut bytes, &r.next);
        enc_types(&mut bytes, &r.types);
    }
    bytes.push(obs);
    bytes.push(claim as u8);
    bytes.push(applicable as u8);
    bytes.push(kn);
    let coq = format!("(Case {})", coq_pb(&bytes));
    let text = format!(
        "zone {} owners [{}] | query {} type {} rcode {:?} soa {} | answers [{}] | nsecs [{}] | case-bits {} => {} ; claim {}",
        show_name(&p.z.apex),
        p.z.rrs.iter().map(|(n, t)| format!("{} {:?}", show_name(n), t)).collect::<Vec<_>>().join(", "),
        show_name(&p.q),
        p.qt,
        p.rc,
        p.soa.as_ref().map(show_name).unwrap_or("none".into()),
        p.answers
            .iter()
            .map(|a| format!("{}{}{}", show_name(&a.name), if a.secure { "" } else { "(insecure)" }, a.rrsig.map(|l| format!(" RRSIG labels={l}")).unwrap_or_default()))
            .collect::<Vec<_>>()
            .join(", "),
        p.nsecs.iter().map(|r| format!("{} -> {} {:?}", show_name(&r.owner), show_name(&r.next), r.types)).collect::<Vec<_>>().join(", "),
        p.upper,
        ["Bogus", "Secure", "other", "panic"][obs as usize],
        if !applicable { "n/a" } else if claim { "true" } else { "false" },
    );
    let key = format!("{}|{}|{}|{:?}|{:?}|{:?}|{:?}", show_name(&p.q), p.qt, rc_n, p.soa, p.answers, p.nsecs, p.upper);
    let path = match (obs, p.rc, p.answers.is_empty()) {
        (1, Rc::NxDomain, _) => "secure-nxdomain",
        (1, _, true) => "secure-nodata",
        (1, _, false) => "secure-wildcard-answer",
        _ => "bogus",
    };
    CaseOut {
        index,
        coq,
        text,
        key,
        nontrivial: !p.nsecs.is_empty(),
        kind: format!("{}{}/{}{}", p.family, e2e_path, path, if claim { "" } else { "/claim-false" }),
        oracle_fail,
        known,
    }
}

fn main() {
    quiet_panics();
    let args = parse_args();
    let thorough = args.tier == "thorough";
    if let Some((seed, index)) = args.replay {
        let c = case(seed, index);
        println!("{}", c.text);
        println!("COQ {}", c.coq);
        if let Some(f) = c.oracle_fail {
            println!("ORACLE-FAIL {f}{}", c.known.map(|k| format!(" [known class {k}]")).unwrap_or_default());
        }
        return;
    }
    let mut cases = vec![];
    for k in 0..fixed_probes().len() as u64 {
        cases.push(case(args.seed, FIXED_BASE + k));
    }
    for index in 0..args.n {
        cases.push(case(args.seed, index));
    }
    // end to end: the real in-memory server (signed, NSEC) answers, verify_nsec judges its proof
    let e2e_n: u64 = args.extra.get("e2e").and_then(|s| s.parse().ok()).unwrap_or(args.n / 5);
    for k in 0..e2e_n {
        cases.push(case(args.seed, E2E_BASE + k));
    }
    // sweep: many more probes on the implementation + oracle only; what fails is shipped
    let sweep_n: u64 = args.extra.get("sweep").and_then(|s| s.parse().ok()).unwrap_or(if thorough { 4_000_000 } else { 400_000 });
    let mut per_class: BTreeMap<String, u64> = BTreeMap::new();
    let mut sweep_secure = 0u64;
    let mut sweep_fail = 0u64;
    for k in 0..sweep_n {
        let c = case(args.seed, SWEEP_BASE + k);
        if c.kind.contains("secure") {
            sweep_secure += 1;
        }
        if c.oracle_fail.is_some() {
            sweep_fail += 1;
            let cls = c.known.clone().unwrap_or_else(|| "NEW".into());
            let n = per_class.entry(cls).or_default();
            *n += 1;
            if *n <= 25 {
                cases.push(c);
            }
        }
    }
    emit(
        "C08",
        "C08",
        &args,
        &cases,
        "one case = one call of verify_nsec: zone over labels {a,b,*} (+ a few others), depth <= 3, owner sets systematic over the 12 names of depth <= 2 or random, types incl. delegations/DNAME/CNAME; query names in/around/outside the zone, 9 query types, rcode NOERROR/NXDOMAIN/(SERVFAIL), SOA name = apex/none/(other); NSEC lists = what a correct server attaches, +-1 record, random subsets, all, reordered; answers = wildcard-expanded RRset with RRSIG labels genuine or not. Non-trivial = at least one NSEC; distinct by the whole input. The sweep runs the same generator on the implementation + semantic oracle only and ships failing probes.",
        serde_json::json!({"sweep_probes": sweep_n, "sweep_secure": sweep_secure, "sweep_oracle_failures": sweep_fail, "sweep_failures_by_class": per_class}),
    );
}
