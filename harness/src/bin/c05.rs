//! C05 — RRset signed data = RFC 4034/4035 canonical form.
//!
//! Case = (owner, class, RRSIG parameters, records incl. noise). The implementation is run
//! through `TBS::from_input`, `Verifier::verify_rrsig` and `Ord for Record`.
//! Oracles (independent of the model):
//!  1. an RFC reference canonicaliser written here from RFC 4034 3.1.8.1 / 6.1-6.3, RFC 4035
//!     5.3.2 and RFC 6840 5.1 (no hickory encoder involved) must produce the same octets;
//!  2. a third-party signer (the reference octets signed with the raw key) must be accepted by
//!     `DNSKEY::verify_rrsig`, for every supported algorithm;
//!  3. what the built-in path signs must verify after the records are shuffled and the owner
//!     names re-cased.
//! RDATA is generated as a field list (octets / embedded name) from the wire layout of each
//! type; the hickory value is obtained by decoding the uncompressed wire form.

use std::collections::BTreeMap;

use hickory_proto::dnssec::crypto::{EcdsaSigningKey, Ed25519SigningKey, RsaSigningKey};
use hickory_proto::dnssec::rdata::{DNSKEY, RRSIG, SigInput};
use hickory_proto::dnssec::{Algorithm, SigningKey, Verifier, TBS};
use hickory_proto::rr::{DNSClass, Name, RData, Record, RecordType, SerialNumber};
use hickory_proto::serialize::binary::BinDecoder;
use vph::*;

// ---------------------------------------------------------------------------------- data

#[derive(Clone, Debug, PartialEq, Eq, PartialOrd, Ord)]
enum Fld {
    B(Vec<u8>),
    N(Vec<Vec<u8>>),
}

#[derive(Clone, Debug)]
struct Rr {
    fq: bool,
    owner: Vec<Vec<u8>>,
    cls: u16,
    ttl: u32,
    typ: u16,
    data: Vec<Fld>,
}

#[derive(Clone, Debug)]
struct Sig {
    typ: u16,
    alg: u8,
    labels: u8,
    ottl: u32,
    exp: u32,
    inc: u32,
    tag: u16,
    signer: Vec<Vec<u8>>,
}

#[derive(Clone, Debug)]
struct Input {
    fq: bool,
    owner: Vec<Vec<u8>>,
    cls: u16,
    sig: Sig,
    rrs: Vec<Rr>,
}

// ------------------------------------------------------------- RFC reference (oracle)

/// RFC 4034 6.2 item 3 list as amended by RFC 6840 5.1 (HINFO has no names; NSEC removed,
/// RRSIG kept): NS MD MF CNAME SOA MB MG MR PTR MINFO MX RP AFSDB RT SIG PX NXT SRV NAPTR KX A6
/// DNAME RRSIG
const RFC_DOWNCASE: &[u16] = &[2, 3, 4, 5, 6, 7, 8, 9, 12, 14, 15, 17, 18, 21, 24, 26, 30, 33, 35, 36, 38, 39, 46];
/// the subset hickory implements as typed RDATA
const IMPLEMENTED: &[u16] = &[2, 5, 6, 12, 15, 24, 33, 35, 46];

fn lc(b: u8) -> u8 {
    if (b'A'..=b'Z').contains(&b) {
        b + 32
    } else {
        b
    }
}

fn wire_name(ls: &[Vec<u8>], lower: bool) -> Vec<u8> {
    let mut v = vec![];
    for l in ls {
        v.push(l.len() as u8);
        v.extend(l.iter().map(|b| if lower { lc(*b) } else { *b }));
    }
    v.push(0);
    v
}

fn ref_rdata(typ: u16, data: &[Fld], downcase: bool) -> Vec<u8> {
    let lower = downcase && RFC_DOWNCASE.contains(&typ);
    let mut v = vec![];
    for f in data {
        match f {
            Fld::B(b) => v.extend_from_slice(b),
            Fld::N(n) => v.extend(wire_name(n, lower)),
        }
    }
    v
}

fn names_eq_ci(a: &[Vec<u8>], b: &[Vec<u8>]) -> bool {
    a.len() == b.len() && a.iter().zip(b).all(|(x, y)| x.len() == y.len() && x.iter().zip(y).all(|(p, q)| lc(*p) == lc(*q)))
}

fn member(i: &Input, r: &Rr) -> bool {
    r.cls == i.cls && r.typ == i.sig.typ && r.fq == i.fq && names_eq_ci(&r.owner, &i.owner)
}

/// RFC 4035 5.3.2 "to calculate the name"; label count per RFC 4034 3.1.3
fn ref_owner(owner: &[Vec<u8>], rrsig_labels: u8) -> Option<Vec<Vec<u8>>> {
    let lowered: Vec<Vec<u8>> = owner.iter().map(|l| l.iter().map(|b| lc(*b)).collect()).collect();
    let count = if lowered.first().map(|l| l.as_slice() == b"*").unwrap_or(false) { lowered.len() - 1 } else { lowered.len() };
    let k = rrsig_labels as usize;
    if k == count {
        Some(lowered)
    } else if k < count {
        let mut v = vec![b"*".to_vec()];
        v.extend_from_slice(&lowered[lowered.len() - k..]);
        Some(v)
    } else {
        None
    }
}

fn ref_sig_rdata(s: &Sig) -> Vec<u8> {
    let mut v = vec![];
    v.extend(s.typ.to_be_bytes());
    v.push(s.alg);
    v.push(s.labels);
    v.extend(s.ottl.to_be_bytes());
    v.extend(s.exp.to_be_bytes());
    v.extend(s.inc.to_be_bytes());
    v.extend(s.tag.to_be_bytes());
    v.extend(wire_name(&s.signer, true));
    v
}

fn ref_rr(owner_wire: &[u8], i: &Input, rd: &[u8]) -> Vec<u8> {
    let mut v = owner_wire.to_vec();
    v.extend(i.sig.typ.to_be_bytes());
    v.extend(i.cls.to_be_bytes());
    v.extend(i.sig.ottl.to_be_bytes());
    v.extend((rd.len() as u16).to_be_bytes());
    v.extend_from_slice(rd);
    v
}

/// the RFC signed data; None = "MUST NOT be used"
fn ref_tbs(i: &Input) -> Option<Vec<u8>> {
    let owner = ref_owner(&i.owner, i.sig.labels)?;
    let ow = wire_name(&owner, true);
    let mut rds: Vec<Vec<u8>> = i.rrs.iter().filter(|r| member(i, r)).map(|r| ref_rdata(r.typ, &r.data, true)).collect();
    rds.sort(); // unsigned octet order, shorter prefix first
    rds.dedup();
    let mut v = ref_sig_rdata(&i.sig);
    for rd in &rds {
        v.extend(ref_rr(&ow, i, rd));
    }
    Some(v)
}

/// RR(i) chunks of every member record, duplicates kept; `downcase` false = RDATA names left as is
fn ref_chunks(i: &Input, downcase: bool) -> Option<Vec<Vec<u8>>> {
    let owner = ref_owner(&i.owner, i.sig.labels)?;
    let ow = wire_name(&owner, true);
    Some(i.rrs.iter().filter(|r| member(i, r)).map(|r| ref_rr(&ow, i, &ref_rdata(r.typ, &r.data, downcase))).collect())
}

/// split the part of `b` after the RRSIG RDATA into RR chunks
fn split_chunks(i: &Input, b: &[u8]) -> Option<Vec<Vec<u8>>> {
    let owner = ref_owner(&i.owner, i.sig.labels)?;
    let ow = wire_name(&owner, true).len();
    let head = ref_sig_rdata(&i.sig);
    if !b.starts_with(&head) {
        return None;
    }
    let mut p = head.len();
    let mut out = vec![];
    while p < b.len() {
        if p + ow + 10 > b.len() {
            return None;
        }
        let rdlen = u16::from_be_bytes([b[p + ow + 8], b[p + ow + 9]]) as usize;
        let end = p + ow + 10 + rdlen;
        if end > b.len() {
            return None;
        }
        out.push(b[p..end].to_vec());
        p = end;
    }
    Some(out)
}

fn has_upper_name(data: &[Fld]) -> bool {
    data.iter().any(|f| matches!(f, Fld::N(n) if n.iter().any(|l| l.iter().any(|b| b.is_ascii_uppercase()))))
}

/// narrow classes of the known findings (see known_findings.json)
fn classify(i: &Input, got: &[u8]) -> Option<String> {
    let set: Vec<&Rr> = i.rrs.iter().filter(|r| member(i, r)).collect();
    let mut got_chunks = split_chunks(i, got)?;
    got_chunks.sort();
    let canon: Vec<Vec<u8>> = set.iter().map(|r| ref_rdata(r.typ, &r.data, true)).collect();
    let ttl_mixed = set.iter().any(|r| r.ttl != set[0].ttl);
    let dup = {
        let mut c = canon.clone();
        c.sort();
        c.windows(2).any(|w| w[0] == w[1])
    };
    let names = |r: &Rr| r.data.iter().filter(|f| matches!(f, Fld::N(_))).count();
    let order_key_differs = set.iter().any(|r| {
        (RFC_DOWNCASE.contains(&r.typ) && has_upper_name(&r.data)) || (r.typ == 6 && names(r) >= 2)
    });
    // F3: the octets are the RRSIG RDATA followed by the canonical RR of every member record
    // (duplicates kept) in some other order
    let mut all = ref_chunks(i, true)?;
    all.sort();
    if (ttl_mixed || dup || order_key_differs) && got_chunks == all {
        return Some("C05-F3-rrset-order-dedup".into());
    }
    // F12: as F3 but the names inside RDATA of an unimplemented RFC-4034-list type are not downcased
    let unimpl = RFC_DOWNCASE.contains(&i.sig.typ) && !IMPLEMENTED.contains(&i.sig.typ);
    if unimpl && set.iter().any(|r| has_upper_name(&r.data)) {
        let mut raw = ref_chunks(i, false)?;
        raw.sort();
        if got_chunks == raw {
            return Some("C05-F12-unknown-type-not-downcased".into());
        }
    }
    None
}

// ------------------------------------------------------------------ hickory values

fn mk_name(fq: bool, ls: &[Vec<u8>]) -> Option<Name> {
    let mut n = Name::from_labels(ls.iter().map(|l| l.as_slice()).collect::<Vec<&[u8]>>()).ok()?;
    n.set_fqdn(fq);
    Some(n)
}

fn raw_rdata(data: &[Fld]) -> Vec<u8> {
    let mut v = vec![];
    for f in data {
        match f {
            Fld::B(b) => v.extend_from_slice(b),
            Fld::N(n) => v.extend(wire_name(n, false)),
        }
    }
    v
}

fn mk_rdata(typ: u16, data: &[Fld]) -> Option<RData> {
    let w = raw_rdata(data);
    RData::read(BinDecoder::new(&w), RecordType::from(typ)).ok()
}

fn mk_record(r: &Rr) -> Option<Record> {
    let mut rec = Record::from_rdata(mk_name(r.fq, &r.owner)?, r.ttl, mk_rdata(r.typ, &r.data)?);
    rec.dns_class = DNSClass::from(r.cls);
    Some(rec)
}

fn mk_siginput(s: &Sig) -> Option<SigInput> {
    Some(SigInput {
        type_covered: RecordType::from(s.typ),
        algorithm: Algorithm::from_u8(s.alg),
        num_labels: s.labels,
        original_ttl: s.ottl,
        sig_expiration: SerialNumber::new(s.exp),
        sig_inception: SerialNumber::new(s.inc),
        key_tag: s.tag,
        signer_name: mk_name(true, &s.signer)?,
    })
}

struct Key {
    alg: u8,
    key: Box<dyn SigningKey>,
    dnskey: DNSKEY,
}

const RSA_PK8: &[u8] = include_bytes!("/repo/crates/proto/tests/test-data/rsa-2048-private-key-1.pk8");
const RSA_PK8_2: &[u8] = include_bytes!("/repo/tests/test-data/test_configs/dnssec/rsa_2048.pk8");

fn keys() -> Vec<Key> {
    let mut v: Vec<Box<dyn SigningKey>> = vec![];
    let d = EcdsaSigningKey::generate_pkcs8(Algorithm::ECDSAP256SHA256).unwrap();
    v.push(Box::new(EcdsaSigningKey::from_pkcs8(&d, Algorithm::ECDSAP256SHA256).unwrap()));
    let d = EcdsaSigningKey::generate_pkcs8(Algorithm::ECDSAP384SHA384).unwrap();
    v.push(Box::new(EcdsaSigningKey::from_pkcs8(&d, Algorithm::ECDSAP384SHA384).unwrap()));
    let d = Ed25519SigningKey::generate_pkcs8().unwrap();
    v.push(Box::new(Ed25519SigningKey::from_pkcs8(&d).unwrap()));
    v.push(Box::new(RsaSigningKey::from_pkcs8(&RSA_PK8.into(), Algorithm::RSASHA256).unwrap()));
    v.push(Box::new(RsaSigningKey::from_pkcs8(&RSA_PK8_2.into(), Algorithm::RSASHA512).unwrap()));
    v.into_iter()
        .map(|key| {
            let pk = key.to_public_key().unwrap();
            let alg: u8 = key.algorithm().into();
            let dnskey = DNSKEY::from_key(&pk);
            Key { alg, key, dnskey }
        })
        .collect()
}

// ---------------------------------------------------------------------- generators

const ALPHA: &[u8] = b"abcdefghijklmnopqrstuvwxyzABCDEFGHIJKLMNOPQRSTUVWXYZ0123456789-_";
const ODD: &[u8] = &[0, 1, b'.', b'*', b'@', b'[', b'`', b'{', 0x7f, 0x80, 0xc0, 0xff, b' ', b'\\'];

fn gen_label(r: &mut Rng) -> Vec<u8> {
    let n = match r.below(10) {
        0 => 63,
        1 => r.range(20, 62) as usize,
        _ => r.range(1, 6) as usize,
    };
    let style = r.below(8);
    (0..n)
        .map(|_| match style {
            0 => *r.pick(ODD),
            1 => r.next() as u8,
            2 => *r.pick(b"abAB"),
            _ => *r.pick(ALPHA),
        })
        .collect()
}

fn wire_len(ls: &[Vec<u8>]) -> usize {
    ls.iter().map(|l| l.len() + 1).sum::<usize>() + 1
}

fn gen_name(r: &mut Rng) -> Vec<Vec<u8>> {
    let k = match r.below(12) {
        0 => 0,
        1 => r.range(6, 20) as usize,
        _ => r.range(1, 4) as usize,
    };
    let mut v: Vec<Vec<u8>> = vec![];
    for _ in 0..k {
        let l = if r.chance(1, 3) { let c: [&[u8]; 7] = [b"example", b"com", b"a", b"B", b"ns", b"Example", b"z"]; c[r.below(7) as usize].to_vec() } else { gen_label(r) };
        if wire_len(&v) + l.len() + 1 > 255 {
            break;
        }
        v.push(l);
    }
    v
}

/// a name of exactly `total` wire octets (total >= 3)
fn gen_name_len(r: &mut Rng, total: usize) -> Vec<Vec<u8>> {
    let mut v = vec![];
    let mut left = total - 1;
    while left > 0 {
        // a label takes 1 + l octets (1 <= l <= 63); never leave exactly 1 octet
        let mut l = (left - 1).min(r.range(1, 63) as usize);
        if left - 1 - l == 1 {
            if l > 1 {
                l -= 1;
            } else {
                l += 1;
            }
        }
        v.push((0..l).map(|_| *r.pick(ALPHA)).collect());
        left -= l + 1;
    }
    v
}

fn recase(r: &mut Rng, ls: &[Vec<u8>]) -> Vec<Vec<u8>> {
    let mode = r.below(4);
    ls.iter()
        .map(|l| {
            l.iter()
                .map(|b| match mode {
                    0 => *b,
                    1 => b.to_ascii_uppercase(),
                    2 => b.to_ascii_lowercase(),
                    _ => {
                        if b.is_ascii_alphabetic() && r.chance(1, 2) {
                            b ^ 0x20
                        } else {
                            *b
                        }
                    }
                })
                .collect()
        })
        .collect()
}

fn charstr(r: &mut Rng) -> Vec<u8> {
    let n = *r.pick(&[0usize, 1, 3, 10, 255]);
    let n = if n == 255 && !r.chance(1, 8) { 5 } else { n };
    let mut v = vec![n as u8];
    v.extend((0..n).map(|_| *r.pick(ALPHA)));
    v
}

/// RFC 4034 4.1.2 type bit maps for a set of types
fn type_bitmap(types: &[u16]) -> Vec<u8> {
    let mut windows: BTreeMap<u8, [u8; 32]> = BTreeMap::new();
    for t in types {
        let w = windows.entry((t >> 8) as u8).or_insert([0; 32]);
        w[((t & 0xff) >> 3) as usize] |= 0x80 >> (t & 7);
    }
    let mut v = vec![];
    for (w, bits) in windows {
        let n = bits.iter().rposition(|b| *b != 0).unwrap() + 1;
        v.push(w);
        v.push(n as u8);
        v.extend_from_slice(&bits[..n]);
    }
    v
}

/// all the type codes the generator knows: (code, mnemonic)
const TYPES: &[(u16, &str)] = &[
    (1, "A"),
    (28, "AAAA"),
    (2, "NS"),
    (5, "CNAME"),
    (12, "PTR"),
    (65305, "ANAME"),
    (15, "MX"),
    (6, "SOA"),
    (33, "SRV"),
    (35, "NAPTR"),
    (16, "TXT"),
    (13, "HINFO"),
    (47, "NSEC"),
    (48, "DNSKEY"),
    (43, "DS"),
    (52, "TLSA"),
    (44, "SSHFP"),
    (64, "SVCB"),
    (65, "HTTPS"),
    (257, "CAA"),
    (61, "OPENPGPKEY"),
    (10, "NULL"),
    (51, "NSEC3PARAM"),
    (46, "RRSIG"),
    (24, "SIG"),
    (39, "DNAME"),
    (17, "RP"),
    (18, "AFSDB"),
    (36, "KX"),
    (14, "MINFO"),
    (26, "PX"),
    (65280, "PRIVATE"),
    (99, "SPF"),
];

fn type_name(t: u16) -> &'static str {
    TYPES.iter().find(|(c, _)| *c == t).map(|(_, n)| *n).unwrap_or("?")
}

/// names used inside one RRset come from a small pool so that case twins, duplicates and
/// shared suffixes (SOA compression) occur
struct Pool(Vec<Vec<Vec<u8>>>);

impl Pool {
    fn new(r: &mut Rng) -> Self {
        let k = r.range(1, 4) as usize;
        let mut v: Vec<Vec<Vec<u8>>> = (0..k).map(|_| gen_name(r)).collect();
        // a name sharing a suffix with the first
        if r.chance(1, 2) && !v[0].is_empty() {
            let cut = r.below(v[0].len() as u64) as usize;
            let mut n = vec![gen_label(r)];
            n.extend_from_slice(&v[0][cut..]);
            if wire_len(&n) <= 255 {
                v.push(n);
            }
        }
        Pool(v)
    }
    fn name(&self, r: &mut Rng, style: u64) -> Vec<Vec<u8>> {
        let n = r.pick(&self.0).clone();
        match style {
            0 => n.iter().map(|l| l.to_ascii_lowercase()).collect(), // all lower case
            1 => n,
            _ => recase(r, &n),
        }
    }
}

fn gen_rdata(r: &mut Rng, typ: u16, pool: &Pool, style: u64) -> Vec<Fld> {
    let nm = |r: &mut Rng| Fld::N(pool.name(r, style));
    let small = |r: &mut Rng, n: usize| -> Vec<u8> {
        // few distinct values so that equal prefixes and duplicates happen
        (0..n).map(|_| *r.pick(&[0u8, 1, 2, 0x41, 0x61, 0xff])).collect()
    };
    match typ {
        1 => vec![Fld::B(small(r, 4))],
        28 => vec![Fld::B(small(r, 16))],
        2 | 5 | 12 | 65305 | 39 => vec![nm(r)],
        15 | 18 | 36 => vec![Fld::B(small(r, 2)), nm(r)],
        6 => vec![nm(r), nm(r), Fld::B(small(r, 20))],
        17 | 14 => vec![nm(r), nm(r)],
        26 => vec![Fld::B(small(r, 2)), nm(r), nm(r)],
        33 => vec![Fld::B(small(r, 6)), nm(r)],
        35 => {
            let mut b = small(r, 4);
            // flags: alphanumeric only (NAPTR::read rejects anything else)
            let fl = r.range(0, 3) as usize;
            b.push(fl as u8);
            b.extend((0..fl).map(|_| *r.pick(b"SAUPsaup019")));
            b.extend(charstr(r));
            b.extend(charstr(r));
            vec![Fld::B(b), nm(r)]
        }
        16 | 99 => {
            let k = r.range(1, 3);
            let mut b = vec![];
            for _ in 0..k {
                b.extend(charstr(r));
            }
            vec![Fld::B(b)]
        }
        13 => {
            let mut b = charstr(r);
            b.extend(charstr(r));
            vec![Fld::B(b)]
        }
        47 => {
            let mut ts = vec![47u16, 46];
            for _ in 0..r.below(4) {
                ts.push(*r.pick(&[1u16, 2, 6, 15, 16, 28, 48, 257, 1234]));
            }
            ts.sort();
            ts.dedup();
            vec![nm(r), Fld::B(type_bitmap(&ts))]
        }
        48 => {
            let mut b = vec![*r.pick(&[0u8, 1]), *r.pick(&[0u8, 1, 0x80]), 3, *r.pick(&[8u8, 13, 15])];
            let extra = r.range(4, 40) as usize;
            b.extend(small(r, extra));
            vec![Fld::B(b)]
        }
        43 => {
            let mut b = small(r, 2);
            b.push(*r.pick(&[8u8, 13]));
            b.push(2);
            b.extend(small(r, 32));
            vec![Fld::B(b)]
        }
        52 => {
            let mut b = vec![*r.pick(&[0u8, 1, 2, 3]), *r.pick(&[0u8, 1]), *r.pick(&[0u8, 1, 2])];
            let extra = r.range(1, 32) as usize;
            b.extend(small(r, extra));
            vec![Fld::B(b)]
        }
        44 => {
            let mut b = vec![*r.pick(&[1u8, 2, 3, 4]), *r.pick(&[1u8, 2])];
            let extra = r.range(1, 32) as usize;
            b.extend(small(r, extra));
            vec![Fld::B(b)]
        }
        64 | 65 => {
            let prio = *r.pick(&[0u16, 1, 2]);
            let mut params = vec![];
            if prio != 0 {
                if r.chance(1, 2) {
                    // alpn = "h2"
                    params.extend([0, 1, 0, 3, 2, b'h', b'2']);
                }
                if r.chance(1, 2) {
                    params.extend([0, 3, 0, 2]);
                    params.extend(small(r, 2));
                }
            }
            vec![Fld::B(prio.to_be_bytes().to_vec()), nm(r), Fld::B(params)]
        }
        257 => {
            let tags: [&[u8]; 5] = [b"issue", b"issuewild", b"iodef", b"Issue", b"x1"];
            let tag: &[u8] = tags[r.below(5) as usize];
            let mut b = vec![*r.pick(&[0u8, 128]), tag.len() as u8];
            b.extend_from_slice(tag);
            let vals: [&[u8]; 5] = [b"ca.example.net", b"CA.Example.NET", b";", b"mailto:A@b.c", b"https://x.y/"];
            let val: &[u8] = vals[r.below(5) as usize];
            b.extend_from_slice(val);
            vec![Fld::B(b)]
        }
        51 => {
            let mut b = vec![1, *r.pick(&[0u8, 1])];
            b.extend(small(r, 2));
            let sl = r.range(0, 8) as usize;
            b.push(sl as u8);
            b.extend(small(r, sl));
            vec![Fld::B(b)]
        }
        46 | 24 => {
            let mut b = (*r.pick(&[1u16, 2, 48])).to_be_bytes().to_vec();
            b.push(*r.pick(&[8u8, 13, 15]));
            b.extend(small(r, 1 + 4 + 4 + 4 + 2));
            let sl = r.range(1, 40) as usize;
            vec![Fld::B(b), nm(r), Fld::B(small(r, sl))]
        }
        _ => {
            let n = r.range(1, 24) as usize;
            vec![Fld::B(small(r, n))]
        }
    }
}

fn shuffle<T>(r: &mut Rng, v: &mut [T]) {
    for i in (1..v.len()).rev() {
        let j = r.below(i as u64 + 1) as usize;
        v.swap(i, j);
    }
}

fn gen_input(r: &mut Rng) -> (Input, &'static str) {
    let typ = if r.chance(2, 3) {
        // types with embedded names are the interesting ones
        *r.pick(&[2u16, 5, 12, 15, 6, 33, 35, 47, 64, 65, 65305, 46, 24, 39, 17, 18, 36, 14, 26])
    } else {
        r.pick(TYPES).0
    };
    let fq = !r.chance(1, 25);
    let long_owner = r.chance(1, 30);
    let mut owner = if long_owner {
        let total = r.range(250, 255) as usize;
        gen_name_len(r, total)
    } else {
        gen_name(r)
    };
    if r.chance(1, 6) && wire_len(&owner) + 2 <= 255 {
        owner.insert(0, b"*".to_vec());
    }
    let cls = *r.pick(&[1u16, 1, 1, 3, 4, 254, 7]);
    let count = if owner.first().map(|l| l.as_slice() == b"*").unwrap_or(false) { owner.len() - 1 } else { owner.len() };
    let labels = match r.below(10) {
        0..=4 => count as u64,
        5..=7 => r.range(0, owner.len() as u64 + 1),
        8 => count as u64 + 1,
        _ => r.below(256),
    } as u8;
    let ottl = *r.pick(&[0u32, 1, 300, 3600, 86400, 0x7fff_ffff, 0x8000_0000, 0xffff_ffff]);
    let pool = Pool::new(r);
    let style = r.below(4); // 0: lower-case names, 1: as generated, 2,3: random case per use
    let ttl_mixed = r.chance(1, 8);
    let base_ttl = *r.pick(&[0u32, 60, 300, 3600, ottl]);
    let k = match r.below(10) {
        0 => 0,
        1 | 2 => 1,
        _ => r.range(2, 6),
    } as usize;
    let mut rrs: Vec<Rr> = vec![];
    for _ in 0..k {
        let data = if !rrs.is_empty() && r.chance(1, 7) {
            // duplicate (maybe differing in the case of a name only)
            let d = rrs[r.below(rrs.len() as u64) as usize].data.clone();
            if r.chance(1, 2) {
                d.into_iter().map(|f| match f { Fld::N(n) => Fld::N(recase(r, &n)), f => f }).collect()
            } else {
                d
            }
        } else {
            gen_rdata(r, typ, &pool, style)
        };
        let ttl = if ttl_mixed { *r.pick(&[0u32, 59, 60, 3600]) } else { base_ttl };
        rrs.push(Rr { fq, owner: recase(r, &owner), cls, ttl, typ, data });
    }
    // noise: other owner / class / type / fqdn-ness
    for _ in 0..r.below(3) {
        let mut n = Rr { fq, owner: recase(r, &owner), cls, ttl: base_ttl, typ, data: gen_rdata(r, typ, &pool, style) };
        match r.below(4) {
            0 => {
                n.owner = gen_name(r);
            }
            1 => n.cls = if cls == 1 { 3 } else { 1 },
            2 => {
                n.typ = if typ == 1 { 28 } else { 1 };
                n.data = gen_rdata(r, n.typ, &pool, style);
            }
            _ => n.fq = !fq,
        }
        rrs.push(n);
    }
    shuffle(r, &mut rrs);
    let sig = Sig {
        typ,
        alg: if r.chance(4, 5) { *r.pick(&[8u8, 10, 13, 14, 15]) } else { r.next() as u8 },
        labels,
        ottl,
        exp: r.next() as u32,
        inc: r.next() as u32,
        tag: r.next() as u16,
        signer: if r.chance(1, 2) { recase(r, &owner[owner.len().min(1)..]) } else { gen_name(r) },
    };
    let kind = if long_owner { "tbs-long-owner" } else { "tbs-random" };
    (Input { fq, owner, cls, sig, rrs }, kind)
}

/// hand-picked inputs (index < FIXED): witnesses of the known findings and boundaries
fn fixed_input(ix: u64) -> Option<(Input, &'static str)> {
    let l = |s: &str| -> Vec<Vec<u8>> { s.split('.').filter(|x| !x.is_empty()).map(|x| x.as_bytes().to_vec()).collect() };
    let owner = l("example.");
    let sig = |typ: u16, labels: u8| Sig { typ, alg: 13, labels, ottl: 3600, exp: 1_700_000_000, inc: 1_690_000_000, tag: 12345, signer: l("Example.") };
    let rr = |typ: u16, ttl: u32, data: Vec<Fld>| Rr { fq: true, owner: l("example."), cls: 1, ttl, typ, data };
    let mk = |s: Sig, rrs: Vec<Rr>, kind: &'static str| Some((Input { fq: true, owner: owner.clone(), cls: 1, sig: s, rrs }, kind));
    match ix {
        // F3 witness: NS {B.example., a.example.}
        0 => mk(sig(2, 1), vec![rr(2, 3600, vec![Fld::N(l("B.example."))]), rr(2, 3600, vec![Fld::N(l("a.example."))])], "fixed-f3-case-order"),
        // F3: order decided by TTL
        1 => mk(sig(1, 1), vec![rr(1, 60, vec![Fld::B(vec![192, 0, 2, 2])]), rr(1, 30, vec![Fld::B(vec![192, 0, 2, 9])])], "fixed-f3-ttl-order"),
        // F3: duplicate record kept
        2 => mk(sig(1, 1), vec![rr(1, 60, vec![Fld::B(vec![192, 0, 2, 2])]), rr(1, 60, vec![Fld::B(vec![192, 0, 2, 2])])], "fixed-f3-duplicate"),
        // F12: DNAME target with upper case
        3 => mk(sig(39, 1), vec![rr(39, 3600, vec![Fld::N(l("Example.NET."))])], "fixed-f12-dname-case"),
        // same inputs, all lower case / sorted: must agree
        4 => mk(sig(2, 1), vec![rr(2, 3600, vec![Fld::N(l("b.example."))]), rr(2, 3600, vec![Fld::N(l("a.example."))])], "fixed-ns-lower"),
        5 => mk(sig(39, 1), vec![rr(39, 3600, vec![Fld::N(l("example.net."))])], "fixed-dname-lower"),
        // SOA whose names share a suffix (to_bytes compresses the second)
        6 => mk(
            sig(6, 1),
            vec![
                rr(6, 3600, vec![Fld::N(l("ns.example.")), Fld::N(l("ns.example.")), Fld::B(vec![0; 20])]),
                rr(6, 3600, vec![Fld::N(l("ns.example.")), Fld::N(l("zz.")), Fld::B(vec![0; 20])]),
            ],
            "fixed-soa-compress",
        ),
        _ => None,
    }
}
const FIXED: u64 = 7;

/// signed data just around the 65535-octet buffer limit
fn big_input(r: &mut Rng) -> (Input, &'static str) {
    let owner = vec![b"big".to_vec(), b"example".to_vec()];
    let signer = vec![b"example".to_vec()];
    // fixed part: sig rdata 18 + 9 = 27; each RR: owner 13 + 10 + rdlen
    let k = r.range(2, 4) as usize;
    let target = 65535 + r.range(0, 6) as usize - 3; // 65532..=65538
    let overhead = 27 + k * 23;
    let total_rd = target - overhead;
    let mut rrs = vec![];
    let mut left = total_rd;
    for j in 0..k {
        let n = if j + 1 == k { left } else { left / (k - j) };
        left -= n;
        // TXT: strings of 255 + remainder
        let mut b = vec![];
        let mut m = n;
        let mut tagb = j as u8;
        while m > 0 {
            let s = (m - 1).min(255);
            b.push(s as u8);
            b.extend(std::iter::repeat(b'a' + tagb % 26).take(s));
            tagb = tagb.wrapping_add(1);
            m -= s + 1;
        }
        rrs.push(Rr { fq: true, owner: owner.clone(), cls: 1, ttl: 300, typ: 16, data: vec![Fld::B(b)] });
    }
    let sig = Sig { typ: 16, alg: 15, labels: 2, ottl: 300, exp: 2, inc: 1, tag: 7, signer };
    (Input { fq: true, owner, cls: 1, sig, rrs }, "tbs-64k-boundary")
}

// ------------------------------------------------------------------------ running

fn fld_text(f: &Fld) -> String {
    match f {
        Fld::B(b) => format!("b:{}", hex(b)),
        Fld::N(n) => format!("n:{}", hex(&wire_name(n, false))),
    }
}
fn fld_coq(f: &Fld) -> String {
    match f {
        Fld::B(b) => format!("HB {}", coq_pb(b)),
        Fld::N(n) => format!("HN {}", coq_pb(&wire_name(n, false))),
    }
}
fn input_text(i: &Input) -> String {
    let s = &i.sig;
    format!(
        "owner={}{} cls={} sig=(type={}({}) alg={} labels={} ottl={} exp={} inc={} tag={} signer={}) rrs=[{}]",
        hex(&wire_name(&i.owner, false)),
        if i.fq { "" } else { "(rel)" },
        i.cls,
        s.typ,
        type_name(s.typ),
        s.alg,
        s.labels,
        s.ottl,
        s.exp,
        s.inc,
        s.tag,
        hex(&wire_name(&s.signer, false)),
        i.rrs
            .iter()
            .map(|r| format!(
                "{}{}/c{}/ttl{}/t{}/{}",
                hex(&wire_name(&r.owner, false)),
                if r.fq { "" } else { "(rel)" },
                r.cls,
                r.ttl,
                r.typ,
                r.data.iter().map(fld_text).collect::<Vec<_>>().join(",")
            ))
            .collect::<Vec<_>>()
            .join(" ; ")
    )
}
fn b(x: bool) -> &'static str {
    if x {
        "true"
    } else {
        "false"
    }
}
fn input_coq(i: &Input) -> String {
    let s = &i.sig;
    format!(
        "{} {} {} (HS {} {} {} {} {} {} {} {}) {}",
        b(i.fq),
        coq_pb(&wire_name(&i.owner, false)),
        i.cls,
        s.typ,
        s.alg,
        s.labels,
        s.ottl,
        s.exp,
        s.inc,
        s.tag,
        coq_pb(&wire_name(&s.signer, false)),
        coq_list(i.rrs.iter().map(|r| format!(
            "HR {} {} {} {} {} {}",
            b(r.fq),
            coq_pb(&wire_name(&r.owner, false)),
            r.cls,
            r.ttl,
            r.typ,
            coq_list(r.data.iter().map(fld_coq))
        )))
    )
}

/// implementation outcome: Ok(bytes) / Err(1 = determine_name, 2 = other)
fn run_tbs(name: &Name, cls: DNSClass, si: &SigInput, recs: &[Record]) -> Result<Vec<u8>, u8> {
    match TBS::from_input(name, cls, si, recs.iter()) {
        Ok(t) => Ok(t.as_ref().to_vec()),
        Err(e) => {
            if e.to_string().contains("could not determine name") {
                Err(1)
            } else {
                Err(2)
            }
        }
    }
}

fn tbs_case(seed: u64, index: u64, r: &mut Rng, keys: &[Key]) -> CaseOut {
    // the input; regenerate when hickory's decoder rejects a generated RDATA (generator
    // artefact, counted in `kind`)
    let (mut input, mut kind) = if let Some(f) = fixed_input(index) {
        f
    } else if r.chance(1, 150) {
        big_input(r)
    } else {
        gen_input(r)
    };
    let mut recs: Option<Vec<Record>> = input.rrs.iter().map(mk_record).collect();
    let mut tries = 0;
    while recs.is_none() || mk_name(input.fq, &input.owner).is_none() || mk_siginput(&input.sig).is_none() {
        tries += 1;
        if tries > 20 {
            panic!("generator cannot build a decodable input: {}", input_text(&input));
        }
        if std::env::var("C05_DEBUG").is_ok() {
            eprintln!("undecodable: {}", input_text(&input));
        }
        let g = gen_input(r);
        input = g.0;
        kind = "tbs-regenerated";
        recs = input.rrs.iter().map(mk_record).collect();
    }
    let recs = recs.unwrap();
    let name = mk_name(input.fq, &input.owner).unwrap();
    let cls = DNSClass::from(input.cls);
    // the key whose algorithm the RRSIG names, if any
    let key = keys.iter().find(|k| k.alg == input.sig.alg);
    let si = mk_siginput(&input.sig).unwrap();

    let text_in = input_text(&input);
    let reference = ref_tbs(&input);
    let (si2, recs2, name2) = (si.clone(), recs.clone(), name.clone());
    let got = guard(move || run_tbs(&name2, cls, &si2, &recs2));

    let mut fails: Vec<String> = vec![];
    let mut known: Option<String> = None;
    let (tag, out): (u8, Vec<u8>) = match &got {
        Ok(Ok(bytes)) => (0, bytes.clone()),
        Ok(Err(c)) => (*c, vec![]),
        Err(p) => {
            fails.push(format!("TBS::from_input panicked: {p}"));
            (9, vec![])
        }
    };
    // oracle 1: equality with the RFC reference
    match (&reference, &got) {
        (Some(d), Ok(Ok(bytes))) => {
            if d != bytes {
                known = classify(&input, bytes);
                fails.push(format!("signed data differs from RFC 4034/4035 canonical form: expected {} got {}", hex(d), hex(bytes)));
            }
        }
        (Some(d), Ok(Err(c))) => {
            if d.len() > 65535 && *c == 2 {
                known = Some("C05-F13-signed-data-over-64k".into());
                fails.push(format!("RRset with {} octets of signed data cannot be signed or verified (error instead of octets)", d.len()));
            } else {
                fails.push(format!("error class {c} for an RRset whose RFC signed data is defined: {}", hex(d)));
            }
        }
        (None, Ok(Ok(bytes))) => fails.push(format!("octets produced although the Labels field exceeds the owner's label count: {}", hex(bytes))),
        (None, Ok(Err(c))) => {
            if *c != 1 {
                fails.push(format!("error class {c}, expected the determine-name error"));
            }
        }
        (_, Err(_)) => {}
    }
    // oracle 2: third-party signature over the reference octets must verify
    let mut verified = "";
    if let (Some(d), Some(k)) = (&reference, key) {
        if d.len() <= 65535 {
            let sigbytes = k.key.sign(&TBS::from(d.as_slice())).expect("reference signing");
            let rrsig = RRSIG::from_sig(si.clone(), sigbytes);
            let (dk, n2, r2) = (k.dnskey.clone(), name.clone(), recs.clone());
            match guard(move || dk.verify_rrsig(&n2, cls, &rrsig, r2.iter()).is_ok()) {
                Ok(true) => verified = " 3rd-party-sig=accepted",
                Ok(false) => {
                    verified = " 3rd-party-sig=REJECTED";
                    if let Ok(Ok(bytes)) = &got {
                        if known.is_none() {
                            known = classify(&input, bytes);
                        }
                    }
                    fails.push(format!("a conforming third-party signature (alg {}) over the RFC signed data is rejected by verify_rrsig", k.alg));
                }
                Err(p) => fails.push(format!("verify_rrsig panicked: {p}")),
            }
        }
    }
    // oracle 3: built-in sign, then verify after shuffling the records and re-casing owners
    if let (Ok(Ok(bytes)), Some(k)) = (&got, key) {
        let sigbytes = k.key.sign(&TBS::from(bytes.as_slice())).expect("signing");
        let rrsig = RRSIG::from_sig(si.clone(), sigbytes);
        let mut rrs2 = input.rrs.clone();
        shuffle(r, &mut rrs2);
        for x in rrs2.iter_mut() {
            x.owner = recase(r, &x.owner);
        }
        let recs2: Vec<Record> = rrs2.iter().map(|x| mk_record(x).unwrap()).collect();
        let name2 = mk_name(input.fq, &recase(r, &input.owner)).unwrap();
        let dk = k.dnskey.clone();
        match guard(move || dk.verify_rrsig(&name2, cls, &rrsig, recs2.iter()).is_ok()) {
            Ok(true) => {}
            Ok(false) => {
                known = None;
                fails.push(format!(
                    "built-in round trip: signature over the octets of one record order is rejected after shuffling to [{}]",
                    rrs2.iter().map(|x| format!("{}/ttl{}/{}", hex(&wire_name(&x.owner, false)), x.ttl, x.data.iter().map(fld_text).collect::<Vec<_>>().join(","))).collect::<Vec<_>>().join(" ; ")
                ));
            }
            Err(p) => fails.push(format!("verify_rrsig panicked: {p}")),
        }
    }

    let (rtag, refb): (u8, Vec<u8>) = match &reference {
        None => (1, vec![]),
        Some(d) if tag == 0 && *d == out => (0, vec![]),
        Some(d) => (2, d.clone()),
    };
    let coq = format!("CTbs {} {} {} {} {}", input_coq(&input), tag, coq_pb(&out), rtag, coq_pb(&refb));
    let obs = match tag {
        0 => format!("Ok {}", hex(&out)),
        1 => "ErrName".to_string(),
        2 => "ErrEncode".to_string(),
        _ => "PANIC".to_string(),
    };
    let members = input.rrs.iter().filter(|x| member(&input, x)).count();
    let oracle_fail = if fails.is_empty() { None } else { Some(fails.join(" | ")) };
    if oracle_fail.is_none() {
        known = None;
    }
    CaseOut {
        index,
        coq,
        text: format!("seed={seed} index={index} {kind} {} {text_in} => {obs}{verified}", type_name(input.sig.typ)),
        key: text_in,
        nontrivial: members >= 1 && reference.is_some(),
        kind: format!("{kind}/{}", type_name(input.sig.typ)),
        oracle_fail,
        known,
    }
}

/// Ord for Record on two records of one RRset
fn cmp_case(seed: u64, index: u64, r: &mut Rng) -> CaseOut {
    let typ = *r.pick(&[2u16, 5, 12, 15, 6, 6, 6, 33, 35, 47, 64, 65305, 46, 39, 17, 14, 1, 16]);
    let mut tries = 0;
    loop {
        tries += 1;
        if tries > 50 {
            panic!("cmp generator stuck");
        }
        let pool = Pool::new(r);
        let style = r.below(4);
        let d1 = gen_rdata(r, typ, &pool, style);
        let d2 = match r.below(4) {
            0 => d1.clone(),
            1 => d1.iter().cloned().map(|f| match f { Fld::N(n) => Fld::N(recase(r, &n)), f => f }).collect(),
            _ => gen_rdata(r, typ, &pool, style),
        };
        let ttl1 = *r.pick(&[0u32, 60, 61]);
        let ttl2 = if r.chance(3, 4) { ttl1 } else { *r.pick(&[0u32, 60, 61]) };
        let owner = vec![b"x".to_vec()];
        let a = mk_record(&Rr { fq: true, owner: owner.clone(), cls: 1, ttl: ttl1, typ, data: d1.clone() });
        let bb = mk_record(&Rr { fq: true, owner: owner.clone(), cls: 1, ttl: ttl2, typ, data: d2.clone() });
        let (Some(a), Some(bb)) = (a, bb) else { continue };
        let ord = guard(move || a.cmp(&bb));
        let (tag, fail) = match ord {
            Ok(std::cmp::Ordering::Less) => (0, None),
            Ok(std::cmp::Ordering::Equal) => (1, None),
            Ok(std::cmp::Ordering::Greater) => (2, None),
            Err(p) => (9, Some(format!("Record::cmp panicked: {p}"))),
        };
        let text_in = format!(
            "cmp type={}({}) ttl{} [{}] vs ttl{} [{}]",
            typ,
            type_name(typ),
            ttl1,
            d1.iter().map(fld_text).collect::<Vec<_>>().join(","),
            ttl2,
            d2.iter().map(fld_text).collect::<Vec<_>>().join(",")
        );
        return CaseOut {
            index,
            coq: format!("CCmp {} {} {} {} {} {}", typ, ttl1, coq_list(d1.iter().map(fld_coq)), ttl2, coq_list(d2.iter().map(fld_coq)), tag),
            text: format!("seed={seed} index={index} {text_in} => {}", ["Less", "Equal", "Greater"].get(tag as usize).unwrap_or(&"PANIC")),
            key: text_in,
            nontrivial: d1 != d2,
            kind: format!("cmp/{}", type_name(typ)),
            oracle_fail: fail,
            known: None,
        };
    }
}

fn case(seed: u64, index: u64, keys: &[Key]) -> CaseOut {
    let mut r = Rng::for_case(seed, index);
    if index >= FIXED && index % 6 == 5 {
        cmp_case(seed, index, &mut r)
    } else {
        tbs_case(seed, index, &mut r, keys)
    }
}

fn main() {
    quiet_panics();
    let args = parse_args();
    let keys = keys();
    if let Some((seed, index)) = args.replay {
        let c = case(seed, index, &keys);
        println!("{}", c.text);
        println!("COQ {}", c.coq);
        if let Some(k) = &c.known {
            println!("KNOWN-CLASS {k}");
        }
        if let Some(f) = c.oracle_fail {
            println!("ORACLE-FAIL {f}");
        }
        return;
    }
    let cases: Vec<CaseOut> = (0..args.n).map(|index| case(args.seed, index, &keys)).collect();
    emit(
        "C05",
        "C05",
        &args,
        &cases,
        "tbs cases: RRsets of 33 type codes (typed, name-bearing, opaque and unimplemented RFC-4034-list types), 0..6 member records plus noise records (other owner / class / type / fqdn-ness), shuffled, owners re-cased per record, RDATA names drawn from a small pool in four case styles, duplicates and case-twin duplicates, equal or mixed TTLs, Labels field = count / anything 0..n+1 / count+1 / random, wildcard owners, owners of 250..255 octets, signed data around the 65535-octet limit, 7 fixed witnesses; cmp cases: Ord for Record on two records of one RRset. Non-trivial = at least one member record and defined RFC signed data (tbs), different RDATA (cmp); distinct by full input.",
        serde_json::json!({"fixed": FIXED, "algorithms": keys.iter().map(|k| k.alg).collect::<Vec<_>>() }),
    );
}
