//! C18 — drives the real `NameServerPool` (try_send scheduler, `NameServer::send_inner`,
//! in-flight de-duplication) over a scripted `ConnectionProvider`.
//!
//! The pool reads `std::time::Instant`, so time is real: every exchange of the mock
//! connection sleeps for its scripted latency (multiples of 100 ms, distinct per server),
//! the timeout is = 99 (mod 100) ms, so that no decision of the pool falls within ~40 ms of
//! a scripted instant; runs whose measured timer overshoot is too large are repeated.
//! Cases run in parallel threads, each with its own current-thread tokio runtime and a
//! thread-local script/log (the mock and the logging `Time` find their case there).
//!
//! Case = (servers, options, oracle scripts, lookups | caller schedule).  Observation =
//! per lookup: result class, answering server, completion time, exchanges started in start
//! order, backoff sleeps requested; de-duplication: number of runs and which run's answer
//! every caller received.

use std::cell::RefCell;
use std::collections::BTreeMap;
use std::future::Future;
use std::io;
use std::net::{IpAddr, Ipv4Addr, SocketAddr};
use std::pin::Pin;
use std::sync::atomic::{AtomicU64, Ordering};
use std::sync::{Arc, Mutex};
use std::time::{Duration, Instant};

use futures_util::stream::{once, Stream};
use hickory_resolver::config::{ConnectionConfig, NameServerConfig, ProtocolConfig, ResolverOpts, ServerOrderingStrategy};
use hickory_resolver::net::runtime::{RuntimeProvider, Time, TokioHandle, TokioRuntimeProvider};
use hickory_resolver::net::xfer::{DnsHandle, FirstAnswer};
use hickory_resolver::net::{DnsError, NetError};
use hickory_resolver::proto::op::{DnsRequest, DnsRequestOptions, DnsResponse, Message, Query, ResponseCode};
use hickory_resolver::proto::rr::rdata::A;
use hickory_resolver::proto::rr::{Name, RData, Record, RecordType};
use hickory_resolver::{ConnectionProvider, NameServer, NameServerPool, PoolContext, TlsConfig};
use vph::*;

// ---------------------------------------------------------------------------------------
// outcome vocabulary (codes shared with coq/C18/Check.v)
// ---------------------------------------------------------------------------------------

const O_ANS: u8 = 0;
const O_TRUNC: u8 = 1;
const O_NX: u8 = 2;
const O_NODATA: u8 = 3;
const O_RCODE: u8 = 4;
const O_CASE: u8 = 5;
const O_BUSY: u8 = 6;
const O_IO: u8 = 7;
const O_CLOSED: u8 = 8;
const O_TIMEOUT: u8 = 9;
const O_NOCONN: u8 = 10;

const ONAMES: [&str; 11] = ["ans", "trunc", "nx", "nodata", "rcode", "case", "busy", "io", "closed", "timeout", "noconn"];

// result codes: 0 answer, 1 NoConnections, 2 Io, 3 Timeout, 4 Busy, 5 QueryCaseMismatch, 6 NXDOMAIN,
// 7 no records (other), 8 response code, 9 "received truncated response", 50 other
const RNAMES: [&str; 10] = ["answer", "noconn", "io", "timeout", "busy", "case", "nxdomain", "nodata", "rcode", "truncmsg"];

#[derive(Clone, Debug)]
struct Srv {
    udp: bool,
    tcp: bool,
    trust: bool,
    /// (outcome, latency ms) of successive exchanges; the last entry repeats
    su: Vec<(u8, u64)>,
    st: Vec<(u8, u64)>,
}

#[derive(Clone, Debug)]
struct PoolCase {
    srvs: Vec<Srv>,
    nconc: usize,
    timeout: u64,
    strat: u8, // 0 user order, 1 round robin, 2 query statistics
    lookups: usize,
}

// ---------------------------------------------------------------------------------------
// thread-local case state: script + log
// ---------------------------------------------------------------------------------------

#[derive(Clone, Debug)]
struct Xch {
    start_ms: f64,
    srv: usize,
    proto: u8,
    outcome: u8,
    lat: u64,
    /// Some(overshoot ms) once the exchange completed; None = dropped in flight
    over: Option<f64>,
    /// Some(end offset ms)
    end_ms: Option<f64>,
    key: usize,
    serial: usize,
}

#[derive(Default)]
struct Log {
    srvs: Vec<Srv>,
    /// exchanges started per (key, server, proto)
    att: BTreeMap<(usize, usize, u8), usize>,
    t0: Option<Instant>,
    xch: Vec<Xch>,
    /// (requested ms, overshoot ms, start offset ms)
    sleeps: Vec<(u64, f64, f64)>,
    serial: usize,
    /// de-duplication schedule as it happened: (kind, a, b), kinds as in Check.v dev_of
    evs: Vec<(u8, usize, usize)>,
}

thread_local! {
    static LOG: RefCell<Log> = RefCell::new(Log::default());
}

fn ms_since(t0: Instant) -> f64 {
    t0.elapsed().as_secs_f64() * 1000.0
}

// ---------------------------------------------------------------------------------------
// scripted provider: logging timer, connection provider, connection
// ---------------------------------------------------------------------------------------

#[derive(Clone, Copy)]
struct LogTime;

#[async_trait::async_trait]
impl Time for LogTime {
    async fn delay_for(duration: Duration) {
        let st = Instant::now();
        let start = LOG.with(|l| l.borrow().t0.map(ms_since).unwrap_or(0.0));
        tokio::time::sleep(duration).await;
        let over = (st.elapsed().as_secs_f64() - duration.as_secs_f64()) * 1000.0;
        LOG.with(|l| l.borrow_mut().sleeps.push((duration.as_millis() as u64, over, start)));
    }
    async fn timeout<F: 'static + Future + Send>(duration: Duration, future: F) -> Result<F::Output, io::Error> {
        tokio::time::timeout(duration, future).await.map_err(|_| io::Error::new(io::ErrorKind::TimedOut, "future timed out"))
    }
}

#[derive(Clone, Default)]
struct VRt(TokioRuntimeProvider);

impl RuntimeProvider for VRt {
    type Handle = TokioHandle;
    type Timer = LogTime;
    type Udp = <TokioRuntimeProvider as RuntimeProvider>::Udp;
    type Tcp = <TokioRuntimeProvider as RuntimeProvider>::Tcp;

    fn create_handle(&self) -> Self::Handle {
        self.0.create_handle()
    }
    fn connect_tcp(
        &self,
        _server_addr: SocketAddr,
        _bind_addr: Option<SocketAddr>,
        _timeout: Option<Duration>,
    ) -> Pin<Box<dyn Send + Future<Output = Result<Self::Tcp, io::Error>>>> {
        Box::pin(std::future::ready(Err(io::Error::other("no real network in the harness"))))
    }
    fn bind_udp(
        &self,
        _local_addr: SocketAddr,
        _server_addr: SocketAddr,
    ) -> Pin<Box<dyn Send + Future<Output = Result<Self::Udp, io::Error>>>> {
        Box::pin(std::future::ready(Err(io::Error::other("no real network in the harness"))))
    }
}

#[derive(Clone, Default)]
struct Prov(VRt);

#[derive(Clone)]
struct Conn {
    srv: usize,
    proto: u8,
}

fn srv_ip(i: usize) -> IpAddr {
    IpAddr::V4(Ipv4Addr::new(10, 0, 0, i as u8 + 1))
}

impl ConnectionProvider for Prov {
    type Conn = Conn;
    type FutureConn = Pin<Box<dyn Future<Output = Result<Conn, NetError>> + Send>>;
    type RuntimeProvider = VRt;

    fn new_connection(&self, ip: IpAddr, config: &ConnectionConfig, _cx: &PoolContext) -> Result<Self::FutureConn, NetError> {
        let srv = match ip {
            IpAddr::V4(v4) => v4.octets()[3] as usize - 1,
            _ => 0,
        };
        let proto = match config.protocol {
            ProtocolConfig::Udp => 0u8,
            _ => 1u8,
        };
        Ok(Box::pin(std::future::ready(Ok(Conn { srv, proto }))))
    }
    fn runtime_provider(&self) -> &Self::RuntimeProvider {
        &self.0
    }
}

/// key of a request = number in the first label of the query name ("k3.test.")
fn key_of(req: &DnsRequest) -> usize {
    req.queries
        .first()
        .map(|q| q.name.to_ascii())
        .and_then(|s| s.trim_start_matches(|c| c == 'k' || c == 'K').split('.').next().and_then(|d| d.parse().ok()))
        .unwrap_or(0)
}

fn reply(req: &DnsRequest, rc: ResponseCode, tc: bool, answer: Option<(usize, usize)>) -> Result<DnsResponse, NetError> {
    let mut m = Message::response(req.id, req.op_code);
    if let Some(q) = req.queries.first() {
        m.add_query(q.clone());
        if let Some((srv, serial)) = answer {
            let ip = Ipv4Addr::new(10, (serial >> 8) as u8, serial as u8, srv as u8 + 1);
            m.add_answer(Record::from_rdata(q.name.clone(), 60, RData::A(A(ip))));
        }
    }
    m.metadata.response_code = rc;
    m.metadata.truncation = tc;
    DnsResponse::from_message(m).map_err(NetError::from)
}

impl DnsHandle for Conn {
    type Response = Pin<Box<dyn Stream<Item = Result<DnsResponse, NetError>> + Send>>;
    type Runtime = VRt;

    fn send(&self, request: DnsRequest) -> Self::Response {
        let (srv, proto) = (self.srv, self.proto);
        Box::pin(once(async move {
            let key = key_of(&request);
            // exchange starts at first poll
            let (oc, lat, idx, serial) = LOG.with(|l| {
                let mut l = l.borrow_mut();
                let k = {
                    let e = l.att.entry((key, srv, proto)).or_insert(0);
                    *e += 1;
                    *e - 1
                };
                let script = if proto == 0 { &l.srvs[srv].su } else { &l.srvs[srv].st };
                let (oc, lat) = if script.is_empty() { (O_IO, 1) } else { script[k.min(script.len() - 1)] };
                let start_ms = ms_since(l.t0.unwrap());
                let serial = l.serial;
                l.serial += 1;
                l.xch.push(Xch { start_ms, srv, proto, outcome: oc, lat, over: None, end_ms: None, key, serial });
                l.evs.push((9, serial, 0)); // harness-internal marker: exchange `serial` started here
                (oc, lat, l.xch.len() - 1, serial)
            });
            let st = Instant::now();
            tokio::time::sleep(Duration::from_millis(lat)).await;
            let over = st.elapsed().as_secs_f64() * 1000.0 - lat as f64;
            LOG.with(|l| {
                let mut l = l.borrow_mut();
                let end = ms_since(l.t0.unwrap());
                l.xch[idx].over = Some(over);
                l.xch[idx].end_ms = Some(end);
                l.evs.push((1, serial, 0));
            });
            match oc {
                O_ANS => reply(&request, ResponseCode::NoError, false, Some((srv, serial))),
                O_TRUNC => reply(&request, ResponseCode::NoError, true, None),
                O_NX => reply(&request, ResponseCode::NXDomain, false, None),
                O_NODATA => reply(&request, ResponseCode::NoError, false, None),
                O_RCODE => reply(&request, ResponseCode::ServFail, false, None),
                O_CASE => Err(NetError::QueryCaseMismatch),
                O_BUSY => Err(NetError::Busy),
                O_IO => Err(NetError::from(io::Error::new(io::ErrorKind::PermissionDenied, "scripted io error"))),
                O_CLOSED => Err(NetError::from(io::Error::new(io::ErrorKind::ConnectionReset, "scripted reset"))),
                O_TIMEOUT => Err(NetError::Timeout),
                _ => Err(NetError::NoConnections),
            }
        }))
    }
}

fn classify(r: &Result<DnsResponse, NetError>) -> (u64, u64, usize) {
    // (result code, answering server, serial of the answering exchange)
    match r {
        Ok(resp) => {
            for rec in &resp.answers {
                if let RData::A(A(ip)) = &rec.data {
                    let o = ip.octets();
                    return (0, o[3] as u64 - 1, ((o[1] as usize) << 8) | o[2] as usize);
                }
            }
            (51, 0, 0)
        }
        Err(NetError::NoConnections) => (1, 0, 0),
        Err(NetError::Io(_)) => (2, 0, 0),
        Err(NetError::Timeout) => (3, 0, 0),
        Err(NetError::Busy) => (4, 0, 0),
        Err(NetError::QueryCaseMismatch) => (5, 0, 0),
        Err(NetError::Dns(DnsError::NoRecordsFound(nr))) => {
            if nr.response_code == ResponseCode::NXDomain {
                (6, 0, 0)
            } else {
                (7, 0, 0)
            }
        }
        Err(NetError::Dns(DnsError::ResponseCode(_))) => (8, 0, 0),
        Err(NetError::Msg(s)) if s.contains("truncated") => (9, 0, 0),
        Err(NetError::Message(s)) if s.contains("truncated") => (9, 0, 0),
        Err(_) => (50, 0, 0),
    }
}

fn build_pool(c: &PoolCase) -> NameServerPool<Prov> {
    let mut opts = ResolverOpts::default();
    opts.timeout = Duration::from_millis(c.timeout);
    opts.num_concurrent_reqs = c.nconc;
    opts.server_ordering_strategy = match c.strat {
        0 => ServerOrderingStrategy::UserProvidedOrder,
        1 => ServerOrderingStrategy::RoundRobin,
        _ => ServerOrderingStrategy::QueryStatistics,
    };
    let prov = Prov::default();
    let servers = c
        .srvs
        .iter()
        .enumerate()
        .map(|(i, s)| {
            let mut cfg = NameServerConfig::udp_and_tcp(srv_ip(i));
            cfg.trust_negative_responses = s.trust;
            let mut conns = vec![];
            if s.udp {
                conns.push(ConnectionConfig::udp());
            }
            if s.tcp {
                conns.push(ConnectionConfig::tcp());
            }
            cfg.connections = conns;
            Arc::new(NameServer::new([], cfg, &opts, prov.clone()))
        })
        .collect::<Vec<_>>();
    let cx = Arc::new(PoolContext::new(opts, TlsConfig::new().expect("tls config")));
    NameServerPool::from_nameservers(servers, cx)
}

fn request(key: usize) -> DnsRequest {
    let name = Name::from_ascii(format!("k{key}.test.")).unwrap();
    DnsRequest::from_query(Query::new(name, RecordType::A), DnsRequestOptions::default())
}

#[derive(Clone, Debug)]
struct LkObs {
    res: u64,
    who: u64,
    fin_ms: f64,
    xch: Vec<Xch>,
    sleeps: Vec<(u64, f64, f64)>,
    drift: f64,
}

/// time not accounted for by a scripted exchange or a requested sleep being in progress:
/// scheduling delays, timer overshoot, start-up cost (the pool is otherwise always waiting
/// for one of the two)
fn unexplained(fin: f64, xch: &[Xch], sleeps: &[(u64, f64, f64)]) -> f64 {
    // only exchanges that completed: a dropped one was cut short by the member that ended the round
    let mut iv: Vec<(f64, f64)> = xch.iter().filter(|x| x.over.is_some()).map(|x| (x.start_ms, (x.start_ms + x.lat as f64).min(fin))).collect();
    iv.extend(sleeps.iter().map(|s| (s.2, (s.2 + s.0 as f64).min(fin))));
    iv.sort_by(|a, b| a.partial_cmp(b).unwrap());
    let mut covered = 0.0;
    let mut end = 0.0f64;
    for (a, b) in iv {
        let a = a.max(end);
        if b > a {
            covered += b - a;
            end = b;
        }
    }
    fin - covered
}

fn run_pool(c: &PoolCase) -> Vec<LkObs> {
    LOG.with(|l| {
        *l.borrow_mut() = Log { srvs: c.srvs.clone(), ..Default::default() };
    });
    let rt = tokio::runtime::Builder::new_current_thread().enable_time().build().unwrap();
    let pool = build_pool(c);
    rt.block_on(async { tokio::time::sleep(Duration::from_millis(2)).await });
    let mut out = vec![];
    rt.block_on(async {
        for _ in 0..c.lookups {
            let t0 = Instant::now();
            LOG.with(|l| {
                let mut l = l.borrow_mut();
                l.t0 = Some(t0);
                l.xch.clear();
                l.sleeps.clear();
            });
            // watchdog: the proven bound is timeout + 2 x slowest exchange; a lookup still running
            // long after that is reported (result 98), not waited for
            let cap = Duration::from_millis(3 * c.timeout + 1500);
            let r = tokio::time::timeout(cap, pool.send(request(0)).first_answer()).await;
            let fin_ms = ms_since(t0);
            let (res, who, _) = match &r {
                Ok(r) => classify(r),
                Err(_) => (98, 0, 0),
            };
            let (xch, sleeps) = LOG.with(|l| {
                let l = l.borrow();
                (l.xch.clone(), l.sleeps.clone())
            });
            let drift = unexplained(fin_ms, &xch, &sleeps);
            let hung = res == 98;
            out.push(LkObs { res, who, fin_ms, xch, sleeps, drift: if hung { 0.0 } else { drift } });
            if hung {
                break;
            }
        }
    });
    out
}

// ---------------------------------------------------------------------------------------
// generator
// ---------------------------------------------------------------------------------------

fn gen_pool(r: &mut Rng) -> (PoolCase, &'static str) {
    let ns = *r.pick(&[1usize, 2, 2, 2, 3, 3, 3, 4, 4]);
    let timeout = *r.pick(&[499u64, 699, 699, 899, 1199]);
    let nconc = *r.pick(&[0usize, 1, 1, 1, 2, 2, 2, 3, 4]);
    let strat = *r.pick(&[0u8, 0, 0, 1, 1, 2]);
    // a case exercises either Busy/backoff or connection-closed/reconnect (timing residues, see header)
    let family = match r.below(10) {
        0..=3 => "busy",
        4..=5 => "closed",
        _ => "plain",
    };
    // distinct latency per server; resets take 50 ms, so with resets the grid starts at 200
    // (two resets in a row = 100 ms never tie with an exchange of another server)
    let mut lats = if family == "closed" { vec![200u64, 300, 400, 500] } else { vec![100u64, 200, 300, 400] };
    for i in (1..lats.len()).rev() {
        let j = r.below(i as u64 + 1) as usize;
        lats.swap(i, j);
    }
    let mut srvs = vec![];
    for i in 0..ns {
        let lat = lats[i];
        let (udp, tcp) = match r.below(20) {
            0..=11 => (true, true),
            12..=16 => (true, false),
            _ => (false, true),
        };
        let trust = r.chance(7, 10);
        let tlat = |r: &mut Rng| if r.chance(1, 2) { timeout } else { lat };
        let fault = |r: &mut Rng| -> (u8, u64) {
            match r.below(4) {
                0 => (O_IO, lat),
                1 => (O_TIMEOUT, tlat(r)),
                2 => (O_NOCONN, lat),
                _ => (O_IO, lat),
            }
        };
        let script = |r: &mut Rng, is_udp: bool| -> Vec<(u8, u64)> {
            let roll = r.below(100);
            let mut v = match roll {
                0..=27 => vec![(O_ANS, lat)],
                28..=37 => vec![(O_NX, lat)],
                38..=52 => vec![fault(r)],
                53..=58 => vec![fault(r), (O_ANS, lat)],
                59..=70 if is_udp => vec![(O_TRUNC, lat)],
                59..=62 => vec![(O_TRUNC, lat), (O_ANS, lat)],
                63..=70 => vec![(O_ANS, lat)],
                71..=74 if is_udp => vec![(O_CASE, lat)],
                71..=72 => vec![(O_CASE, lat), (O_ANS, lat)],
                73..=74 => vec![(O_NX, lat)],
                75..=78 => vec![(O_NODATA, lat)],
                79..=82 => vec![(O_RCODE, lat)],
                _ => match family {
                    "busy" => {
                        let k = r.range(1, 6) as usize;
                        let mut v = vec![(O_BUSY, lat); k];
                        if k < 6 {
                            v.push(*r.pick(&[(O_ANS, lat), (O_ANS, lat), (O_NX, lat), (O_IO, lat)]));
                        }
                        v
                    }
                    "closed" => vec![(O_ANS, lat), (O_CLOSED, 50), *r.pick(&[(O_ANS, lat), (O_IO, lat), (O_CLOSED, 50)]), (O_ANS, lat)],
                    _ => vec![(O_ANS, lat)],
                },
            };
            if family == "closed" && r.chance(1, 3) {
                v.insert(r.below(v.len() as u64 + 1) as usize, (O_CLOSED, 50));
            }
            // the entry that repeats is not a reset
            if v.last().map(|x| x.0) == Some(O_CLOSED) {
                v.push(*r.pick(&[(O_ANS, lat), (O_IO, lat)]));
            }
            v
        };
        let su = if udp { script(r, true) } else { vec![] };
        let st = if tcp { script(r, false) } else { vec![] };
        srvs.push(Srv { udp, tcp, trust, su, st });
    }
    let lookups = match family {
        "closed" => r.range(2, 3) as usize,
        _ => *r.pick(&[1usize, 1, 1, 2, 3]),
    };
    (PoolCase { srvs, nconc, timeout, strat, lookups }, family)
}

fn script_text(s: &[(u8, u64)]) -> String {
    s.iter().map(|(o, l)| format!("{}@{}", ONAMES[*o as usize], l)).collect::<Vec<_>>().join(",")
}

fn case_text(c: &PoolCase) -> String {
    let srvs = c
        .srvs
        .iter()
        .enumerate()
        .map(|(i, s)| {
            format!(
                "s{}[{}{}{} udp:{} tcp:{}]",
                i,
                if s.udp { "U" } else { "" },
                if s.tcp { "T" } else { "" },
                if s.trust { "" } else { " untrusted" },
                script_text(&s.su),
                script_text(&s.st)
            )
        })
        .collect::<Vec<_>>()
        .join(" ");
    format!(
        "pool nconc={} timeout={} strat={} lookups={} {}",
        c.nconc,
        c.timeout,
        ["user", "rr", "qs"][c.strat as usize],
        c.lookups,
        srvs
    )
}

/// exchanges in start order, starts within 40 ms of each other ordered by server number
fn canon_xch(x: &[Xch]) -> Vec<(usize, u8)> {
    let mut v: Vec<&Xch> = x.iter().collect();
    v.sort_by(|a, b| a.start_ms.partial_cmp(&b.start_ms).unwrap());
    let mut out = vec![];
    let mut i = 0;
    while i < v.len() {
        let mut j = i + 1;
        while j < v.len() && v[j].start_ms - v[i].start_ms < 40.0 {
            j += 1;
        }
        let mut g: Vec<(usize, u8)> = v[i..j].iter().map(|x| (x.srv, x.proto)).collect();
        g.sort();
        out.extend(g);
        i = j;
    }
    out
}

fn perm_of(n: usize, x: &[Xch]) -> Vec<usize> {
    let mut v: Vec<&Xch> = x.iter().collect();
    v.sort_by(|a, b| a.start_ms.partial_cmp(&b.start_ms).unwrap());
    let mut p = vec![];
    for e in v {
        if !p.contains(&e.srv) {
            p.push(e.srv);
        }
    }
    for i in 0..n {
        if !p.contains(&i) {
            p.push(i);
        }
    }
    p
}

const SLACK: f64 = 70.0;

/// the property evaluated directly on what the implementation did (no model involved)
fn pool_oracle(c: &PoolCase, li: usize, o: &LkObs) -> (Option<String>, Option<String>) {
    let t = c.timeout as f64;
    let lmax = c.srvs.iter().flat_map(|s| s.su.iter().chain(s.st.iter())).map(|x| x.1).max().unwrap_or(0) as f64;
    let tcp_loop = c.srvs.iter().any(|s| s.tcp && s.st.iter().any(|x| x.0 == O_TRUNC || x.0 == O_CASE));
    if o.res == 98 {
        return (Some(format!("lookup {li}: still running {:.0} ms after it started (timeout {} ms): does not terminate", o.fin_ms, c.timeout)), None);
    }
    // (1) completion bound that the code can meet: every round starts before the deadline
    if o.fin_ms > t + lmax + 50.0 + SLACK {
        return (Some(format!("lookup {li}: completed after {:.0} ms, timeout {} ms, slowest exchange {} ms", o.fin_ms, c.timeout, lmax)), None);
    }
    // (2) per-server exchange count: first try, one retry after UDP was disabled, four Busy retries,
    //     each possibly doubled by a reconnect
    for i in 0..c.srvs.len() {
        let n = o.xch.iter().filter(|x| x.srv == i).count();
        if n > 12 {
            let known = if tcp_loop { Some("C18-tcp-truncation-loop".to_string()) } else { None };
            return (Some(format!("lookup {li}: {n} exchanges with server {i} in one lookup")), known);
        }
    }
    // classification of the end of the search from observations only
    let answered = o.res == 0;
    let saw = |f: &dyn Fn(&Xch) -> bool| o.xch.iter().any(|x| x.over.is_some() && f(x));
    let final_seen = saw(&|x| x.outcome == O_NODATA || x.outcome == O_RCODE || (x.outcome == O_NX && c.srvs[x.srv].trust));
    let deadline = o.res == 3 && o.fin_ms >= t;
    let dis_udp = saw(&|x| x.outcome == O_TRUNC || x.outcome == O_CASE);
    if !answered && !final_seen && !deadline {
        // the search ran out of servers: everything the policy allows must have been tried,
        // a truncated UDP reply must have been followed by a TCP exchange with that server
        for (i, s) in c.srvs.iter().enumerate() {
            let allowed = s.tcp || (s.udp && !dis_udp);
            if allowed && !o.xch.iter().any(|x| x.srv == i) {
                return (Some(format!("lookup {li}: gave up with result {} although server {i} was never tried", o.res)), None);
            }
            if s.tcp {
                for (k, x) in o.xch.iter().enumerate() {
                    if x.srv == i && x.proto == 0 && x.over.is_some() && (x.outcome == O_TRUNC || x.outcome == O_CASE) {
                        if !o.xch.iter().skip(k + 1).any(|y| y.srv == i && y.proto == 1) {
                            return (Some(format!("lookup {li}: truncated UDP reply of server {i} was not retried over TCP")), None);
                        }
                    }
                }
            }
        }
    }
    // (2b) a truncated / case-mismatched UDP reply of a TCP-capable server: the next exchange with
    //      that server, if there is one, is over TCP
    for (k, x) in o.xch.iter().enumerate() {
        if x.proto == 0 && x.over.is_some() && (x.outcome == O_TRUNC || x.outcome == O_CASE) && c.srvs[x.srv].tcp {
            if let Some(y) = o.xch.iter().skip(k + 1).find(|y| y.srv == x.srv) {
                if y.proto == 0 {
                    return (Some(format!("lookup {li}: server {} answered truncated over UDP and was asked again over UDP", x.srv)), None);
                }
            }
        }
    }
    // an NXDOMAIN result needs a trusted NXDOMAIN seen, or exhaustion (checked above)
    // (3) a healthy server (answers on every configured protocol, TCP configured) exists and nobody
    //     ends the search with a final error: the result is an answer unless the deadline was reached
    let healthy = c.srvs.iter().any(|s| s.tcp && s.st.iter().all(|x| x.0 == O_ANS) && (!s.udp || s.su.iter().all(|x| x.0 == O_ANS)));
    let any_final = c.srvs.iter().any(|s| {
        s.su.iter().chain(s.st.iter()).any(|x| x.0 == O_NODATA || x.0 == O_RCODE || (x.0 == O_NX && s.trust))
    });
    if healthy && !any_final && !answered && li == 0 {
        if tcp_loop {
            return (
                Some(format!("lookup {li}: a healthy server exists but the lookup failed with result {}", o.res)),
                Some("C18-tcp-truncation-loop".to_string()),
            );
        }
        if !deadline {
            return (Some(format!("lookup {li}: a healthy server exists but the lookup failed with result {} after {:.0} ms", o.res, o.fin_ms)), None);
        }
    }
    // (3a) busy back-pressure: a server that is busy at most 4 times and then answers, while nobody
    //      truncates (the protocol never changes) and nobody ends the search: an answer unless deadline
    let no_requeue = !c.srvs.iter().any(|s| s.su.iter().chain(s.st.iter()).any(|x| x.0 == O_TRUNC || x.0 == O_CASE || x.0 == O_CLOSED));
    let busy_then_answer = |v: &Vec<(u8, u64)>| {
        let k = v.iter().take_while(|x| x.0 == O_BUSY).count();
        k >= 1 && k <= 4 && k < v.len() && v[k..].iter().all(|x| x.0 == O_ANS)
    };
    let recovering = c.srvs.iter().any(|s| if s.udp { busy_then_answer(&s.su) } else { s.tcp && busy_then_answer(&s.st) });
    if recovering && no_requeue && !any_final && !answered && !deadline && li == 0 {
        return (Some(format!("lookup {li}: a server is busy at most 4 times and then answers, but the lookup failed with result {} after {:.0} ms", o.res, o.fin_ms)), None);
    }
    // (3b) the same for a healthy server that only speaks UDP
    let healthy_udp = c.srvs.iter().any(|s| s.udp && !s.tcp && s.su.iter().all(|x| x.0 == O_ANS));
    if healthy_udp && !any_final && !answered && !deadline && li == 0 {
        let known = if dis_udp { Some("C18-udp-only-dropped-after-truncation".to_string()) } else if tcp_loop { Some("C18-tcp-truncation-loop".to_string()) } else { None };
        return (Some(format!("lookup {li}: a healthy UDP-only server exists but the lookup failed with result {}", o.res)), known);
    }
    // (4) the deadline clause as stated: no later than the configured timeout
    if o.fin_ms > t + SLACK {
        return (
            Some(format!("lookup {li}: completed after {:.0} ms, configured timeout {} ms (result {})", o.fin_ms, c.timeout, o.res)),
            Some("C18-F8-deadline-overrun".to_string()),
        );
    }
    (None, None)
}

fn pool_case(seed: u64, index: u64, c: PoolCase, family: &str) -> CaseOut {
    let text_in = case_text(&c);
    let mut obs = vec![];
    let mut noisy = true;
    for _try in 0..4 {
        obs = run_pool(&c);
        if obs.iter().all(|o| o.drift < 30.0) {
            noisy = false;
            break;
        }
    }
    let mut oracle_fail = None;
    let mut known = None;
    // after four noisy runs the case is dropped: neither oracle nor model comparison are meaningful
    for (li, o) in obs.iter().enumerate().filter(|_| !noisy) {
        let (f, k) = pool_oracle(&c, li, o);
        if f.is_some() && (oracle_fail.is_none() || (known.is_some() && k.is_none())) {
            oracle_fail = f;
            known = k;
        }
    }
    let obs_text = obs
        .iter()
        .map(|o| {
            format!(
                "{}{} t={:.0} x=[{}] sleeps={:?} drift={:.1}",
                RNAMES.get(o.res as usize).copied().unwrap_or("other"),
                if o.res == 0 { format!("(s{})", o.who) } else { String::new() },
                o.fin_ms,
                o.xch.iter().map(|x| format!("s{}{}{}", x.srv, if x.proto == 0 { "u" } else { "t" }, if x.over.is_some() { "" } else { "~" })).collect::<Vec<_>>().join(" "),
                o.sleeps.iter().map(|s| s.0).collect::<Vec<_>>(),
                o.drift
            )
        })
        .collect::<Vec<_>>()
        .join(" | ");
    let coq = if noisy && oracle_fail.is_none() {
        "CSkip".to_string()
    } else {
        let srvs = coq_list(c.srvs.iter().map(|s| ((s.udp as u8) | ((s.tcp as u8) << 1) | ((s.trust as u8) << 2)).to_string()));
        let sc = |v: &Vec<(u8, u64)>| coq_list(v.iter().map(|(o, l)| (l * 16 + *o as u64).to_string()));
        let scripts = coq_list(c.srvs.iter().map(|s| format!("({},{})", sc(&s.su), sc(&s.st))));
        let lks = coq_list(obs.iter().map(|o| {
            let perm = if c.strat == 2 { coq_list(perm_of(c.srvs.len(), &o.xch).iter().map(|x| x.to_string())) } else { "[]".to_string() };
            format!(
                "Lk {} {} {} {} {} {}",
                perm,
                o.res,
                o.who,
                o.fin_ms.floor() as u64,
                coq_list(canon_xch(&o.xch).iter().map(|(s, p)| (s * 2 + *p as usize).to_string())),
                coq_list(o.sleeps.iter().map(|s| s.0.to_string()))
            )
        }));
        format!("CPool {} {} {} {} {} {}", srvs, c.nconc, c.timeout, c.strat, scripts, lks)
    };
    let kind = if noisy && oracle_fail.is_none() { "skipped-jitter".to_string() } else { format!("pool-{family}") };
    CaseOut {
        index,
        coq,
        text: format!("seed={seed} index={index} {text_in} => {obs_text}"),
        key: text_in,
        nontrivial: !noisy && obs.iter().any(|o| o.xch.len() >= 2),
        kind,
        oracle_fail,
        known,
    }
}


// ---------------------------------------------------------------------------------------
// de-duplication family: k callers, one always-answering server (160 ms), arrivals at
// 60j+20 ms, cancellations at 60j+40 ms, completions therefore at 60j ms
// ---------------------------------------------------------------------------------------

#[derive(Clone, Debug)]
struct Caller {
    arrive: u64,
    key: usize,
    cancel_at: Option<u64>,
}

const DLAT: u64 = 160;

#[derive(Clone, Debug, Default)]
struct DedupObs {
    evs: Vec<(u8, usize, usize)>,
    xch: Vec<Xch>,
    /// per caller: Some(serial) if it received an answer
    got: Vec<Option<usize>>,
    /// per caller: actual arrival ms
    arrived: Vec<f64>,
    late: f64,
}

fn run_dedup(callers: &[Caller]) -> DedupObs {
    let c = PoolCase {
        srvs: vec![Srv { udp: true, tcp: true, trust: true, su: vec![(O_ANS, DLAT)], st: vec![(O_ANS, DLAT)] }],
        nconc: 1,
        timeout: 899,
        strat: 0,
        lookups: 1,
    };
    LOG.with(|l| {
        *l.borrow_mut() = Log { srvs: c.srvs.clone(), ..Default::default() };
    });
    let rt = tokio::runtime::Builder::new_current_thread().enable_time().build().unwrap();
    let pool = build_pool(&c);
    rt.block_on(async { tokio::time::sleep(Duration::from_millis(2)).await });
    let t0 = Instant::now();
    LOG.with(|l| l.borrow_mut().t0 = Some(t0));
    let results: Vec<(Option<usize>, f64)> = rt.block_on(async {
        let futs = callers.iter().enumerate().map(|(ci, c)| {
            let pool = pool.clone();
            let c = c.clone();
            async move {
                tokio::time::sleep_until(tokio::time::Instant::from_std(t0 + Duration::from_millis(c.arrive))).await;
                let arrived = ms_since(t0);
                LOG.with(|l| l.borrow_mut().evs.push((0, ci, c.key)));
                let fut = pool.send(request(c.key)).first_answer();
                let r = match c.cancel_at {
                    Some(at) => {
                        let r = tokio::time::timeout_at(tokio::time::Instant::from_std(t0 + Duration::from_millis(at)), fut).await;
                        match r {
                            Ok(r) => Some(r),
                            Err(_) => None,
                        }
                    }
                    None => Some(fut.await),
                };
                match r {
                    Some(r) => {
                        LOG.with(|l| l.borrow_mut().evs.push((2, ci, 0)));
                        let (code, _, serial) = classify(&r);
                        (if code == 0 { Some(serial) } else { Some(usize::MAX) }, arrived)
                    }
                    None => {
                        LOG.with(|l| l.borrow_mut().evs.push((3, ci, 0)));
                        (None, arrived)
                    }
                }
            }
        });
        futures_util::future::join_all(futs).await
    });
    let (evs, xch) = LOG.with(|l| {
        let l = l.borrow();
        (l.evs.clone(), l.xch.clone())
    });
    let mut late = 0.0f64;
    for (c, r) in callers.iter().zip(results.iter()) {
        late = late.max(r.1 - c.arrive as f64);
    }
    for x in &xch {
        if let Some(o) = x.over {
            late = late.max(o);
        }
    }
    DedupObs { evs, xch, got: results.iter().map(|r| r.0).collect(), arrived: results.iter().map(|r| r.1).collect(), late }
}

fn gen_dedup(r: &mut Rng) -> Vec<Caller> {
    let k = r.range(2, 5) as usize;
    let nkeys = *r.pick(&[1usize, 1, 2]);
    let with_cancel = r.chance(1, 3);
    (0..k)
        .map(|_| {
            let j = r.below(8);
            let arrive = 60 * j + 20;
            let cancel_at = if with_cancel && r.chance(1, 3) { Some(60 * (j + r.range(0, 3)) + 40) } else { None };
            Caller { arrive, key: r.below(nkeys as u64) as usize, cancel_at }
        })
        .collect()
}

fn dedup_text(cs: &[Caller]) -> String {
    format!(
        "dedup {}",
        cs.iter()
            .enumerate()
            .map(|(i, c)| format!("c{}[k{} @{}{}]", i, c.key, c.arrive, c.cancel_at.map(|x| format!(" cancel@{x}")).unwrap_or_default()))
            .collect::<Vec<_>>()
            .join(" ")
    )
}

fn dedup_oracle(cs: &[Caller], o: &DedupObs) -> (Option<String>, Option<String>) {
    // creator of exchange #r = the caller whose arrival immediately precedes its start in the event log
    let mut creator: BTreeMap<usize, usize> = BTreeMap::new();
    let mut last_arrival = None;
    for (k, a, _) in &o.evs {
        match k {
            0 => last_arrival = Some(*a),
            9 => {
                if let Some(c) = last_arrival {
                    creator.insert(*a, c);
                }
            }
            _ => {}
        }
    }
    // known class: the creator of the earlier exchange was cancelled before the later one started
    let known_for = |x: &Xch, y: &Xch| -> Option<String> {
        let c = *creator.get(&x.serial)?;
        let at = cs[c].cancel_at?;
        if o.got[c].is_none() && (at as f64) < y.start_ms + 10.0 {
            Some("C18-dedup-creator-cancel".to_string())
        } else {
            None
        }
    };
    let end_of = |x: &Xch| x.end_ms.unwrap_or(f64::INFINITY);
    // one upstream exchange per distinct in-flight query
    for (a, x) in o.xch.iter().enumerate() {
        for y in o.xch.iter().skip(a + 1) {
            if x.key == y.key && y.start_ms < end_of(x) - 10.0 && x.end_ms.is_some() {
                return (
                    Some(format!(
                        "two upstream exchanges in flight for the same query k{}: #{} [{:.0},{:.0}] and #{} started at {:.0}",
                        x.key, x.serial, x.start_ms, end_of(x), y.serial, y.start_ms
                    )),
                    known_for(x, y),
                );
            }
        }
    }
    // a caller arriving while an exchange for its key is in flight shares it
    for (i, c) in cs.iter().enumerate() {
        match o.got[i] {
            Some(usize::MAX) => return (Some(format!("caller {i} got an error although the server answers")), None),
            Some(serial) => {
                let Some(x) = o.xch.iter().find(|x| x.serial == serial) else {
                    return (Some(format!("caller {i} received an answer of no recorded exchange")), None);
                };
                if x.key != c.key {
                    return (Some(format!("caller {i} (k{}) received the answer of an exchange for k{}", c.key, x.key)), None);
                }
                for y in &o.xch {
                    if y.key == c.key && y.start_ms + 10.0 < o.arrived[i] && o.arrived[i] + 10.0 < end_of(y) && y.end_ms.is_some() && y.serial != serial {
                        return (Some(format!("caller {i} arrived while exchange #{} for its query was in flight but received #{}", y.serial, serial)), known_for(y, x));
                    }
                }
            }
            None => {
                if c.cancel_at.is_none() {
                    return (Some(format!("caller {i} never returned")), None);
                }
            }
        }
    }
    (None, None)
}

fn dedup_case(seed: u64, index: u64, cs: Vec<Caller>, kind: &str) -> CaseOut {
    let text_in = dedup_text(&cs);
    let mut o = DedupObs::default();
    let mut noisy = true;
    for _try in 0..4 {
        o = run_dedup(&cs);
        if o.late < 12.0 {
            noisy = false;
            break;
        }
    }
    let (oracle_fail, known) = if noisy { (None, None) } else { dedup_oracle(&cs, &o) };
    let got: Vec<(usize, usize)> = o.got.iter().enumerate().filter_map(|(i, g)| g.filter(|s| *s != usize::MAX).map(|s| (i, s))).collect();
    let skip = noisy && oracle_fail.is_none();
    let coq = if skip {
        "CSkip".to_string()
    } else {
        format!(
            "CDedup {} {} {}",
            coq_list(o.evs.iter().filter(|e| e.0 != 9).map(|(k, a, b)| format!("({k},({a},{b}))"))),
            o.xch.len(),
            coq_list(got.iter().map(|(c, s)| format!("({c},{s})")))
        )
    };
    let obs_text = format!(
        "runs={} got=[{}] events=[{}] late={:.1}",
        o.xch.len(),
        o.got.iter().enumerate().map(|(i, g)| format!("c{}:{}", i, match g { Some(usize::MAX) => "err".to_string(), Some(s) => format!("#{s}"), None => "cancelled".to_string() })).collect::<Vec<_>>().join(" "),
        o.evs.iter().filter(|e| e.0 != 9).map(|(k, a, b)| match k { 0 => format!("arr c{a} k{b}"), 1 => format!("done #{a}"), 2 => format!("ret c{a}"), _ => format!("cancel c{a}") }).collect::<Vec<_>>().join(", "),
        o.late
    );
    CaseOut {
        index,
        coq,
        text: format!("seed={seed} index={index} {text_in} => {obs_text}"),
        key: text_in,
        nontrivial: !skip && cs.len() >= 2,
        kind: if skip { "skipped-jitter".to_string() } else { kind.to_string() },
        oracle_fail,
        known,
    }
}

fn srv(udp: bool, tcp: bool, trust: bool, su: &[(u8, u64)], st: &[(u8, u64)]) -> Srv {
    Srv { udp, tcp, trust, su: su.to_vec(), st: st.to_vec() }
}

/// fixed cases at the first indices of every run: the witnesses of the recorded findings and
/// the clauses of the statement in their simplest form
fn witness(seed: u64, index: u64) -> Option<CaseOut> {
    let pc = |srvs: Vec<Srv>, nconc: usize, timeout: u64| PoolCase { srvs, nconc, timeout, strat: 0, lookups: 1 };
    Some(match index {
        // F8: the deadline is only looked at when a round starts
        0 => pool_case(seed, index, pc(vec![srv(true, true, true, &[(O_IO, 400)], &[(O_IO, 400)]), srv(true, true, true, &[(O_ANS, 300)], &[(O_ANS, 300)])], 1, 499), "witness"),
        // a server that sets TC over TCP as well is asked again and again until the deadline; the healthy one is never tried
        1 => pool_case(seed, index, pc(vec![srv(true, true, true, &[(O_TRUNC, 100)], &[(O_TRUNC, 100)]), srv(true, true, true, &[(O_ANS, 200)], &[(O_ANS, 200)])], 1, 1199), "witness"),
        // truncation disables UDP for the whole lookup: a healthy UDP-only server is dropped unasked
        2 => pool_case(seed, index, pc(vec![srv(true, false, true, &[(O_TRUNC, 100)], &[]), srv(true, false, true, &[(O_ANS, 200)], &[])], 1, 899), "witness"),
        // creator of the shared lookup cancelled while a waiter keeps it alive: a third caller starts a second exchange
        3 => dedup_case(
            seed,
            index,
            vec![Caller { arrive: 20, key: 0, cancel_at: Some(100) }, Caller { arrive: 80, key: 0, cancel_at: None }, Caller { arrive: 140, key: 0, cancel_at: None }],
            "witness-dedup",
        ),
        // the clauses in their simplest form
        4 => pool_case(seed, index, pc(vec![srv(true, true, true, &[(O_TRUNC, 100)], &[(O_ANS, 100)])], 2, 899), "witness"),
        5 => pool_case(seed, index, pc(vec![srv(true, true, false, &[(O_NX, 100)], &[(O_NX, 100)]), srv(true, true, true, &[(O_ANS, 200)], &[(O_ANS, 200)])], 1, 899), "witness"),
        6 => pool_case(seed, index, pc(vec![srv(true, true, true, &[(O_BUSY, 100), (O_BUSY, 100), (O_ANS, 100)], &[(O_IO, 100)])], 2, 899), "witness"),
        7 => dedup_case(
            seed,
            index,
            vec![Caller { arrive: 20, key: 0, cancel_at: None }, Caller { arrive: 80, key: 0, cancel_at: None }, Caller { arrive: 80, key: 1, cancel_at: None }, Caller { arrive: 260, key: 0, cancel_at: None }],
            "witness-dedup",
        ),
        _ => return None,
    })
}

const WITNESSES: u64 = 8;

fn case(seed: u64, index: u64) -> CaseOut {
    if let Some(c) = witness(seed, index) {
        return c;
    }
    let mut r = Rng::for_case(seed, index);
    if index % 5 == 4 {
        let cs = gen_dedup(&mut r);
        let kind = if cs.iter().any(|c| c.cancel_at.is_some()) { "dedup-cancel" } else { "dedup" };
        dedup_case(seed, index, cs, kind)
    } else {
        let (c, family) = gen_pool(&mut r);
        pool_case(seed, index, c, family)
    }
}

fn main() {
    if std::env::var("C18_LOUD").is_err() {
        quiet_panics();
    }
    let args = parse_args();
    if let Some((seed, index)) = args.replay {
        let c = case(seed, index);
        println!("{}", c.text);
        println!("COQ {}", c.coq);
        if let Some(f) = c.oracle_fail {
            println!("ORACLE-FAIL {f}");
        }
        return;
    }
    let threads: usize = std::env::var("C18_THREADS").ok().and_then(|s| s.parse().ok()).unwrap_or(32);
    let next = Arc::new(AtomicU64::new(0));
    let results: Arc<Mutex<Vec<CaseOut>>> = Arc::new(Mutex::new(vec![]));
    let n = args.n;
    let seed = args.seed;
    let mut hs = vec![];
    for _ in 0..threads.min(n as usize).max(1) {
        let next = next.clone();
        let results = results.clone();
        hs.push(std::thread::spawn(move || loop {
            let i = next.fetch_add(1, Ordering::SeqCst);
            if i >= n {
                break;
            }
            let c = case(seed, i);
            results.lock().unwrap().push(c);
        }));
    }
    for h in hs {
        h.join().unwrap();
    }
    let mut cases = std::mem::take(&mut *results.lock().unwrap());
    cases.sort_by_key(|c| c.index);
    let skipped = cases.iter().filter(|c| c.kind == "skipped-jitter").count();
    emit(
        "C18",
        "C18",
        &args,
        &cases,
        "first 8 indices: fixed witnesses (findings and the clauses in their simplest form); every fifth case: de-duplication schedules (2..5 callers, 1..2 keys, arrivals at 60j+20 ms, optional cancellations, one server answering after 160 ms); pool cases: 1..4 servers (UDP+TCP / UDP only / TCP only, trusted or not for NXDOMAIN), per (server, protocol) a script of exchange outcomes {answer, truncated, NXDOMAIN, no data, SERVFAIL, case mismatch, busy^k then answer, io error, connection reset, timeout, no connections} with a latency (100..400 ms, distinct per server; timeouts last the configured timeout), num_concurrent_reqs 0..4, timeout 499..1199 ms, ordering user / round robin / query statistics, 1..3 sequential lookups on the same pool. Non-trivial = at least two upstream exchanges; distinct by configuration and scripts.",
        serde_json::json!({"skipped_for_timer_jitter": skipped, "threads": threads, "witnesses": WITNESSES}),
    );
}
