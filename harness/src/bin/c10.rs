//! C10 — authoritative answers follow RFC 1034 §4.3.2 (+ RFC 4592 wildcards, RFC 2308 negatives).
//!
//! Drives the real `Catalog` (through the `VerifContext` front-door hook) over a real
//! `InMemoryZoneHandler` built from a generated record set, with wire-format queries, and
//! decodes the wire reply.  One case = one zone + a batch of queries.  For every query the
//! harness records
//!   * the observation (rcode, AA, answer/authority/additional as sorted lists),
//!   * the verdict of an independent reference (a direct transcription of the RFC algorithm,
//!     `rfc_answer` + `judge`), and
//!   * the known-deviation class the query falls in (`known_class`, a predicate on zone and
//!     query only).
//! Inside Coq the faithful model is re-run on the same zone/query and compared with the
//! observation; the Gallina spec/judge/known-class are re-run too and compared with the Rust
//! ones, so the Rust reference and the Gallina spec check each other.

use std::collections::BTreeSet;
use std::net::{IpAddr, Ipv4Addr, Ipv6Addr, SocketAddr};
use std::sync::Arc;

use futures_util::StreamExt;
use hickory_net::xfer::Protocol;
use hickory_net::BufDnsStreamHandle;
use hickory_proto::dnssec::crypto::Ed25519SigningKey;
use hickory_proto::dnssec::rdata::{DNSSECRData, DNSKEY, DS};
use hickory_proto::dnssec::{Algorithm, DigestType, DnssecSigner, Nsec3HashAlgorithm, SigningKey};
use hickory_proto::op::{Message, SerialMessage};
use hickory_proto::rr::rdata::{A, AAAA, CNAME, MX, NS, SOA, TXT};
use hickory_proto::rr::{LowerName, Name, RData, Record};
use hickory_server::dnssec::NxProofKind;
use hickory_server::server::VerifContext;
use hickory_server::store::in_memory::InMemoryZoneHandler;
use hickory_server::zone_handler::{AxfrPolicy, Catalog, ZoneHandler, ZoneType};
use vph::*;

// ------------------------------------------------------------------------------------------
// abstract data (shared shape with coq/C10/Model.v)
// ------------------------------------------------------------------------------------------

/// a domain name: label ids, leftmost label first, root = []
type Nm = Vec<u8>;

const T_A: u16 = 1;
const T_NS: u16 = 2;
const T_CNAME: u16 = 5;
const T_SOA: u16 = 6;
const T_MX: u16 = 15;
const T_TXT: u16 = 16;
const T_AAAA: u16 = 28;
const T_DS: u16 = 43;
const T_ANY: u16 = 255;

const QTYPES: &[u16] = &[T_A, T_AAAA, T_MX, T_NS, T_CNAME, T_SOA, T_DS, T_TXT, T_ANY];

const L_STAR: u8 = 0;
const L_OTHER: u8 = 8;
const L_EX: u8 = 9;

fn label_str(l: u8) -> &'static str {
    match l {
        0 => "*",
        1 => "a",
        2 => "b",
        3 => "c",
        4 => "d",
        5 => "e",
        6 => "f",
        7 => "g",
        8 => "other",
        9 => "example",
        _ => "zz",
    }
}

fn label_id(l: &[u8]) -> u8 {
    let s = String::from_utf8_lossy(l).to_ascii_lowercase();
    for i in 0..=9u8 {
        if label_str(i) == s {
            return i;
        }
    }
    // any other label (NSEC3 hashed owner names): a stable id in 100..250
    100 + (fnv(&s) % 150) as u8
}

#[derive(Clone, Debug, PartialEq, Eq, PartialOrd, Ord, Hash)]
enum Rd {
    Id(u8),
    Nm(Nm),
    Soa,
}

#[derive(Clone, Debug, PartialEq, Eq)]
struct RrSet {
    name: Nm,
    ty: u16,
    data: Vec<Rd>,
}

type Rr = (Nm, u16, Rd);

#[derive(Clone, Debug, PartialEq, Eq)]
struct Obs {
    rcode: u16,
    aa: bool,
    ans: Vec<Rr>,
    auth: Vec<Rr>,
    add: Vec<Rr>,
}

#[derive(Clone, Debug)]
struct Query {
    name: Nm,
    ty: u16,
    dnssec_ok: bool,
    upper: bool,
}

fn name_str(n: &Nm) -> String {
    if n.is_empty() {
        return ".".into();
    }
    let mut s = String::new();
    for l in n {
        if *l >= 100 {
            s.push_str(&format!("h{l}"));
        } else {
            s.push_str(label_str(*l));
        }
        s.push('.');
    }
    s
}

fn ty_str(t: u16) -> String {
    match t {
        T_A => "A".into(),
        T_NS => "NS".into(),
        T_CNAME => "CNAME".into(),
        T_SOA => "SOA".into(),
        T_MX => "MX".into(),
        T_TXT => "TXT".into(),
        T_AAAA => "AAAA".into(),
        T_DS => "DS".into(),
        T_ANY => "ANY".into(),
        46 => "RRSIG".into(),
        47 => "NSEC".into(),
        48 => "DNSKEY".into(),
        50 => "NSEC3".into(),
        t => format!("TYPE{t}"),
    }
}

fn rd_str(d: &Rd) -> String {
    match d {
        Rd::Id(i) => format!("#{i}"),
        Rd::Nm(n) => name_str(n),
        Rd::Soa => "soa".into(),
    }
}

fn rr_str(r: &Rr) -> String {
    format!("{} {} {}", name_str(&r.0), ty_str(r.1), rd_str(&r.2))
}

fn sec_str(s: &[Rr]) -> String {
    format!("[{}]", s.iter().map(rr_str).collect::<Vec<_>>().join(", "))
}

fn zone_str(z: &[RrSet]) -> String {
    z.iter()
        .map(|s| format!("{} {} {}", name_str(&s.name), ty_str(s.ty), s.data.iter().map(rd_str).collect::<Vec<_>>().join("|")))
        .collect::<Vec<_>>()
        .join("; ")
}

fn obs_str(o: &Obs) -> String {
    format!("rcode={} aa={} ans={} auth={} add={}", o.rcode, o.aa, sec_str(&o.ans), sec_str(&o.auth), sec_str(&o.add))
}

// ---- packed rendering (decoded by coq/C10/Check.v)

fn ser_name(v: &mut Vec<u8>, n: &Nm) {
    v.push(n.len() as u8);
    v.extend(n);
}
fn ser_u16(v: &mut Vec<u8>, t: u16) {
    v.extend(t.to_be_bytes());
}
fn ser_rd(v: &mut Vec<u8>, d: &Rd) {
    match d {
        Rd::Id(i) => v.extend([0, *i]),
        Rd::Nm(n) => {
            v.push(1);
            ser_name(v, n);
        }
        Rd::Soa => v.push(2),
    }
}
fn ser_count(v: &mut Vec<u8>, n: usize) {
    assert!(n < 256, "list too long for the packed encoding");
    v.push(n as u8);
}
fn ser_sec(v: &mut Vec<u8>, s: &[Rr]) {
    ser_count(v, s.len());
    for (n, t, d) in s {
        ser_name(v, n);
        ser_u16(v, *t);
        ser_rd(v, d);
    }
}
fn ser_zone(v: &mut Vec<u8>, z: &[RrSet]) {
    ser_count(v, z.len());
    for s in z {
        ser_name(v, &s.name);
        ser_u16(v, s.ty);
        ser_count(v, s.data.len());
        for d in &s.data {
            ser_rd(v, d);
        }
    }
}
fn ser_obs(v: &mut Vec<u8>, o: &Obs) {
    v.push(o.rcode as u8);
    v.push(o.aa as u8);
    ser_sec(v, &o.ans);
    ser_sec(v, &o.auth);
    ser_sec(v, &o.add);
}

// ------------------------------------------------------------------------------------------
// the real implementation
// ------------------------------------------------------------------------------------------

fn to_name(n: &Nm) -> Name {
    Name::from_labels(n.iter().map(|l| label_str(*l).as_bytes())).unwrap()
}

fn from_name(n: &Name) -> Nm {
    n.iter().map(label_id).collect()
}

fn to_rdata(ty: u16, d: &Rd, origin: &Nm) -> Option<RData> {
    Some(match (ty, d) {
        (T_A, Rd::Id(i)) => RData::A(A::new(10, 0, 0, *i)),
        (T_AAAA, Rd::Id(i)) => RData::AAAA(AAAA::new(0x2001, 0xdb8, 0, 0, 0, 0, 0, *i as u16)),
        (T_TXT, Rd::Id(i)) => RData::TXT(TXT::new(vec![format!("t{i}")])),
        (T_DS, Rd::Id(i)) => RData::DNSSEC(DNSSECRData::DS(DS::new(*i as u16, Algorithm::ED25519, DigestType::SHA256, vec![*i; 32]))),
        (T_NS, Rd::Nm(n)) => RData::NS(NS(to_name(n))),
        (T_CNAME, Rd::Nm(n)) => RData::CNAME(CNAME(to_name(n))),
        (T_MX, Rd::Nm(n)) => RData::MX(MX::new(10, to_name(n))),
        (T_SOA, Rd::Soa) => {
            let mut m = vec![1u8];
            m.extend(origin);
            let mut r = vec![2u8];
            r.extend(origin);
            RData::SOA(SOA::new(to_name(&m), to_name(&r), 1, 3600, 300, 36000, 60))
        }
        _ => return None,
    })
}

fn from_rdata(d: &RData) -> Rd {
    match d {
        RData::A(a) => Rd::Id(a.0.octets()[3]),
        RData::AAAA(a) => Rd::Id(a.0.octets()[15]),
        RData::TXT(t) => {
            let s: Vec<u8> = t.txt_data.iter().flat_map(|b| b.iter().copied()).collect();
            let s = String::from_utf8_lossy(&s).to_string();
            Rd::Id(s.trim_start_matches('t').parse().unwrap_or(250))
        }
        RData::DNSSEC(DNSSECRData::DS(ds)) => Rd::Id(ds.key_tag() as u8),
        RData::DNSSEC(DNSSECRData::RRSIG(sig)) => Rd::Id(u16::from(sig.input().type_covered) as u8),
        RData::DNSSEC(DNSSECRData::NSEC(_)) | RData::DNSSEC(DNSSECRData::NSEC3(_)) => Rd::Id(0),
        RData::NS(n) => Rd::Nm(from_name(&n.0)),
        RData::CNAME(n) => Rd::Nm(from_name(&n.0)),
        RData::MX(m) => Rd::Nm(from_name(&m.exchange)),
        RData::SOA(_) => Rd::Soa,
        _ => Rd::Id(251),
    }
}

/// intended records, upserted in order (the store's own admission rules apply)
type Rec = (Nm, u16, Rd);

struct Built {
    ctx: VerifContext<Catalog>,
    zone: Vec<RrSet>,
    rejected: usize,
}

const T_RRSIG: u16 = 46;
const T_NSEC: u16 = 47;
const T_NSEC3: u16 = 50;

fn is_dnssec_type(t: u16) -> bool {
    matches!(t, 46 | 47 | 48 | 50 | 51)
}

/// `sign`: None = unsigned zone; Some(false) = signed with NSEC; Some(true) = signed with NSEC3
fn build(rt: &tokio::runtime::Runtime, origin: &Nm, recs: &[Rec], sign: Option<bool>) -> Built {
    let oname = to_name(origin);
    let kind = sign.map(|nsec3| {
        if nsec3 {
            NxProofKind::Nsec3 { algorithm: Nsec3HashAlgorithm::SHA1, salt: Arc::new([]), iterations: 0, opt_out: false }
        } else {
            NxProofKind::Nsec
        }
    });
    let mut h = InMemoryZoneHandler::<hickory_net::runtime::TokioRuntimeProvider>::empty(oname.clone(), ZoneType::Primary, AxfrPolicy::Deny, kind);
    let mut rejected = 0;
    for (n, t, d) in recs {
        let Some(rd) = to_rdata(*t, d, origin) else {
            rejected += 1;
            continue;
        };
        if !h.upsert_mut(Record::from_rdata(to_name(n), 300, rd), 1) {
            rejected += 1;
        }
    }
    if sign.is_some() {
        let key = Ed25519SigningKey::from_pkcs8(&Ed25519SigningKey::generate_pkcs8().expect("keygen")).expect("key");
        h.add_zone_signing_key_mut(DnssecSigner::new(
            DNSKEY::from_key(&key.to_public_key().expect("public key")),
            Box::new(key),
            oname.clone(),
            std::time::Duration::from_secs(3600),
        ))
        .expect("add key");
        h.secure_zone_mut().expect("sign");
    }
    // effective zone contents, in the store's own (BTreeMap) order (without the DNSSEC bookkeeping types)
    let zone: Vec<RrSet> = rt.block_on(async {
        h.records()
            .await
            .iter()
            .filter(|(k, _)| !is_dnssec_type(u16::from(k.record_type)))
            .map(|(k, set)| RrSet {
                name: from_name(&Name::from(&k.name)),
                ty: u16::from(k.record_type),
                data: set.records_without_rrsigs().map(|r| from_rdata(&r.data)).collect(),
            })
            .collect()
    });
    let mut catalog = Catalog::new();
    catalog.upsert(LowerName::from(&oname), vec![Arc::new(h) as Arc<dyn ZoneHandler>]);
    Built { ctx: VerifContext::new(catalog, vec![], vec![]), zone, rejected }
}

fn wire_query(id: u16, q: &Query) -> Vec<u8> {
    let mut v = id.to_be_bytes().to_vec();
    v.extend([0x01, 0x00, 0, 1, 0, 0, 0, 0, 0, if q.dnssec_ok { 1 } else { 0 }]);
    for l in &q.name {
        let s = label_str(*l);
        let s = if q.upper { s.to_ascii_uppercase() } else { s.to_string() };
        v.push(s.len() as u8);
        v.extend(s.as_bytes());
    }
    v.push(0);
    v.extend(q.ty.to_be_bytes());
    v.extend([0, 1]);
    if q.dnssec_ok {
        // OPT: root, type 41, udp 1232, ext-rcode 0, version 0, DO, rdlen 0
        v.extend([0, 0, 41, 0x04, 0xd0, 0, 0, 0x80, 0, 0, 0]);
    }
    v
}

fn canon(recs: &[Record]) -> Vec<Rr> {
    let mut v: Vec<Rr> = recs
        .iter()
        .filter(|r| u16::from(r.record_type()) != 41)
        .map(|r| (from_name(&r.name), u16::from(r.record_type()), from_rdata(&r.data)))
        .collect();
    v.sort();
    v
}

/// one query through the real front door; None = not exactly one decodable reply
fn drive(rt: &tokio::runtime::Runtime, ctx: &VerifContext<Catalog>, bytes: &[u8]) -> Result<Obs, String> {
    let addr = SocketAddr::new(IpAddr::V4(Ipv4Addr::new(192, 0, 2, 7)), 5353);
    let _ = Ipv6Addr::LOCALHOST;
    let (handle, rx) = BufDnsStreamHandle::new(addr);
    let replies: Vec<Vec<u8>> = rt.block_on(async {
        ctx.handle_raw_request(SerialMessage::new(bytes.to_vec(), addr), Protocol::Udp, handle).await;
        rx.map(|m| m.into_parts().0).collect::<Vec<_>>().await
    });
    if replies.len() != 1 {
        return Err(format!("{} replies", replies.len()));
    }
    let m = Message::from_vec(&replies[0]).map_err(|e| format!("reply does not decode: {e}"))?;
    if m.metadata.id != u16::from_be_bytes([bytes[0], bytes[1]]) {
        return Err("id mismatch".into());
    }
    Ok(Obs {
        rcode: u16::from(m.metadata.response_code) & 0xf,
        aa: m.metadata.authoritative,
        ans: canon(&m.answers),
        auth: canon(&m.authorities),
        add: canon(&m.additionals),
    })
}

// ------------------------------------------------------------------------------------------
// the reference: RFC 1034 §4.3.2 + RFC 4592 + RFC 2308, written from the RFCs (not the code)
// ------------------------------------------------------------------------------------------

/// `anc` is `n` or an ancestor of `n`
fn is_under(n: &[u8], anc: &[u8]) -> bool {
    n.len() >= anc.len() && n[n.len() - anc.len()..] == *anc
}

fn rrset<'a>(z: &'a [RrSet], n: &[u8], t: u16) -> Option<&'a RrSet> {
    z.iter().find(|s| s.name == n && s.ty == t)
}
fn has_data(z: &[RrSet], n: &[u8]) -> bool {
    z.iter().any(|s| s.name == n)
}
/// RFC 4592 §2.2.2: a name exists if it or a descendant owns a record
fn exists(z: &[RrSet], n: &[u8]) -> bool {
    z.iter().any(|s| is_under(&s.name, n))
}
fn rrs_of(owner: &[u8], s: &RrSet) -> Vec<Rr> {
    s.data.iter().map(|d| (owner.to_vec(), s.ty, d.clone())).collect()
}

#[derive(Clone, Debug, PartialEq)]
enum Auth {
    /// nothing, or (optionally) the apex NS set
    Free,
    Soa,
    Referral(Nm),
}

#[derive(Clone, Debug, PartialEq)]
struct Expect {
    rcode: u16,
    /// exact answer set; for `any`: the candidate records, of which whole RRsets (at least one) are to be returned
    ans: Vec<Rr>,
    any: bool,
    auth: Auth,
    /// some name on the way was answered from a wildcard (needs a denial proof under DNSSEC)
    wild: bool,
}

/// closest encloser: the longest existing proper ancestor (the apex always exists)
fn closest_encloser(z: &[RrSet], origin: &[u8], q: &[u8]) -> Nm {
    let mut n = q[1..].to_vec();
    while n.len() > origin.len() && !exists(z, &n) {
        n.remove(0);
    }
    n
}

/// zones the statement is about: SOA exactly at the apex, everything inside the zone, CNAME alone
/// at its node, no NS/CNAME-less weirdness at wildcard owners (RFC 4592 §4.2 leaves NS at a wildcard undefined)
fn wf(z: &[RrSet], origin: &[u8]) -> bool {
    rrset(z, origin, T_SOA).is_some()
        && origin.first() != Some(&L_STAR)
        && z.iter().enumerate().all(|(i, s)| z[i + 1..].iter().all(|o| !(o.name == s.name && o.ty == s.ty)))
        && z.iter().all(|s| is_under(&s.name, origin) && !s.data.is_empty())
        && z.iter().all(|s| s.ty != T_SOA || s.name == origin)
        && z.iter().all(|s| s.ty != T_CNAME || z.iter().all(|o| o.name != s.name || o.ty == T_CNAME))
        && z.iter().all(|s| !(s.ty == T_NS && s.name.first() == Some(&L_STAR)))
}

fn rfc_answer(z: &[RrSet], origin: &[u8], q: &[u8], t: u16) -> Option<Expect> {
    if !is_under(q, origin) {
        return None; // not in any zone of this server: REFUSED
    }
    let mut acc: Vec<Rr> = vec![];
    let mut seen: Vec<Nm> = vec![q.to_vec()];
    let mut cur: Nm = q.to_vec();
    let mut wild = false;
    loop {
        // step 3b: delegation
        if let Some(cut) = cuts_on_path(z, origin, &cur, t).first() {
            return Some(Expect { rcode: 0, ans: acc, any: false, auth: Auth::Referral(cut.clone()), wild });
        }
        // step 3a / 3c: the node, or the wildcard at the closest encloser
        let src: Nm = if has_data(z, &cur) {
            cur.clone()
        } else if exists(z, &cur) {
            return Some(Expect { rcode: 0, ans: acc, any: false, auth: Auth::Soa, wild }); // empty non-terminal
        } else {
            let mut w = vec![L_STAR];
            w.extend(closest_encloser(z, origin, &cur));
            if has_data(z, &w) {
                wild = true;
                w
            } else {
                return Some(Expect { rcode: 3, ans: acc, any: false, auth: Auth::Soa, wild });
            }
        };
        if t == T_ANY {
            let all: Vec<Rr> = z.iter().filter(|s| s.name == src).flat_map(|s| rrs_of(&cur, s)).collect();
            acc.extend(all);
            return Some(Expect { rcode: 0, ans: acc, any: true, auth: Auth::Free, wild });
        }
        if t != T_CNAME {
            if let Some(c) = rrset(z, &src, T_CNAME) {
                acc.extend(rrs_of(&cur, c));
                let Some(Rd::Nm(target)) = c.data.first() else { return Some(Expect { rcode: 0, ans: acc, any: false, auth: Auth::Free, wild }) };
                if !is_under(target, origin) || seen.contains(target) {
                    return Some(Expect { rcode: 0, ans: acc, any: false, auth: Auth::Free, wild });
                }
                seen.push(target.clone());
                cur = target.clone();
                continue;
            }
        }
        return Some(match rrset(z, &src, t) {
            Some(s) => {
                acc.extend(rrs_of(&cur, s));
                Expect { rcode: 0, ans: acc, any: false, auth: Auth::Free, wild }
            }
            None => Expect { rcode: 0, ans: acc, any: false, auth: Auth::Soa, wild },
        });
    }
}

fn same_set(a: &[Rr], b: &[Rr]) -> bool {
    let x: BTreeSet<&Rr> = a.iter().collect();
    let y: BTreeSet<&Rr> = b.iter().collect();
    a.len() == b.len() && x == y
}

/// is the observed reply acceptable for the expectation?  (None = acceptable)
fn judge(z: &[RrSet], origin: &[u8], e: &Option<Expect>, o: &Obs) -> Option<String> {
    let Some(e) = e else {
        return if o.rcode == 5 && o.ans.is_empty() && o.auth.is_empty() { None } else { Some("expected REFUSED, empty".into()) };
    };
    if o.rcode != e.rcode {
        return Some(format!("rcode {} expected {}", o.rcode, e.rcode));
    }
    if e.any {
        let ok = o.ans.iter().all(|r| e.ans.contains(r))
            && e.ans.iter().all(|r| o.ans.contains(r) || !o.ans.iter().any(|x| x.0 == r.0 && x.1 == r.1))
            && (e.ans.is_empty() == o.ans.is_empty());
        if !ok {
            return Some(format!("answer {} is not a non-empty union of whole RRsets out of {}", sec_str(&o.ans), sec_str(&e.ans)));
        }
    } else if !same_set(&o.ans, &e.ans) {
        return Some(format!("answer {} expected {}", sec_str(&o.ans), sec_str(&e.ans)));
    }
    let apex_ns: Vec<Rr> = rrset(z, origin, T_NS).map(|s| rrs_of(origin, s)).unwrap_or_default();
    let soa: Vec<Rr> = rrset(z, origin, T_SOA).map(|s| rrs_of(origin, s)).unwrap_or_default();
    let ok = match &e.auth {
        Auth::Free => o.auth.is_empty() || same_set(&o.auth, &apex_ns),
        Auth::Soa => same_set(&o.auth, &soa),
        Auth::Referral(c) => same_set(&o.auth, &rrset(z, c, T_NS).map(|s| rrs_of(c, s)).unwrap_or_default()),
    };
    if !ok {
        return Some(format!("authority {} expected {:?}", sec_str(&o.auth), e.auth));
    }
    if !matches!(e.auth, Auth::Referral(_)) && !o.aa {
        return Some("AA clear on an answer from the zone's own data".into());
    }
    None
}

/// the DNSSEC sentence of the statement, structurally, on a reply to a DO query over a signed zone:
/// every authoritative RRset in answer/authority carries an RRSIG (same section, same owner, covering its
/// type); negative and wildcard-synthesised answers carry an NSEC/NSEC3 record
fn dnssec_judge(z: &[RrSet], origin: &[u8], e: &Option<Expect>, o: &Obs) -> Option<String> {
    let e = e.as_ref()?;
    for (sec_name, sec) in [("answer", &o.ans), ("authority", &o.auth)] {
        let keys: BTreeSet<(Nm, u16)> = sec.iter().filter(|r| r.1 != T_RRSIG).map(|r| (r.0.clone(), r.1)).collect();
        for (n, t) in keys {
            // the NS set of a delegation is not authoritative data of this zone: unsigned
            if t == T_NS && n != origin && rrset(z, &n, T_NS).is_some() {
                continue;
            }
            if !sec.iter().any(|r| r.0 == n && r.1 == T_RRSIG && r.2 == Rd::Id(t as u8)) {
                return Some(format!("{sec_name}: RRset {} {} without RRSIG", name_str(&n), ty_str(t)));
            }
        }
    }
    if (e.auth == Auth::Soa || e.wild) && !o.auth.iter().any(|r| r.1 == T_NSEC || r.1 == T_NSEC3) {
        return Some(format!("{} answer without NSEC/NSEC3 in authority", if e.wild { "wildcard" } else { "negative" }));
    }
    None
}

fn strip_dnssec(o: &Obs) -> Obs {
    let f = |s: &Vec<Rr>| s.iter().filter(|r| !is_dnssec_type(r.1)).cloned().collect::<Vec<_>>();
    Obs { rcode: o.rcode, aa: o.aa, ans: f(&o.ans), auth: f(&o.auth), add: f(&o.add) }
}

/// cuts on the way from the apex down to `q`, top first; for DS the cut at the name itself does not count
fn cuts_on_path(z: &[RrSet], origin: &[u8], q: &[u8], t: u16) -> Vec<Nm> {
    let mut v = vec![];
    for k in origin.len() + 1..=q.len() {
        let n = &q[q.len() - k..];
        if rrset(z, n, T_NS).is_some() && !(t == T_DS && n == q) {
            v.push(n.to_vec());
        }
    }
    v
}

const K_NESTED: u8 = 1;
const K_NSANY: u8 = 2;
const K_WILD: u8 = 3;
const K_CNAME_CUT: u8 = 4;
const K_CNAME_NEG: u8 = 5;
const K_LONG: u8 = 6;
const K_ANYWILD: u8 = 7;
const K_SOAREF: u8 = 8;
/// signed zones only (harness-level class, not part of the Gallina model): QTYPE SOA answered through a
/// wildcard-synthesised record gets the apex NS set instead of the denial proof
const K_SOA_WILD_PROOF: u8 = 9;
/// NSEC-signed zone whose only owner name is the apex: closest_nsec finds no covering NSEC (the chain's only
/// record points at itself)
const K_SINGLE_NSEC: u8 = 10;

fn carries(z: &[RrSet], n: &[u8], t: u16) -> bool {
    rrset(z, n, t).is_some() || rrset(z, n, T_CNAME).is_some()
}

fn star(a: &[u8]) -> Nm {
    let mut w = vec![L_STAR];
    w.extend(a);
    w
}

/// known-deviation class of a query (0 = none); a predicate on (zone, query) only: walks the chain
/// the RFC prescribes and names the first place where the code is known to leave it
fn known_class(z: &[RrSet], origin: &[u8], q: &[u8], t: u16) -> u8 {
    if !is_under(q, origin) {
        return 0;
    }
    let mut cur: Nm = q.to_vec();
    let mut seen: Vec<Nm> = vec![cur.clone()];
    let mut n = 0usize; // RRsets accumulated so far
    for _ in 0..10 {
        let first = n == 0;
        let cuts = cuts_on_path(z, origin, &cur, t);
        if cuts.len() >= 2 {
            return K_NESTED;
        }
        if cuts.len() == 1 {
            return if first {
                if t == T_NS || t == T_ANY { K_NSANY } else if t == T_SOA && rrset(z, origin, T_NS).is_some() { K_SOAREF } else { 0 }
            } else {
                K_CNAME_CUT
            };
        }
        let ex = exists(z, &cur);
        let ce = closest_encloser(z, origin, &cur);
        let neg = if first { 0 } else { K_CNAME_NEG };
        let fin = |n2: usize| if n2 > 8 { K_LONG } else { 0 };
        let src: Nm = if has_data(z, &cur) && (t == T_ANY || carries(z, &cur, t)) {
            cur.clone()
        } else {
            let t2 = if t == T_ANY { T_A } else { t };
            if cur.first() == Some(&L_STAR) {
                return if !ex && has_data(z, &star(&ce)) { K_WILD } else { neg };
            }
            let mut a = cur[1..].to_vec();
            let low = loop {
                if !is_under(&a, origin) {
                    break None;
                }
                if carries(z, &star(&a), t2) {
                    break Some(a.clone());
                }
                if a.is_empty() {
                    break None;
                }
                a.remove(0);
            };
            match low {
                Some(a) => {
                    if ex || a != ce {
                        return K_WILD;
                    }
                    star(&a)
                }
                None => return if !ex && has_data(z, &star(&ce)) { K_WILD } else { neg },
            }
        };
        if t == T_ANY {
            return if has_data(z, &cur) { 0 } else if rrset(z, &src, T_CNAME).is_some() { K_ANYWILD } else { 0 };
        }
        let c = if t == T_CNAME { None } else { rrset(z, &src, T_CNAME) };
        match c {
            None => return fin(n + 1),
            Some(c) => match c.data.first() {
                Some(Rd::Nm(target)) if is_under(target, origin) && !seen.contains(target) => {
                    seen.push(target.clone());
                    cur = target.clone();
                    n += 1;
                }
                _ => return fin(n + 1),
            },
        }
    }
    K_LONG
}

fn known_id(k: u8) -> Option<&'static str> {
    match k {
        K_NESTED => Some("C10-nested-cut"),
        K_NSANY => Some("C10-ns-any-at-cut"),
        K_WILD => Some("C10-wildcard-rfc4592"),
        K_CNAME_CUT => Some("C10-cname-into-delegation"),
        K_CNAME_NEG => Some("C10-cname-negative-tail"),
        K_LONG => Some("C10-cname-depth-8"),
        K_ANYWILD => Some("C10-any-wildcard-cname"),
        K_SOAREF => Some("C10-soa-query-below-cut"),
        K_SOA_WILD_PROOF => Some("C10-dnssec-soa-query-wildcard-no-proof"),
        K_SINGLE_NSEC => Some("C10-dnssec-single-name-zone-no-nsec"),
        _ => None,
    }
}

// ------------------------------------------------------------------------------------------
// generators
// ------------------------------------------------------------------------------------------

fn rand_name(r: &mut Rng, origin: &Nm, labels: &[u8], max_depth: u64) -> Nm {
    let d = r.range(1, max_depth);
    let mut n = origin.clone();
    for _ in 0..d {
        n.insert(0, *r.pick(labels));
    }
    n
}

fn data_for(r: &mut Rng, ty: u16, origin: &Nm, names: &[Nm]) -> Rd {
    match ty {
        T_NS | T_MX | T_CNAME => {
            if r.chance(1, 5) {
                Rd::Nm(vec![1, L_OTHER])
            } else if !names.is_empty() && r.chance(2, 3) {
                Rd::Nm(r.pick(names).clone())
            } else {
                Rd::Nm(rand_name(r, origin, &[0, 1, 2, 3], 3))
            }
        }
        T_SOA => Rd::Soa,
        _ => Rd::Id(r.range(1, 9) as u8),
    }
}

struct Gen {
    origin: Nm,
    recs: Vec<Rec>,
    kind: &'static str,
}

fn gen_zone(r: &mut Rng) -> Gen {
    let origin: Nm = if r.chance(1, 8) { vec![5, L_EX] } else { vec![L_EX] };
    let mut recs: Vec<Rec> = vec![(origin.clone(), T_SOA, Rd::Soa)];
    if !r.chance(1, 10) {
        let t = if r.chance(1, 2) { vec![1, L_OTHER] } else { let mut n = vec![4u8]; n.extend(&origin); n };
        recs.push((origin.clone(), T_NS, Rd::Nm(t)));
        if r.chance(1, 3) {
            recs.push((origin.clone(), T_NS, Rd::Nm(vec![2, L_OTHER])));
        }
    }
    let labels: &[u8] = if r.chance(1, 2) { &[0, 1, 2] } else { &[0, 1, 2, 3] };
    let plain: &[u8] = &[1, 2, 3];
    let mut names: Vec<Nm> = vec![origin.clone()];
    let data_types: &[u16] = &[T_A, T_A, T_AAAA, T_MX, T_TXT, T_TXT];
    let nfeat = r.range(1, 6);
    let mut kind = "mixed";
    let only = r.below(10);
    for fi in 0..nfeat {
        let f = if only < 5 { r.below(8) } else { [1u64, 3, 4, 5, 6][(only - 5) as usize] };
        if fi == 0 && only >= 5 {
            kind = ["wildcard-heavy", "cname-heavy", "chain-heavy", "cut-heavy", "ent-heavy"][(only - 5) as usize];
        }
        match f {
            // host with data
            0 | 7 => {
                let n = if r.chance(1, 3) { r.pick(&names).clone() } else { rand_name(r, &origin, plain, 2) };
                for _ in 0..r.range(1, 2) {
                    let t = *r.pick(data_types);
                    let d = data_for(r, t, &origin, &names);
                    recs.push((n.clone(), t, d));
                }
                names.push(n);
            }
            // wildcard
            1 => {
                let base = if r.chance(2, 3) { r.pick(&names).clone() } else { rand_name(r, &origin, labels, 2) };
                let mut n = vec![L_STAR];
                n.extend(base);
                for _ in 0..r.range(1, 2) {
                    let t = if r.chance(1, 8) { T_CNAME } else { *r.pick(data_types) };
                    let d = data_for(r, t, &origin, &names);
                    recs.push((n.clone(), t, d));
                }
                if r.chance(1, 4) {
                    // something below the wildcard owner
                    let mut m = vec![*r.pick(plain)];
                    m.extend(&n);
                    recs.push((m.clone(), T_TXT, Rd::Id(7)));
                    names.push(m);
                }
                names.push(n);
            }
            // random record anywhere
            2 => {
                let n = rand_name(r, &origin, labels, 3);
                let t = *r.pick(&[T_A, T_AAAA, T_MX, T_TXT, T_CNAME, T_NS, T_DS]);
                let d = data_for(r, t, &origin, &names);
                recs.push((n.clone(), t, d));
                names.push(n);
            }
            // single CNAME
            3 => {
                let n = rand_name(r, &origin, labels, 2);
                let d = data_for(r, T_CNAME, &origin, &names);
                recs.push((n.clone(), T_CNAME, d));
                names.push(n);
            }
            // CNAME chain, possibly looped / long
            4 => {
                let len = if r.chance(1, 4) { r.range(7, 10) } else { r.range(2, 4) };
                let chain_labels: &[u8] = &[1, 2, 3, 4, 5];
                let mut ns: Vec<Nm> = vec![];
                while (ns.len() as u64) < len {
                    let n = rand_name(r, &origin, chain_labels, 2);
                    if !ns.contains(&n) {
                        ns.push(n);
                    }
                }
                for i in 0..ns.len() - 1 {
                    recs.push((ns[i].clone(), T_CNAME, Rd::Nm(ns[i + 1].clone())));
                }
                let last = ns.last().unwrap().clone();
                match r.below(5) {
                    0 => recs.push((last, T_CNAME, Rd::Nm(ns[r.below(ns.len() as u64) as usize].clone()))),
                    1 => recs.push((last, T_CNAME, Rd::Nm(vec![1, L_OTHER]))),
                    2 => {}
                    _ => {
                        let t = *r.pick(data_types);
                        let d = data_for(r, t, &origin, &names);
                        recs.push((last, t, d));
                    }
                }
                names.extend(ns);
            }
            // delegation
            5 => {
                let n = if r.chance(1, 4) && names.len() > 1 { let mut m = vec![*r.pick(plain)]; m.extend(r.pick(&names[1..]).clone()); m } else { rand_name(r, &origin, plain, 2) };
                let glue_name = { let mut m = vec![*r.pick(plain)]; m.extend(&n); m };
                let target = match r.below(3) { 0 => vec![1, L_OTHER], _ => glue_name.clone() };
                recs.push((n.clone(), T_NS, Rd::Nm(target.clone())));
                if r.chance(1, 3) {
                    recs.push((n.clone(), T_NS, Rd::Nm(vec![2, L_OTHER])));
                }
                if r.chance(2, 3) {
                    recs.push((glue_name.clone(), T_A, Rd::Id(r.range(1, 9) as u8)));
                    if r.chance(1, 3) {
                        recs.push((glue_name.clone(), T_AAAA, Rd::Id(r.range(1, 9) as u8)));
                    }
                }
                if r.chance(1, 3) {
                    recs.push((n.clone(), T_DS, Rd::Id(r.range(1, 9) as u8)));
                }
                if r.chance(1, 4) {
                    // other data at the cut
                    recs.push((n.clone(), *r.pick(&[T_A, T_TXT]), Rd::Id(3)));
                }
                if r.chance(1, 5) {
                    // occluded data below the cut
                    let mut m = vec![*r.pick(labels)];
                    m.extend(&n);
                    recs.push((m, *r.pick(&[T_A, T_TXT, T_MX]), Rd::Id(4)));
                }
                if r.chance(1, 8) {
                    // nested cut
                    recs.push((glue_name.clone(), T_NS, Rd::Nm(vec![1, L_OTHER])));
                }
                names.push(n);
                names.push(glue_name);
            }
            // deep name (creates empty non-terminals)
            _ => {
                let mut n = rand_name(r, &origin, plain, 1);
                n.insert(0, *r.pick(labels));
                if r.chance(1, 2) {
                    n.insert(0, *r.pick(plain));
                }
                let t = *r.pick(data_types);
                let d = data_for(r, t, &origin, &names);
                recs.push((n.clone(), t, d));
                names.push(n);
            }
        }
    }
    if r.chance(1, 40) {
        // a record outside the zone (admitted by the store; outside the statement's zones)
        recs.push((vec![1, L_OTHER], T_A, Rd::Id(1)));
    }
    Gen { origin, recs, kind }
}

fn gen_queries(r: &mut Rng, origin: &Nm, zone: &[RrSet], nq: usize) -> Vec<Query> {
    // names in and around the zone
    let mut cand: Vec<Nm> = vec![];
    let push = |c: &mut Vec<Nm>, n: Nm| {
        if !c.contains(&n) && n.len() <= 6 {
            c.push(n);
        }
    };
    for s in zone {
        let mut n = s.name.clone();
        loop {
            push(&mut cand, n.clone());
            for l in [0u8, 1, 3] {
                let mut m = vec![l];
                m.extend(&n);
                push(&mut cand, m);
            }
            if n.len() <= origin.len() || n.is_empty() {
                break;
            }
            n.remove(0);
        }
        for d in &s.data {
            if let Rd::Nm(t) = d {
                push(&mut cand, t.clone());
            }
        }
    }
    // two levels below a few names
    for _ in 0..3 {
        let mut m = vec![*r.pick(&[0u8, 1, 2, 3]), *r.pick(&[0u8, 1, 2, 3])];
        m.extend(r.pick(&cand).clone());
        push(&mut cand, m);
    }
    push(&mut cand, vec![L_OTHER]);
    if origin.len() > 1 {
        push(&mut cand, origin[1..].to_vec());
    }
    let present: Vec<u16> = zone.iter().map(|s| s.ty).collect();
    let mut qs = vec![];
    for _ in 0..nq {
        let name = r.pick(&cand).clone();
        let ty = if r.chance(1, 2) { *r.pick(&present) } else { *r.pick(QTYPES) };
        qs.push(Query { name, ty, dnssec_ok: r.chance(1, 6), upper: r.chance(1, 10) });
    }
    qs
}


// ------------------------------------------------------------------------------------------
// hand-picked cases (indices 0..corpus().len(), the same under every seed)
// ------------------------------------------------------------------------------------------

struct Fixed {
    kind: &'static str,
    origin: Nm,
    recs: Vec<Rec>,
    queries: Vec<(Nm, u16)>,
}

fn chain_name(i: u8) -> Nm {
    vec![1 + i % 7, 1 + i / 7, L_EX]
}

fn nm(ls: &[u8]) -> Nm {
    ls.to_vec()
}

fn corpus() -> Vec<Fixed> {
    let ex = || nm(&[L_EX]);
    let apex = || vec![(nm(&[L_EX]), T_SOA, Rd::Soa), (nm(&[L_EX]), T_NS, Rd::Nm(nm(&[1, L_OTHER])))];
    let with = |mut v: Vec<Rec>, more: Vec<Rec>| {
        v.extend(more);
        v
    };
    let _ = ex;
    vec![
        // the example zone of RFC 4592 §2.2.1 (host1=a host2=b sub=c _tcp=d _ssh=e subdel=f; SRV replaced by TXT)
        Fixed {
            kind: "corpus-rfc4592",
            origin: nm(&[L_EX]),
            recs: with(
                apex(),
                vec![
                    (nm(&[L_EX]), T_NS, Rd::Nm(nm(&[2, L_OTHER]))),
                    (nm(&[0, L_EX]), T_TXT, Rd::Id(1)),
                    (nm(&[0, L_EX]), T_MX, Rd::Nm(nm(&[1, L_EX]))),
                    (nm(&[3, 0, L_EX]), T_TXT, Rd::Id(2)),
                    (nm(&[1, L_EX]), T_A, Rd::Id(1)),
                    (nm(&[5, 4, 1, L_EX]), T_TXT, Rd::Id(3)),
                    (nm(&[5, 4, 2, L_EX]), T_TXT, Rd::Id(4)),
                    (nm(&[6, L_EX]), T_NS, Rd::Nm(nm(&[1, L_OTHER]))),
                    (nm(&[6, L_EX]), T_NS, Rd::Nm(nm(&[2, L_OTHER]))),
                ],
            ),
            queries: vec![
                (nm(&[7, L_EX]), T_MX),          // host3.example MX: synthesised
                (nm(&[7, L_EX]), T_A),           // host3.example A: no error, no data
                (nm(&[7, 6 - 1, L_EX]), T_TXT),  // foo.bar.example TXT: synthesised (bar.example does not exist)
                (nm(&[1, L_EX]), T_MX),          // host1.example MX: exists, no synthesis
                (nm(&[3, 0, L_EX]), T_MX),       // sub.*.example MX: exists, no synthesis
                (nm(&[7, 4, 1, L_EX]), T_AAAA),  // _telnet._tcp.host1.example: _tcp.host1.example exists -> NXDOMAIN
                (nm(&[7, 4, 1, L_EX]), T_TXT),   // same, for a type the wildcard has
                (nm(&[1, 6, L_EX]), T_A),        // host.subdel.example A: referral
                (nm(&[7, 0, L_EX]), T_MX),       // ghost.*.example MX: *.example exists -> NXDOMAIN
                (nm(&[4, 1, L_EX]), T_TXT),      // _tcp.host1.example TXT: empty non-terminal
                (nm(&[0, L_EX]), T_MX),          // the wildcard owner itself
                (nm(&[0, 7, L_EX]), T_TXT),      // *.host3.example TXT: a "*"-labelled query name is synthesised too
                (nm(&[L_EX]), T_SOA),
                (nm(&[L_EX]), T_NS),
                (nm(&[L_EX]), T_ANY),
                (nm(&[L_OTHER]), T_A),
            ],
        },
        Fixed {
            kind: "corpus-cuts",
            origin: nm(&[L_EX]),
            recs: with(
                apex(),
                vec![
                    (nm(&[2, L_EX]), T_NS, Rd::Nm(nm(&[1, 2, L_EX]))),
                    (nm(&[1, 2, L_EX]), T_A, Rd::Id(1)),
                    (nm(&[2, L_EX]), T_DS, Rd::Id(2)),
                    (nm(&[3, 2, L_EX]), T_NS, Rd::Nm(nm(&[1, L_OTHER]))),
                    (nm(&[3, L_EX]), T_NS, Rd::Nm(nm(&[1, L_OTHER]))),
                    (nm(&[1, L_EX]), T_CNAME, Rd::Nm(nm(&[1, 3, L_EX]))),
                    (nm(&[4, L_EX]), T_MX, Rd::Nm(nm(&[1, 2, L_EX]))),
                ],
            ),
            queries: vec![
                (nm(&[2, L_EX]), T_A),       // referral
                (nm(&[1, 2, L_EX]), T_A),    // glue is not an answer: referral
                (nm(&[2, L_EX]), T_DS),      // DS at the cut: answered by the parent
                (nm(&[3, L_EX]), T_DS),      // no DS: NODATA with the parent's SOA
                (nm(&[1, 2, L_EX]), T_DS),   // DS below the cut: referral
                (nm(&[2, L_EX]), T_NS),      // NS at the cut
                (nm(&[1, 2, L_EX]), T_NS),   // NS below the cut
                (nm(&[2, L_EX]), T_ANY),
                (nm(&[1, 2, L_EX]), T_SOA),  // SOA below the cut
                (nm(&[7, 3, 2, L_EX]), T_A), // nested cuts
                (nm(&[1, L_EX]), T_A),       // CNAME into a delegation
                (nm(&[4, L_EX]), T_MX),      // MX whose exchange is glue
                (nm(&[L_EX]), T_NS),
                (nm(&[5, L_EX]), T_A),
                (nm(&[7, 5, L_EX]), T_A),
                (nm(&[L_EX]), T_DS),
            ],
        },
        Fixed {
            kind: "corpus-cname",
            origin: nm(&[L_EX]),
            recs: with(
                apex(),
                vec![
                    (nm(&[1, L_EX]), T_CNAME, Rd::Nm(nm(&[2, L_EX]))),
                    (nm(&[2, L_EX]), T_CNAME, Rd::Nm(nm(&[3, L_EX]))),
                    (nm(&[3, L_EX]), T_A, Rd::Id(1)),
                    (nm(&[4, L_EX]), T_CNAME, Rd::Nm(nm(&[7, L_EX]))),    // target does not exist
                    (nm(&[5, L_EX]), T_CNAME, Rd::Nm(nm(&[1, L_OTHER]))), // out of zone
                    (nm(&[6, L_EX]), T_CNAME, Rd::Nm(nm(&[6, 6, L_EX]))), // loop of two
                    (nm(&[6, 6, L_EX]), T_CNAME, Rd::Nm(nm(&[6, L_EX]))),
                    (nm(&[0, 3, L_EX]), T_CNAME, Rd::Nm(nm(&[3, L_EX]))), // wildcard CNAME
                    (nm(&[1, 1, L_EX]), T_CNAME, Rd::Nm(nm(&[1, 1, L_EX]))), // self loop
                ],
            ),
            queries: vec![
                (nm(&[1, L_EX]), T_A),
                (nm(&[1, L_EX]), T_CNAME),
                (nm(&[1, L_EX]), T_ANY),
                (nm(&[1, L_EX]), T_TXT),     // chain ends at a name without TXT
                (nm(&[4, L_EX]), T_A),       // chain ends at a name that does not exist
                (nm(&[5, L_EX]), T_A),
                (nm(&[6, L_EX]), T_A),
                (nm(&[1, 1, L_EX]), T_A),
                (nm(&[7, 3, L_EX]), T_A),    // synthesised CNAME, chased
                (nm(&[7, 3, L_EX]), T_ANY),  // ANY on a synthesised CNAME
                (nm(&[7, 3, L_EX]), T_CNAME),
                (nm(&[1, L_EX]), T_SOA),
                (nm(&[1, L_EX]), T_NS),
                (nm(&[1, L_EX]), T_MX),
                (nm(&[3, L_EX]), T_A),
                (nm(&[1, 1, L_EX]), T_ANY),
            ],
        },
        Fixed {
            kind: "corpus-long-chain",
            origin: nm(&[L_EX]),
            recs: with(
                apex(),
                (0u8..9)
                    .map(|i| (chain_name(i), T_CNAME, Rd::Nm(chain_name(i + 1))))
                    .chain([(chain_name(9), T_A, Rd::Id(1))])
                    .collect(),
            ),
            queries: (0u8..10).map(|i| (chain_name(i), T_A)).chain([(chain_name(0), T_TXT), (chain_name(2), T_TXT), (chain_name(1), T_CNAME)]).collect(),
        },
    ]
}

// ------------------------------------------------------------------------------------------
// case
// ------------------------------------------------------------------------------------------

const NQ: usize = 16;

thread_local! {
    /// per known class: (queries in the class, of which the reference rejects the real reply); index 0 = no class
    static CLASS_STATS: std::cell::RefCell<[(u64, u64); 9]> = const { std::cell::RefCell::new([(0, 0); 9]) };
}

fn case(rt: &tokio::runtime::Runtime, seed: u64, index: u64, verbose: bool) -> CaseOut {
    let mut r = Rng::for_case(seed, index);
    let fixed = corpus();
    // every sixth generated zone is signed (alternating NSEC / NSEC3) and queried with DO: these cases are
    // judged by the reference and the structural DNSSEC oracle only (not modelled in Coq)
    let signed: Option<bool> = if (index as usize) >= fixed.len() && index % 6 == 5 { Some(index % 12 == 11) } else { None };
    let (g, b, qs) = if (index as usize) < fixed.len() {
        let f = &fixed[index as usize];
        let g = Gen { origin: f.origin.clone(), recs: f.recs.clone(), kind: f.kind };
        let b = build(rt, &g.origin, &g.recs, None);
        let qs = f.queries.iter().map(|(n, t)| Query { name: n.clone(), ty: *t, dnssec_ok: false, upper: false }).collect();
        (g, b, qs)
    } else {
        let g = gen_zone(&mut r);
        let b = build(rt, &g.origin, &g.recs, signed);
        let mut qs = gen_queries(&mut r, &g.origin, &b.zone, NQ);
        if signed.is_some() {
            for q in qs.iter_mut() {
                q.dnssec_ok = true;
                if q.ty == T_ANY {
                    q.ty = T_A;
                }
            }
        }
        (g, b, qs)
    };
    let zone_ok = wf(&b.zone, &g.origin);
    let mut qbytes: Vec<u8> = vec![];
    let mut fails: Vec<(u8, String)> = vec![];
    let mut lines = vec![];
    for (i, q) in qs.iter().enumerate() {
        let bytes = wire_query(0x1000 + i as u16, q);
        let mut signed_class = 0u8;
        let (obs, verdict) = match drive(rt, &b.ctx, &bytes) {
            Ok(o) => {
                let e = rfc_answer(&b.zone, &g.origin, &q.name, q.ty);
                let v = if !zone_ok {
                    None
                } else if signed.is_some() {
                    if known_class(&b.zone, &g.origin, &q.name, q.ty) != 0 {
                        None
                    } else {
                        let v = judge(&b.zone, &g.origin, &e, &strip_dnssec(&o)).or_else(|| dnssec_judge(&b.zone, &g.origin, &e, &o));
                        if q.ty == T_SOA && e.as_ref().is_some_and(|e| e.wild) {
                            signed_class = K_SOA_WILD_PROOF;
                        } else if signed == Some(false) && b.zone.iter().all(|s| s.name == g.origin) && e.as_ref().is_some_and(|e| e.auth == Auth::Soa) {
                            signed_class = K_SINGLE_NSEC;
                        }
                        v
                    }
                } else {
                    judge(&b.zone, &g.origin, &e, &o)
                };
                (o, v)
            }
            Err(e) => (Obs { rcode: 99, aa: false, ans: vec![], auth: vec![], add: vec![] }, Some(format!("no single decodable reply: {e}"))),
        };
        let k = if signed_class != 0 {
            signed_class
        } else if zone_ok {
            known_class(&b.zone, &g.origin, &q.name, q.ty)
        } else {
            0
        };
        let qd = format!("{} {}{}{}", name_str(&q.name), ty_str(q.ty), if q.dnssec_ok { " +do" } else { "" }, if q.upper { " +upper" } else { "" });
        if zone_ok && signed.is_none() {
            CLASS_STATS.with(|c| {
                let mut c = c.borrow_mut();
                c[k as usize].0 += 1;
                if verdict.is_some() {
                    c[k as usize].1 += 1;
                }
            });
        }
        if let Some(why) = &verdict {
            fails.push((k, format!("query {qd}: {why}; reply {}", obs_str(&obs))));
        }
        if verbose {
            lines.push(format!("  q{i}: {qd} -> {} {}", obs_str(&obs), verdict.as_ref().map(|w| format!("ORACLE: {w} (class {k})")).unwrap_or_default()));
        }
        ser_name(&mut qbytes, &q.name);
        ser_u16(&mut qbytes, q.ty);
        ser_obs(&mut qbytes, &obs);
        qbytes.push(verdict.is_none() as u8);
        qbytes.push(k);
    }
    let mut bytes = vec![signed.is_none() as u8];
    ser_name(&mut bytes, &g.origin);
    bytes.push(zone_ok as u8);
    ser_zone(&mut bytes, &b.zone);
    ser_count(&mut bytes, qs.len());
    bytes.extend(qbytes);
    let coq = coq_pb(&bytes);
    // a case is "known" only if every failing query is in a known class; the first unknown failure wins
    let unknown: Vec<&(u8, String)> = fails.iter().filter(|f| known_id(f.0).is_none()).collect();
    let (oracle_fail, known) = if let Some(f) = unknown.first() {
        (Some(f.1.clone()), None)
    } else if let Some(f) = fails.first() {
        (Some(f.1.clone()), known_id(f.0).map(|s| s.to_string()))
    } else {
        (None, None)
    };
    let mut text = format!(
        "{}zone {} [{}] wf={} rejected={} queries={}: {}",
        match signed {
            Some(false) => "NSEC-signed ",
            Some(true) => "NSEC3-signed ",
            None => "",
        },
        name_str(&g.origin),
        zone_str(&b.zone),
        zone_ok,
        b.rejected,
        qs.len(),
        qs.iter().map(|q| format!("{} {}", name_str(&q.name), ty_str(q.ty))).collect::<Vec<_>>().join(", ")
    );
    if verbose {
        text.push('\n');
        text.push_str(&lines.join("\n"));
    }
    let key = format!("{:?}|{:?}|{:?}", g.origin, b.zone, qs.iter().map(|q| (&q.name, q.ty)).collect::<Vec<_>>());
    CaseOut {
        index,
        coq,
        text,
        key,
        nontrivial: b.zone.len() >= 3,
        kind: match (zone_ok, signed) {
            (false, _) => "outside-statement-zone".into(),
            (true, Some(false)) => "signed-nsec".into(),
            (true, Some(true)) => "signed-nsec3".into(),
            (true, None) => g.kind.to_string(),
        },
        oracle_fail,
        known,
    }
}

fn main() {
    quiet_panics();
    let args = parse_args();
    let rt = tokio::runtime::Builder::new_current_thread().enable_all().build().unwrap();
    if let Some((seed, index)) = args.replay {
        let c = case(&rt, seed, index, true);
        println!("{}", c.text);
        println!("COQ {}", c.coq);
        if let Some(f) = c.oracle_fail {
            println!("ORACLE-FAIL {f}");
        }
        return;
    }
    if std::env::var("VPH_SHARD").is_err() {
        // one shard per Coq evaluator (16): start-up of a coqc dominates small shards
        std::env::set_var("VPH_SHARD", (args.n / 16 + 1).clamp(16, 4000).to_string());
    }
    let mut cases = vec![];
    for index in 0..args.n {
        cases.push(case(&rt, args.seed, index, false));
    }
    emit(
        "C10",
        "C10",
        &args,
        &cases,
        "one case = one generated zone (apex SOA/NS + 1..6 features: hosts, wildcards at several depths, CNAMEs/chains/loops/long chains, delegations with/without glue/DS/occluded data/nested cuts, deep names creating empty non-terminals, random records) loaded into a real InMemoryZoneHandler, and 16 queries over names in and around the zone x qtypes {A,AAAA,MX,NS,CNAME,SOA,DS,TXT,ANY}, some with DO / upper-case; every sixth generated zone is signed (NSEC / NSEC3 alternating) and queried with DO (reference + structural DNSSEC oracle only). Non-trivial = zone has at least 3 RRsets; distinct by (zone, queries).",
        serde_json::json!({
            "queries_per_case": NQ,
            "queries_by_class_[in_class,rejected_by_reference]": CLASS_STATS.with(|c| {
                let c = c.borrow();
                (0..9u8).map(|k| (known_id(k).unwrap_or("none").to_string(), serde_json::json!([c[k as usize].0, c[k as usize].1]))).collect::<serde_json::Map<_, _>>()
            }),
        }),
    );
}
