//! C06 — drives the real `DnssecDnsHandle::send` (hickory-net) over a scripted upstream
//! `DnsHandle` and a `RuntimeProvider` whose clock is a harness-controlled atomic.
//!
//! Case = history: trust anchors + steps (validator clock, sleep, query, answer section as
//! delivered by the upstream, DNSKEY RRsets served for signer names).  Observation per step =
//! error class or (proof, ttl) of every answer record.  The signatures are real (ring through
//! hickory's SigningKey): the harness signs its OWN encoding of RFC 4034 3.1.8.1, so a
//! `Secure` verdict also needs hickory's reconstruction of the signed data to agree with it.
//!
//! Direct oracle (independent of the Coq model): a record may be `Secure` only if the answer
//! carries an RRSIG and the served DNSKEY RRset a key such that every RFC 4035 5.3.1 condition
//! holds at the current clock, the signature is a genuine signature by that key over the
//! canonical form of exactly the presented RRset, and the returned TTL is within
//! min(original TTL, expiration - now).

use std::collections::{BTreeMap, HashMap};
use std::future::Future;
use std::io;
use std::net::{Ipv4Addr, Ipv6Addr, SocketAddr};
use std::pin::Pin;
use std::sync::atomic::{AtomicU64, Ordering};
use std::sync::{Arc, Mutex, OnceLock};
use std::time::Duration;

use futures_util::stream::{self, Stream, StreamExt};
use hickory_net::dnssec::DnssecDnsHandle;
use hickory_net::proto::dnssec::crypto::{EcdsaSigningKey, Ed25519SigningKey, RsaSigningKey};
use hickory_net::proto::dnssec::rdata::{DNSSECRData, SigInput, DNSKEY, RRSIG};
use hickory_net::proto::dnssec::{Algorithm, Proof, PublicKey, PublicKeyBuf, SigningKey, TrustAnchors, TBS};
use hickory_net::proto::op::{DnsRequest, DnsRequestOptions, DnsResponse, Message, OpCode, Query};
use hickory_net::proto::rr::rdata::{MX, NS, NULL, TXT};
use hickory_net::proto::rr::{DNSClass, Name, RData, Record, RecordType, SerialNumber};
use hickory_net::runtime::{RuntimeProvider, Time, TokioRuntimeProvider, TokioTime};
use hickory_net::xfer::DnsHandle;
use hickory_net::{DnsError, NetError};
use vph::*;

// ------------------------------------------------------------------------------------------
// controllable validator clock
// ------------------------------------------------------------------------------------------

static CLOCK: AtomicU64 = AtomicU64::new(0);

#[derive(Clone, Copy)]
struct MockTime;

#[async_trait::async_trait]
impl Time for MockTime {
    async fn delay_for(duration: Duration) {
        TokioTime::delay_for(duration).await
    }
    async fn timeout<F: 'static + Future + Send>(duration: Duration, future: F) -> Result<F::Output, io::Error> {
        TokioTime::timeout(duration, future).await
    }
    fn current_time() -> u64 {
        CLOCK.load(Ordering::SeqCst)
    }
}

#[derive(Clone)]
struct MockRuntime(TokioRuntimeProvider);

impl RuntimeProvider for MockRuntime {
    type Handle = <TokioRuntimeProvider as RuntimeProvider>::Handle;
    type Timer = MockTime;
    type Udp = <TokioRuntimeProvider as RuntimeProvider>::Udp;
    type Tcp = <TokioRuntimeProvider as RuntimeProvider>::Tcp;

    fn create_handle(&self) -> Self::Handle {
        self.0.create_handle()
    }
    fn connect_tcp(
        &self,
        server_addr: SocketAddr,
        bind_addr: Option<SocketAddr>,
        timeout: Option<Duration>,
    ) -> Pin<Box<dyn Send + Future<Output = Result<Self::Tcp, io::Error>>>> {
        self.0.connect_tcp(server_addr, bind_addr, timeout)
    }
    fn bind_udp(
        &self,
        local_addr: SocketAddr,
        server_addr: SocketAddr,
    ) -> Pin<Box<dyn Send + Future<Output = Result<Self::Udp, io::Error>>>> {
        self.0.bind_udp(local_addr, server_addr)
    }
}

// ------------------------------------------------------------------------------------------
// scripted upstream
// ------------------------------------------------------------------------------------------

type Table = HashMap<(Vec<Vec<u8>>, u16), Vec<Record>>;

#[derive(Clone)]
struct Upstream {
    table: Arc<Mutex<Table>>,
}

impl DnsHandle for Upstream {
    type Response = Pin<Box<dyn Stream<Item = Result<DnsResponse, NetError>> + Send>>;
    type Runtime = MockRuntime;

    fn send(&self, request: DnsRequest) -> Self::Response {
        let res = (|| {
            let q = request.queries.first().cloned().ok_or_else(|| NetError::from("no query"))?;
            let key = (lower_labels(&q.name), u16::from(q.query_type));
            let t = self.table.lock().unwrap();
            let recs = t.get(&key).ok_or_else(|| NetError::from("scripted upstream: no data"))?;
            let mut m = Message::response(request.id, OpCode::Query);
            m.add_query(q);
            m.add_answers(recs.iter().cloned());
            DnsResponse::from_message(m).map_err(NetError::from)
        })();
        Box::pin(stream::once(futures_util::future::ready(res)))
    }
}

fn lower_labels(n: &Name) -> Vec<Vec<u8>> {
    n.iter().map(|l| l.to_ascii_lowercase()).collect()
}

// ------------------------------------------------------------------------------------------
// keys
// ------------------------------------------------------------------------------------------

struct KeyMat {
    alg: u8,
    pk: Vec<u8>,
    signer: Box<dyn SigningKey>,
}

// throw-away test keys (PKCS#8) generated once with `c06 --genkeys 1` (ring), so that cases are reproducible
const EXTRA_ED25519: &[&str] = &[
    "3051020101300506032b657004220420cbc24053634050c27c30f41f8fdbd0e0873c9f2b32adbcd7649394492d5f11f681210085956c409e8344989e4dd24c03488a9b67116d889c32e67219a5f2c04a90e6cd",
    "3051020101300506032b6570042204204f8738d78daf9ef9e242461f68ea44a6efe1144dc0d41c80411a01eb5248f3e6812100d7d3b65147b4b052e460bf9213c8aafb0b06d02b6f4e469718f4bf95d70f4b6d",
    "3051020101300506032b657004220420727a714fbe43fff8905a77c8b75bfc9e94e12d97c7549951e0af94d16094a8e381210096b7fc8e8511f83c1016a983cb4aa3bd3b1bdd912b133a78869b6de1c558fae6",
];
const EXTRA_P256: &[&str] = &[
    "308187020100301306072a8648ce3d020106082a8648ce3d030107046d306b0201010420416a06e9b47e9db5214086a907250db370a4f2042af30fc6eee502d8362a6f40a144034200049835597aca2b745fbe48dedad7777a2044dc4c0f2eaba3277ca0e46e0870e7fa2d61f8a90c84417af95b41ae638c0437cee40e2c89ca0609886439749d9f52ce",
    "308187020100301306072a8648ce3d020106082a8648ce3d030107046d306b0201010420cac941d3d0f5af148c3695fb51ff56387b9f0819823ffb13b1df69abb204793aa1440342000446dd431d365657dce593f9f31af4d040911fd16ed12d23baeeaadaf13f5ce22ddcb90a7710b264afb9ce4bae6996fd27b063bc772c58fc9cba62e236673420c1",
];

fn pool() -> &'static Vec<KeyMat> {
    static POOL: OnceLock<Vec<KeyMat>> = OnceLock::new();
    POOL.get_or_init(|| {
        let mut v: Vec<KeyMat> = vec![];
        let dir = "/repo/tests/test-data/test_configs/dnssec";
        let mut add = |s: Box<dyn SigningKey>| {
            let pk = s.to_public_key().unwrap();
            v.push(KeyMat { alg: u8::from(s.algorithm()), pk: pk.public_bytes().to_vec(), signer: s });
        };
        let rd = |f: &str| std::fs::read(format!("{dir}/{f}")).unwrap();
        add(Box::new(Ed25519SigningKey::from_pkcs8(&rd("ed25519.pk8").into()).unwrap()));
        add(Box::new(
            EcdsaSigningKey::from_pkcs8(&rd("ecdsa_p256.pk8").into(), Algorithm::ECDSAP256SHA256).unwrap(),
        ));
        for h in EXTRA_ED25519 {
            add(Box::new(Ed25519SigningKey::from_pkcs8(&unhex(h).into()).unwrap()));
        }
        for h in EXTRA_P256 {
            add(Box::new(
                EcdsaSigningKey::from_pkcs8(&unhex(h).into(), Algorithm::ECDSAP256SHA256).unwrap(),
            ));
        }
        add(Box::new(
            EcdsaSigningKey::from_pkcs8(&rd("ecdsa_p384.pk8").into(), Algorithm::ECDSAP384SHA384).unwrap(),
        ));
        add(Box::new(RsaSigningKey::from_pkcs8(&rd("rsa_2048.pk8").into(), Algorithm::RSASHA256).unwrap()));
        v
    })
}
const N_FAST_KEYS: u64 = 8; // indices 0..8 are Ed25519 / ECDSA; 8 = RSA (slow to sign in a debug build)

// ------------------------------------------------------------------------------------------
// harness-side data (independent of hickory's types)
// ------------------------------------------------------------------------------------------

type MName = Vec<Vec<u8>>;

#[derive(Clone, Debug, PartialEq)]
enum MData {
    A([u8; 4]),
    Aaaa([u8; 16]),
    Txt(Vec<Vec<u8>>),
    Mx(u16, MName),
    Ns(MName),
    Opaque(u16, Vec<u8>),
}

#[derive(Clone, Debug)]
struct MRec {
    name: MName,
    class: u16,
    ttl: u32,
    data: MData,
}

#[derive(Clone, Debug)]
enum SigV {
    /// real signature by pool key `key` over `msg`
    Genuine { key: usize, msg: Vec<u8>, bytes: Vec<u8> },
    /// anything else
    Corrupt { bytes: Vec<u8> },
}

#[derive(Clone, Debug)]
struct MSig {
    name: MName,
    class: u16,
    ttl: u32,
    tc: u16,
    alg: u8,
    labels: u8,
    ottl: u32,
    exp: u32,
    inc: u32,
    tag: u16,
    signer: MName,
    sig: SigV,
}

#[derive(Clone, Debug)]
enum MAns {
    R(MRec),
    S(MSig),
}

#[derive(Clone, Debug)]
struct MKey {
    name: MName,
    ttl: u32,
    flags: u16,
    alg: u8,
    pk: Vec<u8>,
}

#[derive(Clone, Debug)]
struct Step {
    now: u64,
    sleep_ms: u64,
    qname: MName,
    qtype: u16,
    answers: Vec<MAns>,
    /// DNSKEY RRsets served per signer name (None: the lookup fails)
    keysets: Vec<(MName, Option<Vec<MKey>>)>,
    note: String,
    /// unmodified base case in canonical order: must be accepted when the clock is inside the window
    expect_secure: bool,
}

#[derive(Clone, Debug)]
struct Hist {
    anchors: Vec<(u8, Vec<u8>)>,
    steps: Vec<Step>,
    kind: String,
}

#[derive(Clone, Debug, PartialEq)]
enum Obs {
    Err(u8), // 1 = Nsec error, 2 = other, 9 = panic (the history stops there)
    Ok(Vec<(u8, u32)>),
}

fn lower(n: &MName) -> MName {
    n.iter().map(|l| l.to_ascii_lowercase()).collect()
}
fn name_eq(a: &MName, b: &MName) -> bool {
    lower(a) == lower(b)
}
fn wire_name(n: &MName) -> Vec<u8> {
    let mut v = vec![];
    for l in n {
        v.push(l.len() as u8);
        v.extend_from_slice(l);
    }
    v.push(0);
    v
}
fn show_name(n: &MName) -> String {
    if n.is_empty() {
        return ".".into();
    }
    let mut s = String::new();
    for l in n {
        for &b in l {
            if b.is_ascii_alphanumeric() || b == b'-' || b == b'*' || b == b'_' {
                s.push(b as char);
            } else {
                s.push_str(&format!("\\{:03}", b));
            }
        }
        s.push('.');
    }
    s
}
fn count_labels(n: &MName) -> usize {
    if n.first().map(|l| l.as_slice() == b"*").unwrap_or(false) {
        n.len() - 1
    } else {
        n.len()
    }
}

impl MData {
    fn rtype(&self) -> u16 {
        match self {
            MData::A(_) => 1,
            MData::Ns(_) => 2,
            MData::Mx(..) => 15,
            MData::Txt(_) => 16,
            MData::Aaaa(_) => 28,
            MData::Opaque(t, _) => *t,
        }
    }
    /// RDATA wire bytes as given (names keep their case)
    fn raw(&self) -> Vec<u8> {
        match self {
            MData::A(a) => a.to_vec(),
            MData::Aaaa(a) => a.to_vec(),
            MData::Txt(ss) => {
                let mut v = vec![];
                for s in ss {
                    v.push(s.len() as u8);
                    v.extend_from_slice(s);
                }
                v
            }
            MData::Mx(p, n) => {
                let mut v = p.to_be_bytes().to_vec();
                v.extend(wire_name(n));
                v
            }
            MData::Ns(n) => wire_name(n),
            MData::Opaque(_, b) => b.clone(),
        }
    }
    /// RFC 4034 6.2 canonical RDATA
    fn canon(&self) -> Vec<u8> {
        match self {
            MData::Mx(p, n) => MData::Mx(*p, lower(n)).raw(),
            MData::Ns(n) => MData::Ns(lower(n)).raw(),
            d => d.raw(),
        }
    }
    fn to_rdata(&self) -> RData {
        match self {
            MData::A(a) => RData::A(Ipv4Addr::from(*a).into()),
            MData::Aaaa(a) => RData::AAAA(Ipv6Addr::from(*a).into()),
            MData::Txt(ss) => RData::TXT(TXT::from_bytes(ss.iter().map(|s| s.as_slice()).collect())),
            MData::Mx(p, n) => RData::MX(MX::new(*p, hname(n))),
            MData::Ns(n) => RData::NS(NS(hname(n))),
            MData::Opaque(t, b) => RData::Unknown { code: RecordType::from(*t), rdata: NULL::with(b.clone()) },
        }
    }
}

fn hname(n: &MName) -> Name {
    Name::from_labels(n.iter().map(|l| l.as_slice())).unwrap()
}

impl MRec {
    fn to_record(&self) -> Record {
        let mut r = Record::from_rdata(hname(&self.name), self.ttl, self.data.to_rdata());
        r.dns_class = DNSClass::from(self.class);
        r
    }
}
impl SigV {
    fn bytes(&self) -> &[u8] {
        match self {
            SigV::Genuine { bytes, .. } | SigV::Corrupt { bytes } => bytes,
        }
    }
}
impl MSig {
    fn to_record(&self) -> Record {
        let input = SigInput {
            type_covered: RecordType::from(self.tc),
            algorithm: Algorithm::from_u8(self.alg),
            num_labels: self.labels,
            original_ttl: self.ottl,
            sig_expiration: SerialNumber::new(self.exp),
            sig_inception: SerialNumber::new(self.inc),
            key_tag: self.tag,
            signer_name: hname(&self.signer),
        };
        let rrsig = RRSIG::from_sig(input, self.sig.bytes().to_vec());
        let mut r = Record::from_rdata(hname(&self.name), self.ttl, RData::DNSSEC(DNSSECRData::RRSIG(rrsig)));
        r.dns_class = DNSClass::from(self.class);
        r
    }
}
impl MKey {
    fn rdata(&self) -> Vec<u8> {
        let mut v = self.flags.to_be_bytes().to_vec();
        v.push(3);
        v.push(self.alg);
        v.extend_from_slice(&self.pk);
        v
    }
    /// RFC 4034 appendix B
    fn tag(&self) -> u16 {
        let mut ac: u64 = 0;
        for (i, b) in self.rdata().iter().enumerate() {
            ac += if i & 1 == 1 { *b as u64 } else { (*b as u64) << 8 };
        }
        ac += (ac >> 16) & 0xFFFF;
        (ac & 0xFFFF) as u16
    }
    fn to_record(&self) -> Record {
        let k = DNSKEY::with_flags(self.flags, PublicKeyBuf::new(self.pk.clone(), Algorithm::from_u8(self.alg)));
        Record::from_rdata(hname(&self.name), self.ttl, RData::DNSSEC(DNSSECRData::DNSKEY(k)))
    }
}

/// RFC 4034 3.1.8.1 signed data for `recs` (all taken as the RRset) under the RRSIG fields of
/// `s`; None if the Labels field is above the owner's label count
fn spec_tbs(owner: &MName, class: u16, s: &MSig, recs: &[&MRec]) -> Option<Vec<u8>> {
    let fq = count_labels(owner);
    let l = s.labels as usize;
    let nm: MName = if l == fq {
        lower(owner)
    } else if l < fq {
        let lo = lower(owner);
        let mut v = vec![b"*".to_vec()];
        v.extend_from_slice(&lo[lo.len() - l..]);
        v
    } else {
        return None;
    };
    let mut out = vec![];
    out.extend_from_slice(&s.tc.to_be_bytes());
    out.push(s.alg);
    out.push(s.labels);
    out.extend_from_slice(&s.ottl.to_be_bytes());
    out.extend_from_slice(&s.exp.to_be_bytes());
    out.extend_from_slice(&s.inc.to_be_bytes());
    out.extend_from_slice(&s.tag.to_be_bytes());
    out.extend(wire_name(&lower(&s.signer)));
    let mut rds: Vec<Vec<u8>> = recs.iter().map(|r| r.data.canon()).collect();
    rds.sort();
    for rd in rds {
        out.extend(wire_name(&nm));
        out.extend_from_slice(&s.tc.to_be_bytes());
        out.extend_from_slice(&class.to_be_bytes());
        out.extend_from_slice(&s.ottl.to_be_bytes());
        out.extend_from_slice(&(rd.len() as u16).to_be_bytes());
        out.extend(rd);
    }
    Some(out)
}

/// a <= b in RFC 1982 arithmetic on 32 bits, as "distance forward from a to b below 2^31"
fn serial_le(a: u32, b: u32) -> bool {
    (b.wrapping_sub(a) as u64) < (1u64 << 31)
}

// ------------------------------------------------------------------------------------------
// running a history on the implementation
// ------------------------------------------------------------------------------------------

thread_local! {
    static PANIC_MSG: std::cell::RefCell<String> = std::cell::RefCell::new(String::new());
}

fn run_hist(h: &Hist) -> Vec<Obs> {
    let table: Arc<Mutex<Table>> = Arc::new(Mutex::new(HashMap::new()));
    let up = Upstream { table: table.clone() };
    let mut anchors = TrustAnchors::empty();
    for (alg, pk) in &h.anchors {
        anchors.insert(&PublicKeyBuf::new(pk.clone(), Algorithm::from_u8(*alg)));
    }
    let handle = DnssecDnsHandle::with_trust_anchor(up, Arc::new(anchors));
    let mut out = vec![];
    for st in &h.steps {
        if st.sleep_ms > 0 {
            std::thread::sleep(Duration::from_millis(st.sleep_ms));
        }
        CLOCK.store(st.now, Ordering::SeqCst);
        {
            let mut t = table.lock().unwrap();
            t.clear();
            let recs: Vec<Record> = st
                .answers
                .iter()
                .map(|a| match a {
                    MAns::R(r) => r.to_record(),
                    MAns::S(s) => s.to_record(),
                })
                .collect();
            t.insert((lower(&st.qname), st.qtype), recs);
            for (zone, ks) in &st.keysets {
                if let Some(ks) = ks {
                    t.insert((lower(zone), 48), ks.iter().map(|k| k.to_record()).collect());
                }
            }
        }
        let q = Query::new(hname(&st.qname), RecordType::from(st.qtype));
        let req = DnsRequest::from_query(q, DnsRequestOptions::default());
        let hd = handle.clone();
        let res = match guard(std::panic::AssertUnwindSafe(move || {
            let mut s = hd.send(req);
            futures_executor::block_on(s.next())
        })) {
            Ok(r) => r,
            Err(e) => {
                PANIC_MSG.with(|m| *m.borrow_mut() = e);
                out.push(Obs::Err(9));
                break;
            }
        };
        out.push(match res {
            Some(Ok(resp)) => Obs::Ok(
                resp.answers
                    .iter()
                    .map(|r| {
                        let p = match r.proof {
                            Proof::Secure => 3,
                            Proof::Insecure => 2,
                            Proof::Bogus => 1,
                            Proof::Indeterminate => 0,
                        };
                        (p, r.ttl)
                    })
                    .collect(),
            ),
            Some(Err(NetError::Dns(DnsError::Nsec { .. }))) => Obs::Err(1),
            Some(Err(_)) | None => Obs::Err(2),
        });
    }
    out
}

// ------------------------------------------------------------------------------------------
// direct oracle
// ------------------------------------------------------------------------------------------

fn group_of<'a>(st: &'a Step, name: &MName, rtype: u16) -> (Vec<&'a MRec>, Vec<&'a MSig>) {
    let mut rs = vec![];
    let mut ss = vec![];
    for a in &st.answers {
        match a {
            MAns::R(r) if name_eq(&r.name, name) && r.data.rtype() == rtype => rs.push(r),
            MAns::S(s) if name_eq(&s.name, name) && s.tc == rtype => ss.push(s),
            _ => {}
        }
    }
    (rs, ss)
}

/// what justifies `Secure` for the RRset (name, rtype) of this step: Some(max ttl) if some
/// (RRSIG, DNSKEY) pair of the step satisfies the statement, with `window`/`ttl` evaluated at
/// clock `now`
fn justified(h: &Hist, st: &Step, name: &MName, rtype: u16, now: u32, check_time: bool) -> Option<u32> {
    let (rs, ss) = group_of(st, name, rtype);
    if rs.is_empty() {
        return None;
    }
    let mut best: Option<u32> = None;
    for s in ss {
        if s.class != 1 || rs.iter().any(|r| r.class != 1) {
            continue;
        }
        if (s.labels as usize) > count_labels(name) {
            continue;
        }
        if check_time && !(serial_le(s.inc, now) && serial_le(now, s.exp)) {
            continue;
        }
        let Some(canon) = spec_tbs(name, 1, s, &rs) else { continue };
        let SigV::Genuine { key, msg, .. } = &s.sig else { continue };
        if *msg != canon {
            continue;
        }
        for (zone, ks) in &st.keysets {
            let Some(ks) = ks else { continue };
            if !name_eq(zone, &s.signer) {
                continue;
            }
            for k in ks {
                let km = &pool()[*key];
                let ok = name_eq(&k.name, &s.signer)
                    && k.flags & 0x0100 != 0
                    && k.flags & 0x0080 == 0
                    && k.alg == s.alg
                    && k.tag() == s.tag
                    && k.alg == km.alg
                    && k.pk == km.pk
                    && h.anchors.iter().any(|(a, p)| *a == k.alg && *p == k.pk)
                    // every key of the served DNSKEY RRset must be trusted for the RRset to be Secure
                    && ks.iter().all(|k2| h.anchors.iter().any(|(a, p)| *a == k2.alg && *p == k2.pk));
                if ok {
                    let remaining = s.exp.wrapping_sub(now);
                    let rx = rs.iter().map(|r| r.ttl).max().unwrap();
                    let bound = s.ottl.min(remaining).min(rx);
                    best = Some(best.map_or(bound, |b: u32| b.max(bound)));
                }
            }
        }
    }
    best
}

/// content of the RRset with everything the cache key ignores removed (TTLs, case, label
/// boundaries of owner / query / signer names)
fn content_key(st: &Step, name: &MName, rtype: u16) -> String {
    let (rs, ss) = group_of(st, name, rtype);
    let flat = |n: &MName| hex(&lower(n).concat());
    let mut s = format!("q={}/{} k={}/{}", flat(&st.qname), st.qtype, flat(name), rtype);
    for r in rs {
        s += &format!(" r({},{},{})", flat(&r.name), r.class, hex(&r.data.canon()));
    }
    for g in ss {
        s += &format!(
            " s({},{},{},{},{},{},{},{},{},{},{})",
            flat(&g.name),
            g.class,
            g.tc,
            g.alg,
            g.labels,
            g.ottl,
            g.exp,
            g.inc,
            g.tag,
            flat(&g.signer),
            hex(g.sig.bytes())
        );
    }
    s
}

/// strict content (label boundaries kept)
fn strict_key(st: &Step, name: &MName, rtype: u16) -> String {
    let (rs, ss) = group_of(st, name, rtype);
    let mut s = format!("{}|{}", show_name(&lower(&st.qname)), show_name(&lower(name)));
    for r in rs {
        s += &show_name(&lower(&r.name));
    }
    for g in ss {
        s += &show_name(&lower(&g.name));
        s += &show_name(&lower(&g.signer));
    }
    s
}

struct Verdict {
    fail: Option<String>,
    known: Option<String>,
}

fn oracle(h: &Hist, obs: &[Obs]) -> Verdict {
    let mut fails: Vec<(String, Option<&'static str>)> = vec![];
    // earlier justified-Secure validations: content key -> (strict key, step)
    let mut origins: Vec<(String, String, usize)> = vec![];
    for (i, (st, o)) in h.steps.iter().zip(obs).enumerate() {
        let now = st.now as u32;
        if *o == Obs::Err(9) {
            let msg = PANIC_MSG.with(|m| m.borrow().clone());
            // (the panic on an RRSIG covering DNSKEY without DNSKEY records was repaired in fed49c5;
            // its witness stays as fixed case 3 and must not panic)
            fails.push((format!("step {i}: panic in the validator: {msg}"), None));
            continue;
        }
        // completeness on unmodified inputs: a genuine signature inside its window by a served,
        // trusted zone key must be accepted (wildcard signatures need NSEC: Nsec error instead)
        if st.expect_secure {
            let ok = match o {
                Obs::Ok(rows) => rows.iter().zip(&st.answers).all(|((p, _), a)| *p == 3 || !matches!(a, MAns::R(_))),
                Obs::Err(1) => st.answers.iter().any(|a| matches!(a, MAns::S(s) if (s.labels as usize) < count_labels(&s.name))),
                _ => false,
            };
            if !ok && justified(h, st, &st.qname, st.qtype, now, true).is_some() {
                fails.push((format!("step {i}: unmodified RRset with a genuine signature inside its validity window (clock {now}) was not accepted"), None));
            }
        }
        let Obs::Ok(rows) = o else { continue };
        if rows.len() != st.answers.len() {
            fails.push((format!("step {i}: {} answer records returned for {} sent", rows.len(), st.answers.len()), None));
            continue;
        }
        for (a, (p, ttl)) in st.answers.iter().zip(rows) {
            let MAns::R(r) = a else { continue };
            if *p != 3 {
                continue;
            }
            let rtype = r.data.rtype();
            let ck = content_key(st, &r.name, rtype);
            let sk = strict_key(st, &r.name, rtype);
            match justified(h, st, &r.name, rtype, now, true) {
                Some(bound) => {
                    if *ttl > bound {
                        let cached = origins.iter().any(|(c, _, _)| *c == ck);
                        fails.push((
                            format!(
                                "step {i}: {} type {} Secure with ttl {} above min(original ttl, expiration-now, received ttl) = {}{}",
                                show_name(&r.name), rtype, ttl, bound,
                                if cached { " (same content validated earlier in this history)" } else { "" }
                            ),
                            if cached { Some("C06-F5b-cached-ttl") } else { None },
                        ));
                    }
                    origins.push((ck, sk, i));
                }
                None => {
                    // not justified now; was the same content (as the cache sees it) justified earlier?
                    let same_strict = origins.iter().find(|(c, s, _)| *c == ck && *s == sk);
                    let same_flat = origins.iter().find(|(c, _, _)| *c == ck);
                    let in_time = justified(h, st, &r.name, rtype, now, false).is_some();
                    let (why, known) = if let Some((_, _, j)) = same_strict {
                        if in_time {
                            (format!("outside the signature validity window at clock {now}; same content was validated at step {j}"), Some("C06-F5a-stale-verdict"))
                        } else {
                            (format!("keys served now do not justify it; same content was validated at step {j}"), Some("C06-F5a-stale-verdict"))
                        }
                    } else if let Some((_, _, j)) = same_flat {
                        (format!("no signature covers this owner/signer name: it differs from the RRset validated at step {j} only in label boundaries"), Some("C06-F12-cache-key-flattens-names"))
                    } else {
                        ("no RRSIG/DNSKEY pair of this response satisfies RFC 4035 5.3.1 and 5.3.3 for it".to_string(), None)
                    };
                    fails.push((format!("step {i}: {} type {} Secure: {}", show_name(&r.name), rtype, why), known));
                }
            }
        }
    }
    if fails.is_empty() {
        return Verdict { fail: None, known: None };
    }
    // an unknown failure dominates
    if let Some((w, _)) = fails.iter().find(|(_, k)| k.is_none()) {
        return Verdict { fail: Some(w.clone()), known: None };
    }
    Verdict { fail: Some(fails[0].0.clone()), known: fails[0].1.map(|s| s.to_string()) }
}

// ------------------------------------------------------------------------------------------
// generators
// ------------------------------------------------------------------------------------------

fn rand_label(rng: &mut Rng) -> Vec<u8> {
    const WORDS: &[&[u8]] = &[b"www", b"mail", b"a", b"b", b"ab", b"c", b"bc", b"example", b"test", b"Zone", b"x-1", b"Com", b"org", b"ns1"];
    if rng.chance(3, 4) {
        rng.pick(WORDS).to_vec()
    } else {
        let n = rng.range(1, 6) as usize;
        (0..n).map(|_| *rng.pick(b"abcdefXYZ019-")).collect()
    }
}

fn rand_time(rng: &mut Rng) -> u32 {
    match rng.below(8) {
        0 => rng.below(10_000) as u32,
        1 => u32::MAX - rng.below(10_000) as u32,
        2 => (1u32 << 31) - 5000 + rng.below(10_000) as u32,
        3 => 1_790_000_000 + rng.below(100_000_000) as u32,
        _ => rng.next() as u32,
    }
}

fn rand_span(rng: &mut Rng) -> u32 {
    match rng.below(12) {
        0 => 0,
        1 => 1,
        2 => rng.range(2, 120) as u32,
        3 | 4 => rng.range(121, 86_400) as u32,
        5 | 6 | 7 => rng.range(86_400, 40 * 86_400) as u32,
        8 => (1u32 << 31) - 1 - rng.below(3) as u32,
        9 => (1u32 << 30) + rng.below(1000) as u32,
        _ => rng.range(1, 3_000_000) as u32,
    }
}

fn rand_ttl(rng: &mut Rng) -> u32 {
    match rng.below(10) {
        0 => 0,
        1 => 1,
        2 => rng.range(2, 60) as u32,
        3 | 4 | 5 => rng.range(60, 86_400) as u32,
        6 => 3600,
        7 => u32::MAX - rng.below(3) as u32,
        8 => (1u32 << 31) + rng.below(5) as u32,
        _ => rng.range(1, 1_000_000) as u32,
    }
}

fn rand_data(rng: &mut Rng, kind: u64) -> MData {
    match kind {
        0 => MData::A([rng.next() as u8, rng.next() as u8, rng.next() as u8, rng.next() as u8]),
        1 => {
            let mut a = [0u8; 16];
            for b in a.iter_mut() {
                *b = rng.next() as u8;
            }
            MData::Aaaa(a)
        }
        2 => {
            let n = rng.range(1, 2);
            MData::Txt((0..n).map(|_| { let l = rng.range(0, 12) as usize; rng.bytes(l) }).collect())
        }
        3 => MData::Mx(rng.below(100) as u16, vec![rand_label(rng), rand_label(rng)]),
        4 => MData::Ns(vec![rand_label(rng), rand_label(rng)]),
        _ => { let l = rng.range(1, 10) as usize; MData::Opaque(65280 + rng.below(4) as u16, rng.bytes(l)) }
    }
}

struct Base {
    zone: MName,
    owner: MName,
    recs: Vec<MRec>,
    sig: MSig,
    keys: Vec<MKey>,
    key: usize,
    now: u64,
}

fn sign(key: usize, msg: &[u8]) -> Vec<u8> {
    pool()[key].signer.sign(&TBS::from(msg)).unwrap()
}

/// (re)computes key tag / signature of `sig` as a genuine signature by pool key `key` over recs
fn resign(sig: &mut MSig, key: usize, owner: &MName, recs: &[MRec]) {
    let refs: Vec<&MRec> = recs.iter().collect();
    // Labels above the owner's label count: there is nothing a signer could have signed
    let Some(msg) = spec_tbs(owner, 1, sig, &refs) else {
        sig.sig = SigV::Corrupt { bytes: vec![0x5a; 64] };
        return;
    };
    let bytes = sign(key, &msg);
    sig.sig = SigV::Genuine { key, msg, bytes };
}

fn gen_base(rng: &mut Rng, allow_rsa: bool) -> Base {
    let zl = rng.range(1, 2);
    let zone: MName = (0..zl).map(|_| rand_label(rng)).collect();
    let extra = rng.below(3);
    let mut owner: MName = (0..extra).map(|_| rand_label(rng)).collect();
    owner.extend(zone.clone());
    let dkind = *rng.pick(&[0u64, 0, 0, 1, 2, 3, 4, 5]);
    let n = rng.range(1, 3);
    let ttl = rand_ttl(rng);
    let mut recs: Vec<MRec> = vec![];
    while (recs.len() as u64) < n {
        let d = rand_data(rng, dkind);
        if recs.iter().any(|r| r.data.canon() == d.canon()) {
            continue;
        }
        recs.push(MRec { name: owner.clone(), class: 1, ttl, data: d });
    }
    let key = if allow_rsa && rng.chance(1, 40) { 8 } else { rng.below(N_FAST_KEYS) as usize };
    let km = &pool()[key];
    let kflags = if rng.chance(1, 3) { 257 } else { 256 };
    let signing_key = MKey { name: zone.clone(), ttl: rand_ttl(rng).max(1), flags: kflags, alg: km.alg, pk: km.pk.clone() };
    let mut keys = vec![signing_key.clone()];
    for _ in 0..rng.below(3) {
        let o = rng.below(N_FAST_KEYS) as usize;
        if o != key && !keys.iter().any(|k| k.pk == pool()[o].pk) {
            let om = &pool()[o];
            let k = MKey { name: zone.clone(), ttl: signing_key.ttl, flags: 256, alg: om.alg, pk: om.pk.clone() };
            if rng.chance(1, 2) { keys.insert(0, k) } else { keys.push(k) }
        }
    }
    let t = rand_time(rng);
    let before = rand_span(rng);
    let after = rand_span(rng);
    let ottl = if rng.chance(3, 4) { ttl.max(rand_ttl(rng)) } else { rand_ttl(rng) };
    // wildcard-expanded signature sometimes
    let full = count_labels(&owner) as u8;
    let labels = if extra > 0 && rng.chance(1, 10) { zone.len() as u8 } else { full };
    let mut sig = MSig {
        name: owner.clone(),
        class: 1,
        ttl,
        tc: recs[0].data.rtype(),
        alg: km.alg,
        labels,
        ottl,
        exp: t.wrapping_add(after),
        inc: t.wrapping_sub(before),
        tag: signing_key.tag(),
        signer: zone.clone(),
        sig: SigV::Corrupt { bytes: vec![] },
    };
    resign(&mut sig, key, &owner, &recs);
    let hi = if rng.chance(1, 6) { rng.below(1 << 20) << 32 } else { 0 };
    Base { zone, owner, recs, sig, keys, key, now: hi | t as u64 }
}

fn flip_case(n: &MName, rng: &mut Rng) -> MName {
    let mut m = n.clone();
    let pos: Vec<(usize, usize)> = m
        .iter()
        .enumerate()
        .flat_map(|(i, l)| l.iter().enumerate().filter(|(_, b)| b.is_ascii_alphabetic()).map(move |(j, _)| (i, j)))
        .collect();
    if !pos.is_empty() {
        let (i, j) = *rng.pick(&pos);
        m[i][j] ^= 0x20;
    }
    m
}

/// shift one label boundary of a name with at least two labels (same concatenated bytes)
fn shift_boundary(n: &MName, rng: &mut Rng) -> Option<MName> {
    let cands: Vec<usize> = (0..n.len().saturating_sub(1)).filter(|&i| n[i].len() + n[i + 1].len() >= 3 || n[i].len() >= 2 || n[i + 1].len() >= 2).collect();
    for _ in 0..8 {
        if cands.is_empty() {
            break;
        }
        let i = *rng.pick(&cands);
        let mut joined = n[i].clone();
        joined.extend_from_slice(&n[i + 1]);
        let cut = rng.range(1, joined.len() as u64 - 1) as usize;
        if cut == n[i].len() || cut > 63 || joined.len() - cut > 63 {
            continue;
        }
        let mut m = n.clone();
        m[i] = joined[..cut].to_vec();
        m[i + 1] = joined[cut..].to_vec();
        if m[i].as_slice() == b"*" {
            continue;
        }
        return Some(m);
    }
    None
}

fn clock_variants(b: &Base, rng: &mut Rng) -> (u64, &'static str) {
    let (inc, exp) = (b.sig.inc, b.sig.exp);
    let hi = b.now & !0xFFFF_FFFF;
    let (t, tag): (u32, &'static str) = match rng.below(12) {
        0 => (inc.wrapping_sub(1), "clock=inc-1"),
        1 => (inc, "clock=inc"),
        2 => (exp, "clock=exp"),
        3 => (exp.wrapping_add(1), "clock=exp+1"),
        4 => (exp.wrapping_add(rand_span(rng)), "clock>exp"),
        5 => (inc.wrapping_sub(rand_span(rng)), "clock<inc"),
        6 => (exp.wrapping_add(1 << 31), "clock=exp+2^31"),
        7 => (inc.wrapping_add(1 << 31), "clock=inc+2^31"),
        8 => (exp.wrapping_sub((1u32 << 31) - rng.below(2) as u32), "clock=exp-2^31"),
        9 => (inc.wrapping_add(exp.wrapping_sub(inc) / 2), "clock=mid"),
        10 => (rng.next() as u32, "clock=random"),
        _ => (inc.wrapping_add(rng.below(exp.wrapping_sub(inc) as u64 + 1) as u32), "clock=inside"),
    };
    (hi | t as u64, tag)
}

fn base_step(b: &Base) -> Step {
    let mut answers: Vec<MAns> = b.recs.iter().cloned().map(MAns::R).collect();
    answers.push(MAns::S(b.sig.clone()));
    Step {
        now: b.now,
        sleep_ms: 0,
        qname: b.owner.clone(),
        qtype: b.recs[0].data.rtype(),
        answers,
        keysets: vec![(b.zone.clone(), Some(b.keys.clone()))],
        note: String::new(),
        expect_secure: false,
    }
}

fn anchors_of(steps: &[Step], except: &[Vec<u8>]) -> Vec<(u8, Vec<u8>)> {
    let mut v: Vec<(u8, Vec<u8>)> = vec![];
    for st in steps {
        for (_, ks) in &st.keysets {
            for k in ks.iter().flatten() {
                if !except.contains(&k.pk) && !v.iter().any(|(a, p)| *a == k.alg && *p == k.pk) {
                    v.push((k.alg, k.pk.clone()));
                }
            }
        }
    }
    v
}

/// applies one mutation to a step built from `b`; returns its tag and keys that must NOT be anchors
fn mutate(st: &mut Step, b: &Base, rng: &mut Rng, untrusted: &mut Vec<Vec<u8>>) -> String {
    let nrec = b.recs.len();
    let sig_pos = nrec;
    macro_rules! sig {
        () => {
            match &mut st.answers[sig_pos] {
                MAns::S(s) => s,
                _ => unreachable!(),
            }
        };
    }
    macro_rules! rec {
        ($i:expr) => {
            match &mut st.answers[$i] {
                MAns::R(r) => r,
                _ => unreachable!(),
            }
        };
    }
    let bit32 = |rng: &mut Rng| 1u32 << rng.below(32);
    let m = rng.below(51);
    match m {
        0 => {
            let (t, tag) = clock_variants(b, rng);
            st.now = t;
            tag.to_string()
        }
        1 => {
            let i = rng.below(nrec as u64) as usize;
            let r = rec!(i);
            r.name = flip_case(&r.name, rng);
            "rr.owner case".into()
        }
        2 => {
            let i = rng.below(nrec as u64) as usize;
            let r = rec!(i);
            r.name[0] = rand_label(rng);
            "rr.owner label".into()
        }
        3 => {
            for i in 0..nrec {
                let r = rec!(i);
                r.name.insert(0, rand_label(rng));
            }
            sig!().name = match &st.answers[0] { MAns::R(r) => r.name.clone(), _ => unreachable!() };
            st.qname = sig!().name.clone();
            "owner +label (all, rrsig too)".into()
        }
        4 => {
            let i = rng.below(nrec as u64) as usize;
            rec!(i).class = *rng.pick(&[3u16, 4, 254, 255, 2, 0]);
            "rr.class".into()
        }
        5 => {
            // different type with the same owner
            let i = rng.below(nrec as u64) as usize;
            let old = rec!(i).data.rtype();
            let k0 = rng.below(6);
            let mut d = rand_data(rng, k0);
            while d.rtype() == old {
                let k1 = rng.below(6);
                d = rand_data(rng, k1);
            }
            rec!(i).data = d;
            "rr.type".into()
        }
        6 | 7 => {
            let i = rng.below(nrec as u64) as usize;
            let r = rec!(i);
            let mut raw = r.data.raw();
            if raw.is_empty() {
                r.data = MData::Opaque(r.data.rtype(), vec![1]);
            } else {
                let bit = rng.below(raw.len() as u64 * 8) as usize;
                raw[bit / 8] ^= 1 << (bit % 8);
                match &mut r.data {
                    MData::A(a) => a.copy_from_slice(&raw),
                    MData::Aaaa(a) => a.copy_from_slice(&raw),
                    MData::Opaque(_, v) => *v = raw,
                    MData::Txt(ss) => {
                        // flip inside the character data only (keep structure)
                        let k = rng.below(ss.len() as u64) as usize;
                        if ss[k].is_empty() { ss[k].push(7) } else { let j = rng.below(ss[k].len() as u64) as usize; ss[k][j] ^= 1 << rng.below(8) }
                    }
                    MData::Mx(p, n) => {
                        if rng.chance(1, 2) { *p ^= 1 << rng.below(16) } else { let k = rng.below(n.len() as u64) as usize; let j = rng.below(n[k].len() as u64) as usize; n[k][j] ^= 1 << rng.below(7) }
                    }
                    MData::Ns(n) => { let k = rng.below(n.len() as u64) as usize; let j = rng.below(n[k].len() as u64) as usize; n[k][j] ^= 1 << rng.below(7) }
                }
            }
            "rr.rdata bit".into()
        }
        8 => {
            let d = rand_data(rng, match b.recs[0].data { MData::A(_) => 0, MData::Aaaa(_) => 1, MData::Txt(_) => 2, MData::Mx(..) => 3, MData::Ns(_) => 4, _ => 5 });
            let d = match (&b.recs[0].data, d) { (MData::Opaque(t, _), MData::Opaque(_, v)) => MData::Opaque(*t, v), (_, d) => d };
            st.answers.insert(rng.below(nrec as u64 + 1) as usize, MAns::R(MRec { name: b.owner.clone(), class: 1, ttl: b.recs[0].ttl, data: d }));
            "rr added".into()
        }
        9 => {
            if nrec >= 2 {
                st.answers.remove(rng.below(nrec as u64) as usize);
                "rr dropped".into()
            } else {
                let r = rec!(0).clone();
                st.answers.insert(0, MAns::R(r));
                "rr duplicated".into()
            }
        }
        10 => {
            let i = rng.below(nrec as u64) as usize;
            let r = rec!(i).clone();
            st.answers.insert(i, MAns::R(r));
            "rr duplicated".into()
        }
        11 => {
            st.answers[..nrec].reverse();
            if rng.chance(1, 2) {
                let s = st.answers.remove(sig_pos);
                st.answers.insert(0, s);
            }
            "order permuted".into()
        }
        12 => {
            let t = rand_ttl(rng);
            for i in 0..nrec { rec!(i).ttl = t; }
            "rr.ttl all".into()
        }
        13 => {
            let i = rng.below(nrec as u64) as usize;
            rec!(i).ttl = rand_ttl(rng);
            "rr.ttl one".into()
        }
        14 => { sig!().ttl = rand_ttl(rng); "rrsig.ttl".into() }
        15 => { sig!().tc = *rng.pick(&[1u16, 28, 16, 15, 2, 46, 48, 47]); "rrsig.type_covered".into() }
        16 => { sig!().alg = *rng.pick(&[8u8, 10, 13, 14, 15, 5, 0, 255]); "rrsig.algorithm".into() }
        17 => { let s = sig!(); s.labels = s.labels.wrapping_add(1); "rrsig.labels+1".into() }
        18 => { let s = sig!(); s.labels = s.labels.wrapping_sub(1); "rrsig.labels-1".into() }
        19 => { sig!().ottl ^= bit32(rng); "rrsig.original_ttl bit".into() }
        20 => { sig!().exp ^= bit32(rng); "rrsig.expiration bit".into() }
        21 => { sig!().inc ^= bit32(rng); "rrsig.inception bit".into() }
        22 => { sig!().tag ^= 1 << rng.below(16); "rrsig.key_tag bit".into() }
        23 => { let s = sig!(); s.signer = flip_case(&s.signer, rng); "rrsig.signer case".into() }
        24 => {
            let s = sig!();
            s.signer[0] = rand_label(rng);
            let z = s.signer.clone();
            // serve the same keys under the other name too
            let ks: Vec<MKey> = b.keys.iter().cloned().map(|mut k| { k.name = z.clone(); k }).collect();
            if rng.chance(1, 2) { st.keysets.push((z, Some(ks))); }
            "rrsig.signer other zone".into()
        }
        25 => {
            let s = sig!();
            let mut bytes = s.sig.bytes().to_vec();
            let bit = rng.below(bytes.len() as u64 * 8) as usize;
            bytes[bit / 8] ^= 1 << (bit % 8);
            s.sig = SigV::Corrupt { bytes };
            "rrsig.signature bit".into()
        }
        26 => { sig!().class = *rng.pick(&[3u16, 4, 254, 255]); "rrsig.class".into() }
        27 => { let s = sig!(); s.name[0] = rand_label(rng); "rrsig.owner label".into() }
        28 => { let s = sig!(); s.name = flip_case(&s.name, rng); "rrsig.owner case".into() }
        29 => {
            // signature by another trusted key of the RRset (tag/alg of that key): genuine, must be Secure
            let s = sig!();
            let o = (b.key + 1 + rng.below(N_FAST_KEYS - 1) as usize) % N_FAST_KEYS as usize;
            let om = &pool()[o];
            let k = MKey { name: b.zone.clone(), ttl: b.keys[0].ttl, flags: 256, alg: om.alg, pk: om.pk.clone() };
            s.alg = om.alg;
            s.tag = k.tag();
            let recs = b.recs.clone();
            resign(s, o, &b.owner, &recs);
            if !b.keys.iter().any(|x| x.pk == k.pk) && rng.chance(2, 3) {
                for (_, ks) in st.keysets.iter_mut() { if let Some(ks) = ks { ks.push(k.clone()); } }
                "signed by another served key".into()
            } else if b.keys.iter().any(|x| x.pk == k.pk) {
                "signed by another served key".into()
            } else {
                "signed by a key that is not served".into()
            }
        }
        30 | 31 | 32 | 33 | 34 | 35 | 36 => {
            // DNSKEY mutations on the signing key
            let signing_pk = pool()[b.key].pk.clone();
            let mut tag = String::new();
            for (_, ks) in st.keysets.iter_mut() {
                let Some(ks) = ks else { continue };
                for k in ks.iter_mut().filter(|k| k.pk == signing_pk) {
                    match m {
                        30 => { k.flags &= !0x0100; tag = "dnskey.zone flag off".into() }
                        31 => { k.flags |= 0x0080; tag = "dnskey.revoke on".into() }
                        32 => { k.flags ^= 1 << rng.below(16); tag = "dnskey.flags bit".into() }
                        33 => { k.alg = *rng.pick(&[8u8, 10, 13, 14, 15, 5]); tag = "dnskey.algorithm".into() }
                        34 => { let bit = rng.below(k.pk.len() as u64 * 8) as usize; k.pk[bit / 8] ^= 1 << (bit % 8); tag = "dnskey.public_key bit".into() }
                        35 => { k.name[0] = rand_label(rng); tag = "dnskey.owner label".into() }
                        _ => { k.name = flip_case(&k.name, rng); tag = "dnskey.owner case".into() }
                    }
                }
            }
            tag
        }
        37 => {
            // the signing key is replaced by a different trusted key
            let signing_pk = pool()[b.key].pk.clone();
            let o = (b.key + 1 + rng.below(N_FAST_KEYS - 1) as usize) % N_FAST_KEYS as usize;
            for (_, ks) in st.keysets.iter_mut() {
                let Some(ks) = ks else { continue };
                for k in ks.iter_mut().filter(|k| k.pk == signing_pk) { k.pk = pool()[o].pk.clone(); k.alg = pool()[o].alg; }
            }
            "dnskey replaced by another trusted key".into()
        }
        38 => {
            // signing key not trusted
            untrusted.push(pool()[b.key].pk.clone());
            "signing key not a trust anchor".into()
        }
        39 => {
            // an extra key that is not a trust anchor makes the DNSKEY RRset bogus
            let mut pk = rng.bytes(32);
            pk[0] |= 1;
            untrusted.push(pk.clone());
            for (_, ks) in st.keysets.iter_mut() { if let Some(ks) = ks { ks.push(MKey { name: b.zone.clone(), ttl: 300, flags: 256, alg: 15, pk: pk.clone() }); } }
            "extra untrusted dnskey".into()
        }
        40 => {
            // key tag collisions: two trusted garbage keys with the signing key's tag in front of it
            let signing = b.keys.iter().find(|k| k.pk == pool()[b.key].pk).unwrap().clone();
            let n_fake = rng.range(1, 3);
            for (_, ks) in st.keysets.iter_mut() {
                let Some(ks) = ks else { continue };
                for j in 0..n_fake {
                    ks.insert(0, colliding_key(&signing, j as u8));
                }
            }
            format!("{} colliding key tags before the signing key", n_fake)
        }
        41 => { st.keysets[0].1 = None; "dnskey lookup fails".into() }
        42 => {
            // second RRSIG in front: expired copy or garbage; the genuine one comes second
            let mut s2 = b.sig.clone();
            if rng.chance(1, 2) { s2.sig = SigV::Corrupt { bytes: rng.bytes(64) }; } else { s2.exp = s2.inc.wrapping_sub(5); let recs = b.recs.clone(); resign(&mut s2, b.key, &b.owner, &recs); }
            let pos = if rng.chance(2, 3) { sig_pos } else { sig_pos + 1 };
            st.answers.insert(pos, MAns::S(s2));
            "second rrsig".into()
        }
        43 | 44 | 45 => {
            // the RRset really is signed by a key that must not be used: revoked, or not a zone
            // key (key tag in the RRSIG is that of the key as served)
            let signing_pk = pool()[b.key].pk.clone();
            let (tag, newflags) = match m {
                43 => ("signed by a revoked key", 0x0180u16),
                44 => ("signed by a non-zone key", if rng.chance(1, 2) { 0x0000 } else { 0x0001 }),
                _ => ("signed by a revoked non-zone key", 0x0080),
            };
            let mut newtag = 0;
            for (_, ks) in st.keysets.iter_mut() {
                let Some(ks) = ks else { continue };
                for k in ks.iter_mut().filter(|k| k.pk == signing_pk) {
                    k.flags = newflags;
                    newtag = k.tag();
                }
            }
            let s = sig!();
            s.tag = newtag;
            let recs = b.recs.clone();
            resign(s, b.key, &b.owner, &recs);
            tag.into()
        }
        46 => {
            // an extra record of another class under the same owner and type: TBS::new filters it
            // out, so the signature still verifies over the IN records
            let d = rand_data(rng, match b.recs[0].data { MData::A(_) => 0, MData::Aaaa(_) => 1, MData::Txt(_) => 2, MData::Mx(..) => 3, MData::Ns(_) => 4, _ => 5 });
            let d = match (&b.recs[0].data, d) { (MData::Opaque(t, _), MData::Opaque(_, v)) => MData::Opaque(*t, v), (_, d) => d };
            let pos = rng.range(1, nrec as u64) as usize;
            st.answers.insert(pos, MAns::R(MRec { name: b.owner.clone(), class: *rng.pick(&[3u16, 4, 254]), ttl: b.recs[0].ttl, data: d }));
            "rr added with another class".into()
        }
        47 => {
            // RRSIG algorithm field differs from the DNSKEY's, and the signature is made over that
            let s = sig!();
            s.alg = *rng.pick(&[8u8, 10, 13, 14, 15, 16]);
            let recs = b.recs.clone();
            resign(s, b.key, &b.owner, &recs);
            "rrsig.algorithm other, re-signed".into()
        }
        48 => {
            // signer name differs from the DNSKEY owner name; signed over it; keys served for it
            let s = sig!();
            let mut z = s.signer.clone();
            z[0] = rand_label(rng);
            s.signer = z.clone();
            let recs = b.recs.clone();
            resign(s, b.key, &b.owner, &recs);
            st.keysets.push((z, Some(b.keys.clone())));
            "rrsig.signer other, re-signed, keys owned by the zone".into()
        }
        49 => {
            let signing_pk = pool()[b.key].pk.clone();
            for (_, ks) in st.keysets.iter_mut() {
                let Some(ks) = ks else { continue };
                for k in ks.iter_mut().filter(|k| k.pk == signing_pk) { k.flags ^= 1; }
            }
            "dnskey.SEP flipped (key tag differs)".into()
        }
        _ => {
            // more than MAX_RRSIGS_PER_RRSET signatures; the genuine one last
            let n = rng.range(8, 10) as usize;
            for j in 0..n {
                let mut s2 = b.sig.clone();
                s2.signer = vec![format!("nx{j}").into_bytes()];
                s2.sig = SigV::Corrupt { bytes: vec![j as u8; 8] };
                st.answers.insert(sig_pos, MAns::S(s2));
            }
            format!("{n} rrsigs with failing lookups before the genuine one")
        }
    }
}

/// a syntactically arbitrary key with the same algorithm and key tag as `k` (trusted as an anchor)
fn colliding_key(k: &MKey, salt: u8) -> MKey {
    let mut f = k.clone();
    // keep length and the 16-bit one's-complement-ish sum: swap two aligned 16-bit words and
    // add/subtract the same amount in two even-position bytes
    let n = f.pk.len();
    let (i, j) = (2 * (salt as usize % (n / 4)), n - 2 - 2 * (salt as usize % (n / 4)));
    if f.pk[i] < 255 && f.pk[j] > 0 {
        f.pk[i] += 1;
        f.pk[j] -= 1;
    } else if f.pk[i] > 0 && f.pk[j] < 255 {
        f.pk[i] -= 1;
        f.pk[j] += 1;
    } else {
        f.pk.swap(i, j);
    }
    f
}

/// hand-made minimal witnesses of the findings (indices 0..4 of every run); F13 is repaired
/// (fed49c5): its witness must give Bogus / Indeterminate marks, never a panic
fn fixed_hist(which: u64) -> Hist {
    let lab = |s: &str| -> MName { s.split('.').filter(|x| !x.is_empty()).map(|x| x.as_bytes().to_vec()).collect() };
    let zone = lab("example");
    let owner = lab("ab.c.example");
    let km = &pool()[0];
    let key = MKey { name: zone.clone(), ttl: 3600, flags: 257, alg: km.alg, pk: km.pk.clone() };
    let recs = vec![MRec { name: owner.clone(), class: 1, ttl: 300, data: MData::A([192, 0, 2, 1]) }];
    let mut sig = MSig {
        name: owner.clone(), class: 1, ttl: 300, tc: 1, alg: km.alg, labels: 3, ottl: 3600,
        exp: 1_700_001_000, inc: 1_700_000_000, tag: key.tag(), signer: zone.clone(), sig: SigV::Corrupt { bytes: vec![] },
    };
    resign(&mut sig, 0, &owner, &recs);
    let b = Base { zone, owner, recs, sig, keys: vec![key], key: 0, now: 1_700_000_010 };
    let s0 = base_step(&b);
    let mut s1 = s0.clone();
    let kind;
    match which {
        0 => {
            // F12: a.bc.example. was never signed
            let o2 = lab("a.bc.example");
            for a in s1.answers.iter_mut() { match a { MAns::R(r) => r.name = o2.clone(), MAns::S(s) => s.name = o2.clone() } }
            s1.qname = o2;
            s1.note = "same RDATA and RRSIG under owner a.bc.example.".into();
            kind = "fixed:F12";
        }
        1 => {
            // F5a: clock past the expiration, entry (TTL 300) still alive
            s1.now = 1_700_001_001;
            s1.note = "clock = expiration + 1".into();
            kind = "fixed:F5a";
        }
        2 => {
            // F5b: 10 s before the expiration the TTL of the first validation (300) comes back
            s1.now = 1_700_000_990;
            s1.note = "clock = expiration - 10".into();
            kind = "fixed:F5b";
        }
        _ => {
            // F13 (fixed): a stray RRSIG covering DNSKEY
            let mut s2 = b.sig.clone();
            s2.tc = 48;
            s1.answers.push(MAns::S(s2));
            s1.note = "plus an RRSIG with type covered DNSKEY".into();
            kind = "fixed:F13";
        }
    }
    let steps = vec![s0, s1];
    let anchors = anchors_of(&steps, &[]);
    Hist { anchors, steps, kind: kind.into() }
}

fn gen_hist(seed: u64, index: u64, thorough: bool) -> Hist {
    if index < 4 {
        return fixed_hist(index);
    }
    let mut rng = Rng::for_case(seed, index);
    let fam = rng.below(100);
    let mut untrusted: Vec<Vec<u8>> = vec![];
    let b = gen_base(&mut rng, true);
    let mut steps = vec![];
    let kind;
    let order_ok = {
        let mut raw: Vec<(Vec<u8>, Vec<u8>)> = b.recs.iter().map(|r| (r.data.raw(), r.data.canon())).collect();
        raw.sort();
        let mut can: Vec<Vec<u8>> = b.recs.iter().map(|r| r.data.canon()).collect();
        can.sort();
        raw.iter().map(|x| x.1.clone()).collect::<Vec<_>>() == can
    };
    if fam < 8 {
        // unmodified, clock at the signing-time sample
        let mut st = base_step(&b);
        st.expect_secure = order_ok;
        steps.push(st);
        kind = "valid".to_string();
    } else if fam < 20 {
        let mut st = base_step(&b);
        let (t, tag) = clock_variants(&b, &mut rng);
        st.now = t;
        st.note = tag.to_string();
        st.expect_secure = order_ok;
        steps.push(st);
        kind = "clock".to_string();
    } else if fam < 62 {
        let mut st = base_step(&b);
        let tag = mutate(&mut st, &b, &mut rng, &mut untrusted);
        st.note = tag.clone();
        steps.push(st);
        kind = format!("mut:{}", tag.trim_start_matches(|c: char| c.is_ascii_digit()).trim().replace(' ', "_"));
    } else if fam < 70 {
        // two mutations
        let mut st = base_step(&b);
        let t1 = mutate(&mut st, &b, &mut rng, &mut untrusted);
        let ok = st.answers.len() == b.recs.len() + 1 && matches!(st.answers[b.recs.len()], MAns::S(_)) && st.answers[..b.recs.len()].iter().all(|a| matches!(a, MAns::R(_)));
        let t2 = if ok { mutate(&mut st, &b, &mut rng, &mut untrusted) } else { "-".into() };
        st.note = format!("{t1} + {t2}");
        steps.push(st);
        kind = "mut2".to_string();
    } else {
        // histories: validate, then re-validate after moving the clock / changing TTLs / tampering
        let n = rng.range(2, 4);
        let first = base_step(&b);
        steps.push(first.clone());
        for _ in 1..n {
            let mut st = first.clone();
            match rng.below(10) {
                0 | 1 | 2 => {
                    let (t, tag) = clock_variants(&b, &mut rng);
                    st.now = t;
                    st.note = tag.to_string();
                }
                3 => {
                    let t = rand_ttl(&mut rng);
                    for a in st.answers.iter_mut() { match a { MAns::R(r) => r.ttl = t, MAns::S(s) => s.ttl = t } }
                    st.note = "ttl changed".into();
                    if rng.chance(1, 2) { st.now = st.now.wrapping_add(rng.below(100)); }
                }
                4 => {
                    // forged owner: label boundary shifted everywhere
                    if let Some(o2) = shift_boundary(&b.owner, &mut rng) {
                        for a in st.answers.iter_mut() { match a { MAns::R(r) => r.name = o2.clone(), MAns::S(s) => s.name = o2.clone() } }
                        st.qname = o2;
                        st.note = "owner label boundary shifted".into();
                    } else {
                        st.note = "same".into();
                    }
                }
                5 => {
                    let tag = mutate(&mut st, &b, &mut rng, &mut untrusted);
                    st.note = tag;
                }
                6 => {
                    // clock advanced by a small amount inside / around the window
                    st.now = (st.now & !0xFFFF_FFFF) | ((st.now as u32).wrapping_add(rng.range(1, 200_000) as u32) as u64);
                    st.note = "clock advanced".into();
                }
                7 => {
                    // served keys change: signing key revoked or removed
                    let signing_pk = pool()[b.key].pk.clone();
                    for (_, ks) in st.keysets.iter_mut() { if let Some(ks) = ks { for k in ks.iter_mut().filter(|k| k.pk == signing_pk) { k.flags |= 0x0080; } } }
                    st.note = "signing key now revoked".into();
                }
                8 => {
                    st.sleep_ms = 0;
                    st.note = "same".into();
                }
                _ => {
                    let (t, tag) = clock_variants(&b, &mut rng);
                    st.now = t;
                    let tt = rand_ttl(&mut rng);
                    for a in st.answers.iter_mut() { if let MAns::R(r) = a { r.ttl = tt } }
                    st.note = format!("{tag} + ttl changed");
                }
            }
            steps.push(st);
        }
        kind = "history".to_string();
    }
    let _ = thorough;
    let anchors = anchors_of(&steps, &untrusted);
    Hist { anchors, steps, kind }
}

/// thorough tier only: three histories with real sleeps (cache entry expiry by elapsed time)
fn gen_sleep_hist(seed: u64, which: u64) -> Hist {
    let mut rng = Rng::for_case(seed ^ 0x5EE9, which);
    let mut b = gen_base(&mut rng, false);
    // long-lived signature, received ttl 1 or 30, window closed at step 2
    let ttl = if which % 2 == 0 { 1 } else { 30 };
    for r in b.recs.iter_mut() { r.ttl = ttl; }
    b.sig.ttl = ttl;
    b.sig.ottl = 3600;
    b.sig.labels = count_labels(&b.owner) as u8;
    b.sig.inc = (b.now as u32).wrapping_sub(100);
    b.sig.exp = (b.now as u32).wrapping_add(2);
    let recs = b.recs.clone();
    let owner = b.owner.clone();
    resign(&mut b.sig, b.key, &owner, &recs);
    let s1 = base_step(&b);
    let mut s2 = s1.clone();
    s2.sleep_ms = 1600;
    s2.now = s1.now + 3; // past the expiration
    s2.note = "after 1.6 s, clock = exp+1".into();
    let steps = vec![s1, s2];
    let anchors = anchors_of(&steps, &[]);
    Hist { anchors, steps, kind: "history-sleep".into() }
}

// ------------------------------------------------------------------------------------------
// Coq rendering
// ------------------------------------------------------------------------------------------

fn coq_name(n: &MName) -> String {
    coq_pb(&wire_name(n))
}

fn coq_hist(h: &Hist, obs: &[Obs]) -> String {
    let mut sig_ids: BTreeMap<Vec<u8>, usize> = BTreeMap::new();
    let mut steps = vec![];
    let mut inst: u64 = 0;
    for (st, o) in h.steps.iter().zip(obs) {
        inst += st.sleep_ms + 1;
        let ans: Vec<String> = st
            .answers
            .iter()
            .map(|a| match a {
                MAns::R(r) => format!(
                    "HR {} {} {} {} {} {}",
                    coq_name(&r.name), r.class, r.data.rtype(), r.ttl, coq_pb(&r.data.raw()), coq_pb(&r.data.canon())
                ),
                MAns::S(s) => {
                    let n = sig_ids.len();
                    let id = *sig_ids.entry(s.sig.bytes().to_vec()).or_insert(n);
                    let sv = match &s.sig {
                        SigV::Genuine { key, msg, .. } => format!("(SGen {} {} {})", pool()[*key].alg, coq_pb(&pool()[*key].pk), coq_pb(msg)),
                        SigV::Corrupt { .. } => "SBad".to_string(),
                    };
                    format!(
                        "HS {} {} {} {} {} {} {} {} {} {} {} {} {}",
                        coq_name(&s.name), s.class, s.ttl, s.tc, s.alg, s.labels, s.ottl, s.exp, s.inc, s.tag, coq_name(&s.signer), sv, id
                    )
                }
            })
            .collect();
        let ks: Vec<String> = st
            .keysets
            .iter()
            .map(|(z, ks)| {
                let body = match ks {
                    None => "None".to_string(),
                    Some(ks) => format!(
                        "(Some {})",
                        coq_list(ks.iter().map(|k| format!("HK {} {} {} {}", coq_name(&k.name), k.flags, k.alg, coq_pb(&k.pk))))
                    ),
                };
                format!("({}, {})", coq_name(z), body)
            })
            .collect();
        let ob = match o {
            Obs::Err(k) => format!("(OErr {k})"),
            Obs::Ok(rows) => format!("(OOk {})", coq_list(rows.iter().map(|(p, t)| format!("({p}, {t})")))),
        };
        steps.push(format!(
            "HStep {} {} {} {} {} {} {}",
            st.now, inst, coq_name(&st.qname), st.qtype, coq_list(ans), coq_list(ks), ob
        ));
    }
    format!(
        "CHist {} {}",
        coq_list(h.anchors.iter().map(|(a, p)| format!("({a}, {})", coq_pb(p)))),
        coq_list(steps)
    )
}

fn text_hist(h: &Hist, obs: &[Obs]) -> String {
    let mut s = format!("{} anchors={}", h.kind, h.anchors.len());
    for (i, (st, o)) in h.steps.iter().zip(obs).enumerate() {
        s += &format!(" | step{i}[{}] clock={} q={}/{}", st.note, st.now, show_name(&st.qname), st.qtype);
        for a in &st.answers {
            match a {
                MAns::R(r) => s += &format!(" RR({} c{} t{} ttl{} {})", show_name(&r.name), r.class, r.data.rtype(), r.ttl, hex(&r.data.raw())),
                MAns::S(g) => {
                    s += &format!(
                        " RRSIG({} c{} ttl{} tc{} alg{} l{} ottl{} exp{} inc{} tag{} signer={} sig={})",
                        show_name(&g.name), g.class, g.ttl, g.tc, g.alg, g.labels, g.ottl, g.exp, g.inc, g.tag, show_name(&g.signer),
                        match &g.sig { SigV::Genuine { key, .. } => format!("genuine(key{key})"), SigV::Corrupt { .. } => "corrupt".into() }
                    )
                }
            }
        }
        for (z, ks) in &st.keysets {
            match ks {
                None => s += &format!(" KEYS({}: lookup fails)", show_name(z)),
                Some(ks) => {
                    s += &format!(" KEYS({}:", show_name(z));
                    for k in ks {
                        let t = h.anchors.iter().any(|(a, p)| *a == k.alg && *p == k.pk);
                        s += &format!(" [{} f{} alg{} tag{} pk={}..{}]", show_name(&k.name), k.flags, k.alg, k.tag(), hex(&k.pk[..4.min(k.pk.len())]), if t { " anchor" } else { " untrusted" });
                    }
                    s += ")";
                }
            }
        }
        s += &match o {
            Obs::Err(k) => format!(" => Err({})", match *k { 1 => "nsec", 9 => "PANIC", _ => "other" }),
            Obs::Ok(rows) => format!(" => {:?}", rows),
        };
    }
    s
}

fn key_hist(h: &Hist) -> String {
    // input only, without signature bytes
    let mut s = String::new();
    for st in &h.steps {
        s += &format!("|{}:{}:{}", st.now, show_name(&st.qname), st.qtype);
        for a in &st.answers {
            match a {
                MAns::R(r) => s += &format!("R{}{}{}{}", show_name(&r.name), r.class, r.ttl, hex(&r.data.raw())),
                MAns::S(g) => s += &format!("S{}{}{}{}{}{}{}{}{}{}{}{}", show_name(&g.name), g.class, g.ttl, g.tc, g.alg, g.labels, g.ottl, g.exp, g.inc, g.tag, show_name(&g.signer), matches!(g.sig, SigV::Genuine { .. })),
            }
        }
        for (z, ks) in &st.keysets {
            s += &show_name(z);
            for k in ks.iter().flatten() {
                s += &format!("K{}{}{}{}", show_name(&k.name), k.flags, k.alg, hex(&k.pk[..8.min(k.pk.len())]));
            }
        }
    }
    s
}

fn case(seed: u64, index: u64, thorough: bool) -> CaseOut {
    let h: Hist = if index >= SLEEP_BASE { gen_sleep_hist(seed, index - SLEEP_BASE) } else { gen_hist(seed, index, thorough) };
    let mut h = h;
    let obs = run_hist(&h);
    h.steps.truncate(obs.len());
    let v = oracle(&h, &obs);
    let secure = obs.iter().any(|o| matches!(o, Obs::Ok(rows) if rows.iter().any(|(p, _)| *p == 3)));
    CaseOut {
        index,
        coq: coq_hist(&h, &obs),
        text: text_hist(&h, &obs),
        key: key_hist(&h),
        nontrivial: true,
        kind: format!("{}{}", h.kind, if secure { "/secure" } else { "" }),
        oracle_fail: v.fail,
        known: v.known,
    }
}

const SLEEP_BASE: u64 = 1 << 40;

fn main() {
    if std::env::var("C06_LOUD").is_err() { quiet_panics(); }
    let args = parse_args();
    if args.extra.contains_key("genkeys") {
        for _ in 0..3 {
            println!("ed25519 {}", hex(Ed25519SigningKey::generate_pkcs8().unwrap().secret_pkcs8_der()));
        }
        for _ in 0..2 {
            println!("p256 {}", hex(EcdsaSigningKey::generate_pkcs8(Algorithm::ECDSAP256SHA256).unwrap().secret_pkcs8_der()));
        }
        return;
    }
    let thorough = args.tier == "thorough";
    if let Some((seed, index)) = args.replay {
        let c = case(seed, index, true);
        println!("{}", c.text);
        println!("COQ {}", c.coq);
        if let Some(f) = c.oracle_fail {
            println!("ORACLE-FAIL {f}");
        }
        return;
    }
    let mut cases = vec![];
    for index in 0..args.n {
        cases.push(case(args.seed, index, thorough));
    }
    if thorough {
        for w in 0..3 {
            cases.push(case(args.seed, SLEEP_BASE + w, true));
        }
    }
    // case terms are large (keys, signed data): many small shards evaluate in parallel
    if std::env::var("VPH_SHARD").is_err() {
        std::env::set_var("VPH_SHARD", "100");
    }
    emit(
        "C06",
        "C06",
        &args,
        &cases,
        "histories of 1..4 validations through DnssecDnsHandle::send over a scripted upstream and a controlled clock: a genuinely signed RRset (A/AAAA/TXT/MX/NS/unknown type, 1..3 records, Ed25519 / ECDSA P-256 / P-384 / RSA keys, wildcard signatures, times near 0, 2^31 and 2^32) unmodified, with one of 51 single-field / single-bit / re-signed mutations of RRset, RRSIG, DNSKEY RRset or trust anchors, with two mutations, or at 12 clock positions relative to the window; histories re-validate after clock moves, TTL changes, tampering, key revocation and label-boundary shifts. Distinct by full input (without signature bytes).",
        serde_json::json!({"keys_in_pool": pool().len()}),
    );
}
