//! C16 — drives the real `UdpClientStream` over a scripted `RuntimeProvider` (sockets, timers)
//! and the real `DnsMultiplexer` over a scripted `DnsClientStream`.
//!
//! UDP case  = (request, script of socket results).  Observation = how the request ended,
//!             which datagram was accepted, how many datagrams were examined, the question
//!             section of the returned response.
//! Mux case  = sequence of operations (send / stream yields message / eof / error / poll /
//!             timer fires / receiver dropped / receiver polled / shutdown).  Observation = the
//!             result of each operation.

use std::cell::RefCell;
use std::collections::{BTreeMap, BTreeSet, VecDeque};
use std::future::Future;
use std::io;
use std::net::{IpAddr, Ipv4Addr, Ipv6Addr, SocketAddr, SocketAddrV6};
use std::panic::AssertUnwindSafe;
use std::pin::Pin;
use std::sync::atomic::{AtomicU64, Ordering};
use std::sync::{Arc, Mutex};
use std::task::Wake;
use std::task::{Context, Poll};
use std::time::Duration;

use futures_io::{AsyncRead, AsyncWrite};
use futures_util::future::poll_fn;
use futures_util::stream::{Stream, StreamExt};
use futures_util::task::noop_waker;
use hickory_net::proto::op::{
    DnsRequest, DnsRequestOptions, DnsResponse, Message, MessageType, OpCode, Query, SerialMessage,
};
use hickory_net::proto::rr::{DNSClass, Name, RecordType};
use hickory_net::proto::ProtoError;
use hickory_net::runtime::{DnsTcpStream, DnsUdpSocket, RuntimeProvider, Spawn, Time};
use hickory_net::udp::UdpClientStream;
use hickory_net::xfer::{DnsClientStream, DnsExchange, DnsHandle, DnsMultiplexer, DnsRequestSender, DnsResponseStream, StreamReceiver};
use hickory_net::{BufDnsStreamHandle, NetError};
use vph::*;

// ------------------------------------------------------------------------------------------
// scripted time: timers are numbered in creation order and fire when the script says so
// ------------------------------------------------------------------------------------------

#[derive(Default)]
struct TimeState {
    created: usize,
    fired: Vec<bool>,
    deadline: bool,
}

thread_local! {
    static TIME: RefCell<TimeState> = RefCell::new(TimeState::default());
}

fn time_reset() {
    TIME.with(|t| *t.borrow_mut() = TimeState::default());
}
fn timers_created() -> usize {
    TIME.with(|t| t.borrow().created)
}
fn fire_timer(id: usize) {
    TIME.with(|t| {
        let mut t = t.borrow_mut();
        if id < t.fired.len() {
            t.fired[id] = true;
        }
    });
}
fn fire_all_timers() {
    TIME.with(|t| {
        let mut t = t.borrow_mut();
        for f in t.fired.iter_mut() {
            *f = true;
        }
    });
}
fn set_deadline() {
    TIME.with(|t| t.borrow_mut().deadline = true);
}

#[derive(Clone, Copy)]
struct ScriptTime;

// written out by hand (what #[async_trait] expands to) so that a timer gets its number when
// it is created, not when it is first polled
impl Time for ScriptTime {
    fn delay_for<'async_trait>(_duration: Duration) -> Pin<Box<dyn Future<Output = ()> + Send + 'async_trait>> {
        let id = TIME.with(|t| {
            let mut t = t.borrow_mut();
            t.created += 1;
            t.fired.push(false);
            t.created - 1
        });
        Box::pin(poll_fn(move |_cx| {
            if TIME.with(|t| t.borrow().fired[id]) {
                Poll::Ready(())
            } else {
                Poll::Pending
            }
        }))
    }

    fn timeout<'async_trait, F>(
        _duration: Duration,
        future: F,
    ) -> Pin<Box<dyn Future<Output = Result<F::Output, io::Error>> + Send + 'async_trait>>
    where
        F: 'async_trait + 'static + Future + Send,
    {
        let mut fut = Box::pin(future);
        Box::pin(poll_fn(move |cx| match fut.as_mut().poll(cx) {
            Poll::Ready(x) => Poll::Ready(Ok(x)),
            Poll::Pending => {
                if TIME.with(|t| t.borrow().deadline) {
                    Poll::Ready(Err(io::Error::new(io::ErrorKind::TimedOut, "scripted deadline")))
                } else {
                    Poll::Pending
                }
            }
        }))
    }
}

// ------------------------------------------------------------------------------------------
// wire format written by hand (independent of the encoder of the implementation)
// ------------------------------------------------------------------------------------------

#[derive(Clone, Debug, PartialEq, Eq)]
struct Qn {
    labels: Vec<Vec<u8>>,
    t: u16,
    c: u16,
}

impl Qn {
    fn text(&self) -> String {
        let n: Vec<String> = self.labels.iter().map(|l| String::from_utf8_lossy(l).to_string()).collect();
        format!("{}./{}/{}", n.join("."), self.t, self.c)
    }
    fn coq(&self) -> String {
        format!("HQ {} {} {}", coq_list(self.labels.iter().map(|l| coq_pb(l))), self.t, self.c)
    }
    fn to_query(&self) -> Query {
        let name = Name::from_labels(self.labels.iter().map(|l| &l[..])).unwrap();
        let mut q = Query::new(name, RecordType::from(self.t));
        q.set_query_class(DNSClass::from(self.c));
        q
    }
    fn from_query(q: &Query) -> Qn {
        Qn {
            labels: q.name.iter().map(|l| l.to_vec()).collect(),
            t: u16::from(q.query_type),
            c: u16::from(q.query_class),
        }
    }
}

fn lower(b: u8) -> u8 {
    if (65..=90).contains(&b) {
        b + 32
    } else {
        b
    }
}
fn name_ci(a: &[Vec<u8>], b: &[Vec<u8>]) -> bool {
    let l = |n: &[Vec<u8>]| -> Vec<Vec<u8>> { n.iter().map(|x| x.iter().map(|c| lower(*c)).collect()).collect() };
    l(a) == l(b)
}

/// header + questions + one answer `. 1 IN A 127.0.0.1` whose TTL is `marker`
fn wire_msg(id: u16, resp: bool, qs: &[Qn], marker: u32) -> Vec<u8> {
    let mut v = vec![];
    v.extend_from_slice(&id.to_be_bytes());
    let flags: u16 = if resp { 0x8180 } else { 0x0100 };
    v.extend_from_slice(&flags.to_be_bytes());
    v.extend_from_slice(&(qs.len() as u16).to_be_bytes());
    v.extend_from_slice(&1u16.to_be_bytes());
    v.extend_from_slice(&[0, 0, 0, 0]);
    for q in qs {
        for l in &q.labels {
            v.push(l.len() as u8);
            v.extend_from_slice(l);
        }
        v.push(0);
        v.extend_from_slice(&q.t.to_be_bytes());
        v.extend_from_slice(&q.c.to_be_bytes());
    }
    v.push(0);
    v.extend_from_slice(&[0, 1, 0, 1]);
    v.extend_from_slice(&marker.to_be_bytes());
    v.extend_from_slice(&[0, 4, 127, 0, 0, 1]);
    v
}

// ------------------------------------------------------------------------------------------
// UDP: scripted provider
// ------------------------------------------------------------------------------------------

#[derive(Clone, Debug)]
enum SockEv {
    Dg(Vec<u8>, SocketAddr),
    Err,
}

#[derive(Default)]
struct UdpShared {
    /// per socket (in bind order): what recv_from will return
    rx: Vec<VecDeque<SockEv>>,
    /// number of sockets bound so far, local addresses asked for
    bound: Vec<SocketAddr>,
    sent: Vec<(usize, Vec<u8>, SocketAddr)>,
    recv_returned: Vec<usize>,
    starved: bool,
    /// per transmission (in bind order): 0 ok, 1 bind error, 2 send error, 3 short send
    setups: Vec<u8>,
    last_recv_socket: usize,
}

#[derive(Clone)]
struct ScriptProvider(Arc<Mutex<UdpShared>>);

struct ScriptUdp {
    idx: usize,
    shared: Arc<Mutex<UdpShared>>,
}

#[derive(Clone)]
struct NoSpawn;
impl Spawn for NoSpawn {
    fn spawn_bg(&mut self, _future: impl Future<Output = ()> + Send + 'static) {}
}

struct NoTcp;
impl AsyncRead for NoTcp {
    fn poll_read(self: Pin<&mut Self>, _cx: &mut Context<'_>, _buf: &mut [u8]) -> Poll<io::Result<usize>> {
        Poll::Ready(Err(io::Error::other("no tcp")))
    }
}
impl AsyncWrite for NoTcp {
    fn poll_write(self: Pin<&mut Self>, _cx: &mut Context<'_>, _buf: &[u8]) -> Poll<io::Result<usize>> {
        Poll::Ready(Err(io::Error::other("no tcp")))
    }
    fn poll_flush(self: Pin<&mut Self>, _cx: &mut Context<'_>) -> Poll<io::Result<()>> {
        Poll::Ready(Ok(()))
    }
    fn poll_close(self: Pin<&mut Self>, _cx: &mut Context<'_>) -> Poll<io::Result<()>> {
        Poll::Ready(Ok(()))
    }
}
impl DnsTcpStream for NoTcp {
    type Time = ScriptTime;
}

impl RuntimeProvider for ScriptProvider {
    type Handle = NoSpawn;
    type Timer = ScriptTime;
    type Udp = ScriptUdp;
    type Tcp = NoTcp;

    fn create_handle(&self) -> Self::Handle {
        NoSpawn
    }
    fn connect_tcp(
        &self,
        _server_addr: SocketAddr,
        _bind_addr: Option<SocketAddr>,
        _timeout: Option<Duration>,
    ) -> Pin<Box<dyn Send + Future<Output = Result<Self::Tcp, io::Error>>>> {
        Box::pin(std::future::ready(Err(io::Error::other("no tcp"))))
    }
    fn bind_udp(
        &self,
        local_addr: SocketAddr,
        _server_addr: SocketAddr,
    ) -> Pin<Box<dyn Send + Future<Output = Result<Self::Udp, io::Error>>>> {
        let mut s = self.0.lock().unwrap();
        let idx = s.bound.len();
        s.bound.push(local_addr);
        while s.rx.len() <= idx {
            s.rx.push(VecDeque::new());
        }
        while s.recv_returned.len() <= idx {
            s.recv_returned.push(0);
        }
        if s.setups.get(idx).copied().unwrap_or(0) == 1 {
            return Box::pin(std::future::ready(Err(io::Error::new(io::ErrorKind::ConnectionRefused, "scripted bind error"))));
        }
        let sock = ScriptUdp { idx, shared: self.0.clone() };
        Box::pin(std::future::ready(Ok(sock)))
    }
}

impl DnsUdpSocket for ScriptUdp {
    type Time = ScriptTime;

    fn poll_recv_from(&self, cx: &mut Context<'_>, buf: &mut [u8]) -> Poll<io::Result<(usize, SocketAddr)>> {
        let mut s = self.shared.lock().unwrap();
        match s.rx[self.idx].pop_front() {
            None => {
                s.starved = true;
                // a zero-progress step is just another poll
                cx.waker().wake_by_ref();
                Poll::Pending
            }
            Some(SockEv::Err) => {
                s.recv_returned[self.idx] += 1;
                s.last_recv_socket = self.idx;
                Poll::Ready(Err(io::Error::new(io::ErrorKind::ConnectionReset, "scripted")))
            }
            Some(SockEv::Dg(bytes, src)) => {
                s.recv_returned[self.idx] += 1;
                s.last_recv_socket = self.idx;
                let n = bytes.len().min(buf.len());
                buf[..n].copy_from_slice(&bytes[..n]);
                Poll::Ready(Ok((n, src)))
            }
        }
    }

    fn poll_send_to(&self, _cx: &mut Context<'_>, buf: &[u8], target: SocketAddr) -> Poll<io::Result<usize>> {
        let mut s = self.shared.lock().unwrap();
        s.sent.push((self.idx, buf.to_vec(), target));
        match s.setups.get(self.idx).copied().unwrap_or(0) {
            2 => Poll::Ready(Err(io::Error::new(io::ErrorKind::ConnectionRefused, "scripted send error"))),
            3 => Poll::Ready(Ok(buf.len() - 1)),
            _ => Poll::Ready(Ok(buf.len())),
        }
    }
}

// ------------------------------------------------------------------------------------------
// UDP: case
// ------------------------------------------------------------------------------------------

/// the parser's view of a payload, known by construction
#[derive(Clone, Debug)]
enum View {
    Garbage,
    Msg { resp: bool, id: u16, qs: Vec<Qn> },
}

#[derive(Clone, Debug)]
struct Dgram {
    kind: &'static str,
    src: SocketAddr,
    bytes: Vec<u8>,
    view: View,
}

#[derive(Clone, Debug)]
enum UEv {
    Dg(Dgram),
    Err,
}

struct UReq {
    server: SocketAddr,
    id: u16,
    qs: Vec<Qn>,
    case_rand: bool,
    orig: Option<Qn>,
}

fn ip_coq(ip: IpAddr) -> String {
    match ip {
        IpAddr::V4(a) => format!("(V4 {})", u32::from(a)),
        IpAddr::V6(a) => format!("(V6 {})", u128::from(a)),
    }
}

/// to_canonical written out: ::ffff:a.b.c.d is a.b.c.d
fn canon(ip: IpAddr) -> IpAddr {
    match ip {
        IpAddr::V6(a) => {
            let o = a.octets();
            if o[..10].iter().all(|b| *b == 0) && o[10] == 0xff && o[11] == 0xff {
                IpAddr::V4(Ipv4Addr::new(o[12], o[13], o[14], o[15]))
            } else {
                ip
            }
        }
        _ => ip,
    }
}

#[derive(Clone, Debug, PartialEq, Eq)]
struct UObs {
    tag: u8, // 0 accepted 1 parse 2 notresponse 3 case 4 io 5 msg 6 timeout 9 other/panic
    pos: usize,
    examined: usize,
    qs: Vec<Qn>,
}

/// the property evaluated on the script, from the kinds the generator built (no model)
fn udp_expect(rq: &UReq, evs: &[UEv]) -> UObs {
    let mut examined = 0;
    for (i, ev) in evs.iter().enumerate() {
        if i >= 3 {
            break;
        }
        examined += 1;
        let d = match ev {
            UEv::Err => return UObs { tag: 4, pos: 0, examined, qs: vec![] },
            UEv::Dg(d) => d,
        };
        if canon(d.src.ip()) != canon(rq.server.ip()) || d.src.port() != rq.server.port() {
            continue;
        }
        match &d.view {
            View::Garbage => return UObs { tag: 1, pos: 0, examined, qs: vec![] },
            View::Msg { resp: false, .. } => return UObs { tag: 2, pos: 0, examined, qs: vec![] },
            View::Msg { id, qs, .. } => {
                if *id != rq.id {
                    continue;
                }
                let ci = |e: &Qn| rq.qs.iter().any(|r| r.t == e.t && r.c == e.c && name_ci(&r.labels, &e.labels));
                let cs = |e: &Qn| rq.qs.iter().any(|r| r == e);
                if !qs.iter().all(ci) {
                    continue;
                }
                if rq.case_rand && !qs.iter().all(cs) {
                    return UObs { tag: 3, pos: 0, examined, qs: vec![] };
                }
                let out: Vec<Qn> = qs
                    .iter()
                    .map(|q| match (&rq.orig, rq.case_rand) {
                        (Some(o), true) if o.t == q.t && o.c == q.c && name_ci(&o.labels, &q.labels) => o.clone(),
                        _ => q.clone(),
                    })
                    .collect();
                return UObs { tag: 0, pos: i, examined, qs: out };
            }
        }
    }
    if evs.len() >= 3 {
        UObs { tag: 5, pos: 0, examined: 3, qs: vec![] }
    } else {
        UObs { tag: 6, pos: 0, examined, qs: vec![] }
    }
}

fn classify_err(e: &NetError) -> u8 {
    match e {
        NetError::QueryCaseMismatch => 3,
        NetError::Proto(ProtoError::NotAResponse) => 2,
        NetError::Proto(_) => 1,
        NetError::Io(_) => 4,
        NetError::Message(_) | NetError::Msg(_) => 5,
        NetError::Timeout => 6,
        _ => 9,
    }
}

fn run_udp(rq: &UReq, evs: &[UEv]) -> Result<(UObs, Vec<SocketAddr>, Vec<Vec<u8>>), String> {
    time_reset();
    let shared = Arc::new(Mutex::new(UdpShared::default()));
    {
        let mut s = shared.lock().unwrap();
        s.rx.push(
            evs.iter()
                .map(|e| match e {
                    UEv::Dg(d) => SockEv::Dg(d.bytes.clone(), d.src),
                    UEv::Err => SockEv::Err,
                })
                .collect(),
        );
    }
    let mut msg = Message::new(rq.id, MessageType::Query, OpCode::Query);
    msg.metadata.recursion_desired = true;
    for q in &rq.qs {
        msg.add_query(q.to_query());
    }
    let mut opts = DnsRequestOptions::default();
    opts.case_randomization = rq.case_rand;
    opts.use_edns = false;
    let req = DnsRequest::new(msg, opts).with_original_query(rq.orig.as_ref().map(|q| q.to_query()));
    let server = rq.server;
    let sh = shared.clone();
    let datagrams: Vec<Vec<u8>> = evs
        .iter()
        .map(|e| match e {
            UEv::Dg(d) => d.bytes.clone(),
            UEv::Err => vec![],
        })
        .collect();
    guard(AssertUnwindSafe(move || {
        let provider = ScriptProvider(sh.clone());
        let mut client = UdpClientStream::builder(server, provider)
            .with_timeout(Some(Duration::from_secs(5)))
            .with_max_retries(1)
            .build();
        let mut stream: DnsResponseStream = client.send_message(req);
        let waker = noop_waker();
        let mut cx = Context::from_waker(&waker);
        let mut polls = 0;
        let first: Option<Result<DnsResponse, NetError>> = loop {
            polls += 1;
            if polls > 10_000 {
                panic!("poll budget exceeded");
            }
            match stream.poll_next_unpin(&mut cx) {
                Poll::Ready(x) => break x,
                Poll::Pending => {
                    if sh.lock().unwrap().starved {
                        // nothing more will arrive: the overall timeout fires
                        set_deadline();
                    }
                }
            }
        };
        let s = sh.lock().unwrap();
        let examined: usize = s.recv_returned.iter().sum();
        let obs = match first {
            Some(Ok(resp)) => {
                let pos = datagrams.iter().position(|d| !d.is_empty() && d[..] == *resp.as_buffer()).unwrap_or(999);
                let qs = resp.queries.iter().map(Qn::from_query).collect();
                UObs { tag: 0, pos, examined, qs }
            }
            Some(Err(e)) => UObs { tag: classify_err(&e), pos: 0, examined, qs: vec![] },
            None => UObs { tag: 6, pos: 0, examined, qs: vec![] },
        };
        (obs, s.bound.clone(), s.sent.iter().map(|x| x.1.clone()).collect())
    }))
}


/// what the receive loop must do with one datagram (from the generator's view of it)
enum Verdict {
    Skip,
    Fatal(u8),
    Accept(Vec<Qn>),
}

fn classify_dgram(rq: &UReq, d: &Dgram) -> Verdict {
    match udp_expect(rq, &[UEv::Dg(d.clone())]) {
        UObs { tag: 0, qs, .. } => Verdict::Accept(qs),
        UObs { tag: 6, .. } => Verdict::Skip,
        UObs { tag, .. } => Verdict::Fatal(tag),
    }
}

#[derive(Clone, Debug)]
enum REv {
    Rx(usize, UEv),
    Tick,
    Deadline,
}

/// tag as for UObs; i = transmission that ended the request; n = datagrams it had skipped;
/// pos = index of the script step that ended the request (script length if it timed out at the end)
#[derive(Clone, Debug, PartialEq, Eq)]
struct RObs {
    tag: u8,
    i: usize,
    n: usize,
    pos: usize,
    qs: Vec<Qn>,
}

/// the whole request as the property describes it, evaluated from the generator's kinds
fn request_expect(rq: &UReq, max_tasks: usize, setups: &[u8], evs: &[REv]) -> RObs {
    let setup_fail = |i: usize| -> Option<u8> {
        match setups.get(i).copied().unwrap_or(0) {
            1 | 2 => Some(4),
            3 => Some(5),
            _ => None,
        }
    };
    if let Some(tag) = setup_fail(0) {
        return RObs { tag, i: 0, n: 0, pos: 0, qs: vec![] };
    }
    let mut seen: Vec<usize> = vec![0];
    let mut armed = true;
    for (k, ev) in evs.iter().enumerate() {
        let pos = k + 1;
        match ev {
            REv::Deadline => return RObs { tag: 6, i: 0, n: 0, pos, qs: vec![] },
            REv::Tick => {
                if armed {
                    if seen.len() < max_tasks {
                        let i = seen.len();
                        if let Some(tag) = setup_fail(i) {
                            return RObs { tag, i, n: 0, pos, qs: vec![] };
                        }
                        seen.push(0);
                    } else {
                        armed = false;
                    }
                }
            }
            REv::Rx(i, e) => {
                if *i >= seen.len() {
                    continue;
                }
                let n = seen[*i];
                match e {
                    UEv::Err => return RObs { tag: 4, i: *i, n, pos, qs: vec![] },
                    UEv::Dg(d) => match classify_dgram(rq, d) {
                        Verdict::Accept(qs) => return RObs { tag: 0, i: *i, n, pos, qs },
                        Verdict::Fatal(tag) => return RObs { tag, i: *i, n, pos, qs: vec![] },
                        Verdict::Skip => {
                            if n == 2 {
                                return RObs { tag: 5, i: *i, n: 0, pos, qs: vec![] };
                            }
                            seen[*i] = n + 1;
                        }
                    },
                }
            }
        }
    }
    RObs { tag: 6, i: 0, n: 0, pos: evs.len() + 1, qs: vec![] }
}

struct ReqRun {
    obs: RObs,
    bound: Vec<SocketAddr>,
    sent: Vec<(usize, Vec<u8>)>,
    recv_returned: Vec<usize>,
    accepted_bytes: Option<Vec<u8>>,
}

fn run_request(rq: &UReq, max_retries: u8, setups: &[u8], evs: &[REv]) -> Result<ReqRun, String> {
    time_reset();
    let shared = Arc::new(Mutex::new(UdpShared::default()));
    shared.lock().unwrap().setups = setups.to_vec();
    for _ in 0..8 {
        let mut s = shared.lock().unwrap();
        s.rx.push(VecDeque::new());
        s.recv_returned.push(0);
    }
    let mut msg = Message::new(rq.id, MessageType::Query, OpCode::Query);
    msg.metadata.recursion_desired = true;
    for q in &rq.qs {
        msg.add_query(q.to_query());
    }
    let mut opts = DnsRequestOptions::default();
    opts.case_randomization = rq.case_rand;
    opts.use_edns = false;
    let req = DnsRequest::new(msg, opts).with_original_query(rq.orig.as_ref().map(|q| q.to_query()));
    let server = rq.server;
    let sh = shared.clone();
    let evs = evs.to_vec();
    guard(AssertUnwindSafe(move || {
        let provider = ScriptProvider(sh.clone());
        let mut client = UdpClientStream::builder(server, provider)
            .with_timeout(Some(Duration::from_secs(5)))
            .with_max_retries(max_retries)
            .build();
        let mut stream: DnsResponseStream = client.send_message(req);
        let waker = noop_waker();
        let mut cx = Context::from_waker(&waker);
        let mut result: Option<Option<Result<DnsResponse, NetError>>> = None;
        let mut pos = 0usize;
        let poll_some = |stream: &mut DnsResponseStream, cx: &mut Context<'_>| -> Option<Option<Result<DnsResponse, NetError>>> {
            for _ in 0..4 {
                if let Poll::Ready(x) = stream.poll_next_unpin(cx) {
                    return Some(x);
                }
            }
            None
        };
        result = result.or_else(|| poll_some(&mut stream, &mut cx));
        let at_start = result.is_some();
        let mut completed_in_script = false;
        if result.is_none() {
            for (k, ev) in evs.iter().enumerate() {
                pos = k;
                match ev {
                    REv::Rx(i, e) => {
                        let mut s = sh.lock().unwrap();
                        // a datagram cannot reach a socket that does not exist
                        if *i < s.bound.len() {
                            s.rx[*i].push_back(match e {
                                UEv::Dg(d) => SockEv::Dg(d.bytes.clone(), d.src),
                                UEv::Err => SockEv::Err,
                            });
                        }
                    }
                    REv::Tick => fire_all_timers(),
                    REv::Deadline => set_deadline(),
                }
                if let Some(x) = poll_some(&mut stream, &mut cx) {
                    result = Some(x);
                    completed_in_script = true;
                    break;
                }
            }
        }
        if result.is_none() {
            set_deadline();
            result = poll_some(&mut stream, &mut cx);
        }
        let s = sh.lock().unwrap();
        let last = s.last_recv_socket;
        let started_last = s.bound.len().saturating_sub(1);
        let (tag, qs, accepted_bytes) = match result {
            Some(Some(Ok(resp))) => (0u8, resp.queries.iter().map(Qn::from_query).collect(), Some(resp.as_buffer().to_vec())),
            Some(Some(Err(e))) => (classify_err(&e), vec![], None),
            Some(None) => (6, vec![], None),
            None => (9, vec![], None),
        };
        // which transmission ended the request: the one named by the script step that was being
        // executed, or the one being started by a retry tick / at the beginning
        let (i, n, steps) = if tag == 6 || tag == 9 {
            (0, 0, if completed_in_script { pos + 1 } else { evs.len() + 1 })
        } else if at_start {
            (0, 0, 0)
        } else {
            match evs.get(pos) {
                Some(REv::Rx(i, _)) if tag == 5 => (*i, 0, pos + 1),
                Some(REv::Rx(i, _)) => (*i, s.recv_returned[*i].saturating_sub(1), pos + 1),
                _ => (started_last, 0, pos + 1),
            }
        };
        let _ = last;
        let pos = steps;
        ReqRun {
            obs: RObs { tag, i, n, pos, qs },
            bound: s.bound.clone(),
            sent: s.sent.iter().map(|x| (x.0, x.1.clone())).collect(),
            recv_returned: s.recv_returned.clone(),
            accepted_bytes,
        }
    }))
}

fn request_case(seed: u64, index: u64, r: &mut Rng) -> CaseOut {
    let server = *r.pick(&servers());
    let qs = vec![Qn { labels: gen_name(r), t: *r.pick(&[1u16, 28]), c: 1 }];
    let case_rand = r.chance(1, 3);
    let rq = UReq { server, id: r.next() as u16, qs, case_rand, orig: None };
    let max_retries = *r.pick(&[0u8, 1, 2, 3, 3]);
    let max_tasks = max_retries as usize;
    let mut setups: Vec<u8> = vec![0; 4];
    if r.chance(1, 8) {
        let k = r.below(3) as usize;
        setups[k] = r.range(1, 3) as u8;
    }
    // script
    let nev = r.range(1, 12) as usize;
    let mut evs: Vec<REv> = vec![];
    let mut ntx = 1usize; // transmissions the generator expects to exist (if nothing fails)
    let mut armed = true;
    let mut marker = 1u32;
    let genuine_at = if r.chance(4, 5) { Some(r.below(nev as u64) as usize) } else { None };
    let early_ticks = if r.chance(1, 2) { r.range(1, 3) as usize } else { 0 };
    for k in 0..nev {
        let c = if k < early_ticks && r.chance(2, 3) { 0 } else { r.below(100) };
        if Some(k) == genuine_at && k >= early_ticks {
            let i = r.below(ntx as u64) as usize;
            evs.push(REv::Rx(i, UEv::Dg(gen_dgram(r, &rq, marker, "genuine"))));
            marker += 1;
        } else if c < 22 {
            evs.push(REv::Tick);
            if armed {
                if ntx < max_tasks {
                    ntx += 1;
                } else {
                    armed = false;
                }
            }
        } else if c < 25 {
            evs.push(REv::Deadline);
        } else if c < 28 {
            evs.push(REv::Rx(r.below(ntx as u64) as usize, UEv::Err));
        } else {
            let i = r.below(ntx as u64) as usize;
            let kind = if r.chance(3, 4) { FORGED[r.below(7) as usize] } else { *r.pick(FORGED) };
            evs.push(REv::Rx(i, UEv::Dg(gen_dgram(r, &rq, marker, kind))));
            marker += 1;
        }
    }
    let expect = request_expect(&rq, max_tasks, &setups, &evs);
    let got = run_request(&rq, max_retries, &setups, &evs);

    let ev_text: Vec<String> = evs
        .iter()
        .map(|e| match e {
            REv::Tick => "TICK".to_string(),
            REv::Deadline => "DEADLINE".to_string(),
            REv::Rx(i, UEv::Err) => format!("{i}:ERR"),
            REv::Rx(i, UEv::Dg(d)) => format!("{i}:{}<{}>{}", d.kind, d.src, hex(&d.bytes)),
        })
        .collect();
    let text_in = format!(
        "R server={} id={} qs=[{}] case_rand={} max_retries={} setups={:?} script=[{}]",
        rq.server,
        rq.id,
        rq.qs.iter().map(|q| q.text()).collect::<Vec<_>>().join(","),
        rq.case_rand,
        max_retries,
        setups,
        ev_text.join(" ; ")
    );
    let rq_coq = format!(
        "(HRq {} {} {} {} {} None)",
        ip_coq(rq.server.ip()),
        rq.server.port(),
        rq.id,
        coq_list(rq.qs.iter().map(|q| q.coq())),
        rq.case_rand
    );
    let sev_coq = |e: &UEv| match e {
        UEv::Err => "HErr".to_string(),
        UEv::Dg(d) => format!(
            "(HDg {} {} {})",
            ip_coq(d.src.ip()),
            d.src.port(),
            match &d.view {
                View::Garbage => "HGarbage".to_string(),
                View::Msg { resp, id, qs } => format!("(HMsg {} {} {})", resp, id, coq_list(qs.iter().map(|q| q.coq()))),
            }
        ),
    };
    let evs_coq = coq_list(evs.iter().map(|e| match e {
        REv::Tick => "HTick".to_string(),
        REv::Deadline => "HDeadline".to_string(),
        REv::Rx(i, e) => format!("HRx {} {}", i, sev_coq(e)),
    }));
    let sups_coq = coq_list(setups.iter().map(|x| {
        match x {
            1 => "SetBindErr",
            2 => "SetSendErr",
            3 => "SetSendShort",
            _ => "SetOk",
        }
        .to_string()
    }));
    let (coq, obs_text, oracle_fail) = match &got {
        Ok(run) => {
            let o = &run.obs;
            let coq = format!(
                "CReq {} {} {} {} (RO {} {} {} {} {})",
                rq_coq,
                max_tasks,
                sups_coq,
                evs_coq,
                o.tag,
                o.i,
                o.n,
                o.pos,
                coq_list(o.qs.iter().map(|q| q.coq()))
            );
            let otext = format!("tag={} tx={} skipped={} step={} sockets={} recv={:?}", o.tag, o.i, o.n, o.pos, run.bound.len(), run.recv_returned);
            let mut fail = None;
            if o.tag == 0 {
                // completion: the accepted bytes are those of a datagram that the property allows
                let acc = evs.iter().enumerate().find_map(|(k, e)| match e {
                    REv::Rx(i, UEv::Dg(d)) if Some(&d.bytes) == run.accepted_bytes.as_ref() => Some((k, *i, d.clone())),
                    _ => None,
                });
                match acc {
                    None => fail = Some("request completed with bytes that no datagram of the script carried".to_string()),
                    Some((k, _i, d)) => {
                        if !matches!(classify_dgram(&rq, &d), Verdict::Accept(_)) {
                            fail = Some(format!("request completed with the non-matching datagram of step {k} ({})", d.kind));
                        }
                    }
                }
            }
            if fail.is_none() {
                if let Some(c) = run.recv_returned.iter().find(|c| **c > 3) {
                    fail = Some(format!("{c} datagrams examined by one transmission"));
                } else if run.bound.len() > max_tasks.max(1) {
                    fail = Some(format!("{} transmissions with max_retries={}", run.bound.len(), max_retries));
                } else if run.sent.iter().any(|(_, b)| b.len() < 2 || b[..2] != rq.id.to_be_bytes() || *b != run.sent[0].1) {
                    fail = Some("retransmission differs from the first transmission".to_string());
                } else if *o != expect {
                    fail = Some(format!("outcome {otext} differs from the specified outcome {:?}", expect));
                }
            }
            (coq, otext, fail)
        }
        Err(p) => (
            format!("CReq {} {} {} {} (RO 9 0 0 0 [])", rq_coq, max_tasks, sups_coq, evs_coq),
            format!("PANIC {p}"),
            Some(format!("implementation panicked: {p}")),
        ),
    };
    let ticks = evs.iter().filter(|e| matches!(e, REv::Tick)).count();
    CaseOut {
        index,
        coq,
        text: format!("seed={seed} index={index} udp-retry {text_in} => {obs_text}"),
        key: text_in,
        nontrivial: evs.len() >= 2,
        kind: format!("udp-retry:max{}:ticks{}", max_retries, ticks.min(3)),
        oracle_fail,
        known: None,
    }
}

const LABELS: &[&[u8]] = &[b"www", b"ExAmple", b"com", b"a", b"B1", b"mail", b"NET", b"x-y"];

fn gen_name(r: &mut Rng) -> Vec<Vec<u8>> {
    let k = r.range(1, 3) as usize;
    (0..k).map(|_| r.pick(LABELS).to_vec()).collect()
}

fn flip_case(r: &mut Rng, n: &[Vec<u8>]) -> Option<Vec<Vec<u8>>> {
    let mut pos = vec![];
    for (i, l) in n.iter().enumerate() {
        for (j, b) in l.iter().enumerate() {
            if b.is_ascii_alphabetic() {
                pos.push((i, j));
            }
        }
    }
    if pos.is_empty() {
        return None;
    }
    let mut out = n.to_vec();
    let k = r.range(1, 2.min(pos.len() as u64));
    for _ in 0..k {
        let (i, j) = *r.pick(&pos);
        out[i][j] ^= 0x20;
    }
    if out == n {
        let (i, j) = pos[0];
        out[i][j] ^= 0x20;
    }
    Some(out)
}

fn servers() -> Vec<SocketAddr> {
    vec![
        "192.0.2.53:53".parse().unwrap(),
        "[2001:db8::53]:5353".parse().unwrap(),
        "[::ffff:192.0.2.53]:53".parse().unwrap(),
        "10.0.0.1:1053".parse().unwrap(),
    ]
}

fn gen_dgram(r: &mut Rng, rq: &UReq, marker: u32, want: &str) -> Dgram {
    let right = rq.server;
    // equivalent spellings of the server address
    let right_alt = match right.ip() {
        IpAddr::V4(a) => SocketAddr::new(IpAddr::V6(a.to_ipv6_mapped()), right.port()),
        IpAddr::V6(a) => match a.to_ipv4_mapped() {
            Some(v4) => SocketAddr::new(IpAddr::V4(v4), right.port()),
            None => SocketAddr::V6(SocketAddrV6::new(a, right.port(), 7, 3)),
        },
    };
    let subset = |r: &mut Rng| -> Vec<Qn> {
        if rq.qs.len() == 1 || r.chance(2, 3) {
            rq.qs.clone()
        } else {
            vec![r.pick(&rq.qs).clone()]
        }
    };
    let mk = |kind: &'static str, src: SocketAddr, resp: bool, id: u16, qs: Vec<Qn>| Dgram {
        kind,
        src,
        bytes: wire_msg(id, resp, &qs, marker),
        view: View::Msg { resp, id, qs },
    };
    match want {
        "genuine" => mk("genuine", right, true, rq.id, subset(r)),
        "genuine-alt-src" => mk("genuine-alt-src", right_alt, true, rq.id, subset(r)),
        "wrong-ip" => {
            let ip: IpAddr = match r.below(4) {
                0 => IpAddr::V4(Ipv4Addr::new(192, 0, 2, 54)),
                1 => IpAddr::V6("2001:db8::54".parse().unwrap()),
                // IPv4-compatible (not mapped) spelling of the same number: a different host
                2 => match canon(right.ip()) {
                    IpAddr::V4(a) => IpAddr::V6(Ipv6Addr::from(u32::from(a) as u128)),
                    IpAddr::V6(a) => IpAddr::V6(Ipv6Addr::from(u128::from(a) ^ 1)),
                },
                _ => IpAddr::V4(Ipv4Addr::new(127, 0, 0, 1)),
            };
            mk("wrong-ip", SocketAddr::new(ip, right.port()), true, rq.id, subset(r))
        }
        "wrong-port" => {
            let p = if r.chance(1, 2) { right.port() ^ 1 } else { r.range(1024, 65535) as u16 };
            let p = if p == right.port() { p.wrapping_add(1) } else { p };
            mk("wrong-port", SocketAddr::new(right.ip(), p), true, rq.id, subset(r))
        }
        "wrong-id" => {
            let id = if r.chance(1, 2) { rq.id ^ (1 << r.below(16)) } else { r.next() as u16 };
            let id = if id == rq.id { id.wrapping_add(1) } else { id };
            mk("wrong-id", right, true, id, subset(r))
        }
        "wrong-question" => {
            let mut q = r.pick(&rq.qs).clone();
            match r.below(3) {
                0 => q.t = if q.t == 1 { 28 } else { 1 },
                1 => q.c = if r.chance(1, 2) { 3 } else { q.c | 0x8000 },
                _ => {
                    q.labels.push(b"evil".to_vec());
                }
            }
            mk("wrong-question", right, true, rq.id, vec![q])
        }
        "extra-question" => {
            let mut qs = rq.qs.clone();
            let extra = Qn { labels: vec![b"evil".to_vec(), b"com".to_vec()], t: 1, c: 1 };
            if r.chance(1, 2) {
                qs.push(extra);
            } else {
                qs.insert(0, extra);
            }
            mk("extra-question", right, true, rq.id, qs)
        }
        "case-flipped" => {
            let mut qs = subset(r);
            let i = r.below(qs.len() as u64) as usize;
            match flip_case(r, &qs[i].labels) {
                Some(n) => {
                    qs[i].labels = n;
                    mk("case-flipped", right, true, rq.id, qs)
                }
                None => mk("genuine", right, true, rq.id, qs),
            }
        }
        "no-question" => mk("no-question", right, true, rq.id, vec![]),
        "not-response" => mk("not-response", right, false, rq.id, subset(r)),
        "garbage" => {
            let n = r.range(0, 11) as usize;
            Dgram { kind: "garbage", src: right, bytes: r.bytes(n), view: View::Garbage }
        }
        "truncated" => {
            let full = wire_msg(rq.id, true, &rq.qs, marker);
            let cut = r.range(12, (full.len() - 11) as u64) as usize;
            // cut inside the question or the answer record: counts promise more than there is
            Dgram { kind: "truncated", src: right, bytes: full[..cut].to_vec(), view: View::Garbage }
        }
        "garbage-elsewhere" => {
            let n = r.range(0, 30) as usize;
            let src = SocketAddr::new(IpAddr::V4(Ipv4Addr::new(198, 51, 100, 7)), right.port());
            Dgram { kind: "garbage-elsewhere", src, bytes: r.bytes(n), view: View::Garbage }
        }
        _ => {
            // random bytes after a plausible header from the right source; the view is what
            // the implementation's own parser says (the parser is C01's subject, not ours)
            let n = r.range(12, 40) as usize;
            let mut b = r.bytes(n);
            if r.chance(1, 2) {
                b[..2].copy_from_slice(&rq.id.to_be_bytes());
                b[2] |= 0x80;
                b[4] = 0;
                b[5] = r.below(2) as u8;
                b[6] = 0;
                b[7] = 0;
                b[8] = 0;
                b[9] = 0;
                b[10] = 0;
                b[11] = 0;
            }
            let view = match Message::from_vec(&b) {
                Ok(m) => View::Msg {
                    resp: m.metadata.message_type == MessageType::Response,
                    id: m.metadata.id,
                    qs: m.queries.iter().map(Qn::from_query).collect(),
                },
                Err(_) => View::Garbage,
            };
            Dgram { kind: "random-bytes", src: right, bytes: b, view }
        }
    }
}

const FORGED: &[&str] = &[
    "wrong-ip",
    "wrong-port",
    "wrong-id",
    "wrong-question",
    "extra-question",
    "case-flipped",
    "garbage-elsewhere",
    "wrong-ip",
    "wrong-port",
    "wrong-id",
    "no-question",
    "not-response",
    "garbage",
    "truncated",
    "random-bytes",
];

fn udp_case(seed: u64, index: u64, r: &mut Rng) -> CaseOut {
    let server = *r.pick(&servers());
    let nq = if r.chance(1, 5) { 2 } else { 1 };
    let mut qs: Vec<Qn> = vec![];
    for _ in 0..nq {
        qs.push(Qn { labels: gen_name(r), t: *r.pick(&[1u16, 28, 15, 16]), c: 1 });
    }
    let case_rand = r.chance(1, 2);
    let orig = if case_rand && r.chance(4, 5) {
        let mut o = qs[0].clone();
        for l in o.labels.iter_mut() {
            for b in l.iter_mut() {
                *b = lower(*b);
            }
        }
        Some(o)
    } else if r.chance(1, 10) {
        Some(qs[0].clone())
    } else {
        None
    };
    let rq = UReq { server, id: r.next() as u16, qs, case_rand, orig };
    // schedule: some forged datagrams, the genuine reply somewhere (or never), maybe an error
    let family = r.below(10);
    let n = match family {
        0 => r.range(0, 1),
        1..=6 => r.range(1, 4),
        _ => r.range(3, 6),
    } as usize;
    let genuine_at: Option<usize> = if r.chance(5, 6) { Some(r.below(n as u64 + 1) as usize) } else { None };
    // forged datagrams that are only skipped (so that late positions are reached) vs. any
    let mild = r.chance(1, 2);
    let mut evs = vec![];
    let mut marker = 1u32;
    for i in 0..=n {
        if Some(i) == genuine_at {
            let k = if r.chance(1, 6) { "genuine-alt-src" } else { "genuine" };
            evs.push(UEv::Dg(gen_dgram(r, &rq, marker, k)));
            marker += 1;
        }
        if i == n {
            break;
        }
        if r.chance(1, 40) {
            evs.push(UEv::Err);
            continue;
        }
        let kind = if mild { FORGED[r.below(7) as usize] } else { *r.pick(FORGED) };
        evs.push(UEv::Dg(gen_dgram(r, &rq, marker, kind)));
        marker += 1;
    }
    let expect = udp_expect(&rq, &evs);
    let got = run_udp(&rq, &evs);

    let ev_text: Vec<String> = evs
        .iter()
        .map(|e| match e {
            UEv::Err => "ERR".to_string(),
            UEv::Dg(d) => format!("{}<{}>{}", d.kind, d.src, hex(&d.bytes)),
        })
        .collect();
    let text_in = format!(
        "U server={} id={} qs=[{}] case_rand={} orig={} script=[{}]",
        rq.server,
        rq.id,
        rq.qs.iter().map(|q| q.text()).collect::<Vec<_>>().join(","),
        rq.case_rand,
        rq.orig.as_ref().map(|q| q.text()).unwrap_or("-".into()),
        ev_text.join(" ; ")
    );
    let rq_coq = format!(
        "(HRq {} {} {} {} {} {})",
        ip_coq(rq.server.ip()),
        rq.server.port(),
        rq.id,
        coq_list(rq.qs.iter().map(|q| q.coq())),
        rq.case_rand,
        match &rq.orig {
            Some(o) => format!("(Some ({}))", o.coq()),
            None => "None".into(),
        }
    );
    let evs_coq = coq_list(evs.iter().map(|e| match e {
        UEv::Err => "HErr".to_string(),
        UEv::Dg(d) => format!(
            "HDg {} {} {}",
            ip_coq(d.src.ip()),
            d.src.port(),
            match &d.view {
                View::Garbage => "HGarbage".to_string(),
                View::Msg { resp, id, qs } => format!("(HMsg {} {} {})", resp, id, coq_list(qs.iter().map(|q| q.coq()))),
            }
        ),
    }));
    let kinds: BTreeSet<&str> = evs
        .iter()
        .map(|e| match e {
            UEv::Err => "io-error",
            UEv::Dg(d) => d.kind,
        })
        .collect();
    let (coq, obs_text, oracle_fail) = match &got {
        Ok((o, bound, sent)) => {
            let coq = format!(
                "CUdp {} {} (UO {} {} {} {})",
                rq_coq,
                evs_coq,
                o.tag,
                o.pos,
                o.examined,
                coq_list(o.qs.iter().map(|q| q.coq()))
            );
            let otext = format!(
                "tag={} pos={} examined={} qs=[{}]",
                o.tag,
                o.pos,
                o.examined,
                o.qs.iter().map(|q| q.text()).collect::<Vec<_>>().join(",")
            );
            let mut fail = None;
            if o.tag == 0 && expect.tag != 0 {
                fail = Some(format!(
                    "request completed with datagram #{} which is not an acceptable reply at that point (expected {:?})",
                    o.pos, expect
                ));
            } else if o.tag == 0 && o.pos != expect.pos {
                fail = Some(format!("request completed with datagram #{} instead of #{}", o.pos, expect.pos));
            } else if o.examined > 3 {
                fail = Some(format!("{} datagrams examined in one transmission", o.examined));
            } else if *o != expect {
                fail = Some(format!("outcome {otext} differs from the specified outcome {:?}", expect));
            }
            // the query went to the server once, from an unprivileged random port, with our id
            if fail.is_none() {
                if sent.len() != 1 || sent[0].len() < 2 || sent[0][..2] != rq.id.to_be_bytes() {
                    fail = Some(format!("unexpected transmissions: {:?}", sent.iter().map(|b| hex(b)).collect::<Vec<_>>()));
                } else if bound.len() != 1 || bound[0].port() < 1024 {
                    fail = Some(format!("unexpected local bind addresses {:?}", bound));
                }
            }
            (coq, otext, fail)
        }
        Err(p) => (
            format!("CUdp {} {} (UO 9 0 0 [])", rq_coq, evs_coq),
            format!("PANIC {p}"),
            Some(format!("implementation panicked: {p}")),
        ),
    };
    CaseOut {
        index,
        coq,
        text: format!("seed={seed} index={index} udp {text_in} => {obs_text}"),
        key: text_in,
        nontrivial: evs.len() >= 2,
        kind: format!("udp:{}", kinds.into_iter().collect::<Vec<_>>().join("+")),
        oracle_fail,
        known: None,
    }
}

// ------------------------------------------------------------------------------------------
// Mux: scripted DnsClientStream
// ------------------------------------------------------------------------------------------

/// informational (not part of the property): polls of the multiplexer that returned Pending
/// with unread messages left in the stream and without waking the task
static QOS_POLLS_AT_LIMIT: AtomicU64 = AtomicU64::new(0);
static QOS_POLLS_AT_LIMIT_NOT_WOKEN: AtomicU64 = AtomicU64::new(0);

struct CountWaker(AtomicU64);
impl Wake for CountWaker {
    fn wake(self: Arc<Self>) {
        self.0.fetch_add(1, Ordering::SeqCst);
    }
    fn wake_by_ref(self: &Arc<Self>) {
        self.0.fetch_add(1, Ordering::SeqCst);
    }
}

enum InEv {
    Msg(Vec<u8>),
    Eof,
    Err,
}

#[derive(Default)]
struct MuxShared {
    inq: VecDeque<InEv>,
}

struct ScriptStream {
    shared: Arc<Mutex<MuxShared>>,
    addr: SocketAddr,
}

impl Stream for ScriptStream {
    type Item = Result<SerialMessage, NetError>;
    fn poll_next(self: Pin<&mut Self>, _cx: &mut Context<'_>) -> Poll<Option<Self::Item>> {
        let mut s = self.shared.lock().unwrap();
        match s.inq.pop_front() {
            None => Poll::Pending,
            Some(InEv::Msg(b)) => Poll::Ready(Some(Ok(SerialMessage::new(b, self.addr)))),
            Some(InEv::Eof) => Poll::Ready(None),
            Some(InEv::Err) => Poll::Ready(Some(Err(NetError::NoConnections))),
        }
    }
}

impl DnsClientStream for ScriptStream {
    type Time = ScriptTime;
    fn name_server_addr(&self) -> SocketAddr {
        self.addr
    }
}

#[derive(Clone, Debug)]
enum InMsg {
    Garbage,
    Msg { resp: bool, id: u16, mk: u32 },
}

#[derive(Clone, Debug)]
enum MOp {
    Send,
    Recv(InMsg),
    Eof,
    Err,
    Poll,
    Timeout(usize),
    Cancel(usize),
    Take(usize),
    Shutdown,
}

#[derive(Clone, Debug, PartialEq, Eq)]
enum MObs {
    Started(u16),
    NotStarted,
    Panic,
    TOk(u16, u32),
    TErr(u8),
    TNone,
    TPending,
    TInvalid,
    PPending,
    PDone,
    Unit,
}

impl MObs {
    fn coq(&self) -> String {
        match self {
            MObs::Started(id) => format!("OSend (SStarted {id})"),
            MObs::NotStarted => "OSend SNotStarted".into(),
            MObs::Panic => "OSend SPanic".into(),
            MObs::TOk(id, mk) => format!("OTake (TOk {id} {mk})"),
            MObs::TErr(e) => format!(
                "OTake (TErr {})",
                match e {
                    1 => "NBusy",
                    2 => "NIdExhausted",
                    3 => "NTimeout",
                    4 => "NCanceled",
                    5 => "NClosedEof",
                    _ => "NClosedErr",
                }
            ),
            MObs::TNone => "OTake TNone".into(),
            MObs::TPending => "OTake TPending".into(),
            MObs::TInvalid => "OTake TInvalid".into(),
            MObs::PPending => "OPoll PPending".into(),
            MObs::PDone => "OPoll PDone".into(),
            MObs::Unit => "OUnit".into(),
        }
    }
}

struct SlotInfo {
    id: Option<u16>,
    timer: Option<usize>,
    stream: Option<DnsResponseStream>,
    /// pending in the sense of the property: started, not cancelled, not timed out, connection open
    live: bool,
    taken: Vec<(u16, u32)>,
}

struct MuxRun {
    mux: DnsMultiplexer<ScriptStream>,
    outbound: StreamReceiver,
    shared: Arc<Mutex<MuxShared>>,
    slots: Vec<SlotInfo>,
    fails: Vec<String>,
    /// markers handed to the stream, with the id they carried (responses only)
    sent_markers: BTreeMap<u32, u16>,
    taken_markers: BTreeSet<u32>,
    closed: bool,
    close_polled: bool,
}

fn mux_query() -> Qn {
    Qn { labels: vec![b"www".to_vec(), b"example".to_vec(), b"com".to_vec()], t: 1, c: 1 }
}

impl MuxRun {
    fn new(maxact: usize) -> MuxRun {
        time_reset();
        let addr: SocketAddr = "192.0.2.1:53".parse().unwrap();
        let shared = Arc::new(Mutex::new(MuxShared::default()));
        let (handle, outbound) = BufDnsStreamHandle::new(addr);
        let stream = ScriptStream { shared: shared.clone(), addr };
        let mux = DnsMultiplexer::new(stream, handle)
            .with_timeout(Duration::from_secs(5))
            .with_max_active_requests(maxact);
        MuxRun {
            mux,
            outbound,
            shared,
            slots: vec![],
            fails: vec![],
            sent_markers: BTreeMap::new(),
            taken_markers: BTreeSet::new(),
            closed: false,
            close_polled: false,
        }
    }

    fn exec(&mut self, op: &MOp) -> MObs {
        let waker = noop_waker();
        let mut cx = Context::from_waker(&waker);
        match op {
            MOp::Send => {
                let mut msg = Message::new(0, MessageType::Query, OpCode::Query);
                msg.add_query(mux_query().to_query());
                let mut opts = DnsRequestOptions::default();
                opts.use_edns = false;
                let req = DnsRequest::new(msg, opts);
                let t0 = timers_created();
                let mux = &mut self.mux;
                let res = guard(AssertUnwindSafe(|| mux.send_message(req)));
                let t1 = timers_created();
                let stream = match res {
                    Err(_) => {
                        self.slots.push(SlotInfo { id: None, timer: None, stream: None, live: false, taken: vec![] });
                        return MObs::Panic;
                    }
                    Ok(s) => s,
                };
                // what went to the connection
                let mut out = vec![];
                while let Poll::Ready(Some(m)) = self.outbound.poll_next_unpin(&mut cx) {
                    out.push(m);
                }
                let timer = if t1 > t0 { Some(t0) } else { None };
                if out.len() == 1 && out[0].bytes().len() >= 2 {
                    let id = u16::from_be_bytes([out[0].bytes()[0], out[0].bytes()[1]]);
                    // in-flight ids are pairwise distinct
                    for (k, s) in self.slots.iter().enumerate() {
                        if s.live && s.id == Some(id) {
                            self.fails.push(format!("request {} got id {} which is still in flight for request {}", self.slots.len(), id, k));
                        }
                    }
                    self.slots.push(SlotInfo { id: Some(id), timer, stream: Some(stream), live: !self.closed, taken: vec![] });
                    MObs::Started(id)
                } else {
                    if !out.is_empty() {
                        self.fails.push(format!("{} messages written for one request", out.len()));
                    }
                    self.slots.push(SlotInfo { id: None, timer, stream: Some(stream), live: false, taken: vec![] });
                    MObs::NotStarted
                }
            }
            MOp::Recv(m) => {
                let bytes = match m {
                    InMsg::Garbage => vec![1, 2, 3],
                    InMsg::Msg { resp, id, mk } => {
                        if *resp {
                            self.sent_markers.insert(*mk, *id);
                        }
                        wire_msg(*id, *resp, &[mux_query()], *mk)
                    }
                };
                self.shared.lock().unwrap().inq.push_back(InEv::Msg(bytes));
                MObs::Unit
            }
            MOp::Eof => {
                self.shared.lock().unwrap().inq.push_back(InEv::Eof);
                MObs::Unit
            }
            MOp::Err => {
                self.shared.lock().unwrap().inq.push_back(InEv::Err);
                MObs::Unit
            }
            MOp::Poll => {
                let cw = Arc::new(CountWaker(AtomicU64::new(0)));
                let w2 = std::task::Waker::from(cw.clone());
                let mut cx2 = Context::from_waker(&w2);
                let r = self.mux.poll_next_unpin(&mut cx2);
                if r.is_pending() && !self.shared.lock().unwrap().inq.is_empty() {
                    QOS_POLLS_AT_LIMIT.fetch_add(1, Ordering::SeqCst);
                    if cw.0.load(Ordering::SeqCst) == 0 {
                        QOS_POLLS_AT_LIMIT_NOT_WOKEN.fetch_add(1, Ordering::SeqCst);
                    }
                }
                match r {
                    Poll::Pending => MObs::PPending,
                    Poll::Ready(None) => MObs::PDone,
                    Poll::Ready(Some(_)) => {
                        self.fails.push("multiplexer stream yielded an item".into());
                        MObs::PPending
                    }
                }
            }
            MOp::Timeout(s) => {
                if let Some(t) = self.slots.get(*s).and_then(|x| x.timer) {
                    fire_timer(t);
                }
                if let Some(x) = self.slots.get_mut(*s) {
                    x.live = false;
                }
                MObs::Unit
            }
            MOp::Cancel(s) => {
                if let Some(x) = self.slots.get_mut(*s) {
                    x.stream = None;
                    x.live = false;
                }
                MObs::Unit
            }
            MOp::Take(s) => {
                let closed_seen = self.close_polled;
                let Some(x) = self.slots.get_mut(*s) else { return MObs::TInvalid };
                let Some(st) = x.stream.as_mut() else { return MObs::TInvalid };
                match st.poll_next_unpin(&mut cx) {
                    Poll::Pending => {
                        if closed_seen {
                            self.fails.push(format!("request {s} still pending after the connection was closed"));
                        }
                        MObs::TPending
                    }
                    Poll::Ready(None) => MObs::TNone,
                    Poll::Ready(Some(Ok(resp))) => {
                        let id = resp.id;
                        let mk = resp.answers.first().map(|a| a.ttl).unwrap_or(0);
                        if x.id != Some(id) {
                            self.fails.push(format!("request {s} (id {:?}) received a response with id {id} (marker {mk})", x.id));
                        }
                        match self.sent_markers.get(&mk) {
                            Some(i) if *i == id => {}
                            other => self.fails.push(format!("request {s} received response marker {mk} id {id}, but the stream carried {:?}", other)),
                        }
                        if !self.taken_markers.insert(mk) {
                            self.fails.push(format!("response marker {mk} delivered twice"));
                        }
                        x.taken.push((id, mk));
                        MObs::TOk(id, mk)
                    }
                    Poll::Ready(Some(Err(e))) => MObs::TErr(match e {
                        NetError::Busy => 1,
                        NetError::Timeout => 3,
                        NetError::Io(ref io) if io.kind() == io::ErrorKind::UnexpectedEof => 5,
                        NetError::NoConnections => 6,
                        NetError::Message(_) | NetError::Msg(_) => 2,
                        _ => 9,
                    }),
                }
            }
            MOp::Shutdown => {
                self.mux.shutdown();
                MObs::Unit
            }
        }
    }
}

fn inmsg_coq(m: &InMsg) -> String {
    match m {
        InMsg::Garbage => "IGarbage".into(),
        InMsg::Msg { resp, id, mk } => format!("(IMsg {resp} {id} {mk})"),
    }
}

fn mop_coq(op: &MOp, obs: &MObs) -> String {
    match op {
        MOp::Send => match obs {
            MObs::Started(id) => format!("MSend [{id}]"),
            _ => "MSend []".into(),
        },
        MOp::Recv(m) => format!("MRecv {}", inmsg_coq(m)),
        MOp::Eof => "MEof".into(),
        MOp::Err => "MErr".into(),
        MOp::Poll => "MPoll".into(),
        MOp::Timeout(s) => format!("MTimeout {s}"),
        MOp::Cancel(s) => format!("MCancel {s}"),
        MOp::Take(s) => format!("MTake {s}"),
        MOp::Shutdown => "MShutdown".into(),
    }
}

fn mop_text(op: &MOp, obs: &MObs) -> String {
    match (op, obs) {
        (MOp::Send, o) => format!("send->{:?}", o),
        (MOp::Recv(InMsg::Garbage), _) => "recv(garbage)".into(),
        (MOp::Recv(InMsg::Msg { resp, id, mk }), _) => format!("recv({}id={id},mk={mk})", if *resp { "" } else { "query," }),
        (MOp::Take(s), o) => format!("take{s}->{:?}", o),
        (MOp::Poll, o) => format!("poll->{:?}", o),
        (o, _) => format!("{:?}", o).to_lowercase(),
    }
}

fn mux_case(seed: u64, index: u64, r: &mut Rng) -> CaseOut {
    let family = match r.below(44) {
        0..=14 => "basic",
        15..=20 => "busy",
        21..=24 => "flood",
        25..=30 => "close",
        31..=34 => "timeouts",
        35 | 36 => "shutdown",
        37 => "qos",
        38 => "birthday",
        _ => "exchange",
    };
    if family == "birthday" {
        return birthday_case(seed, index, r);
    }
    if family == "exchange" {
        return exchange_case(seed, index, r);
    }
    let maxact = match family {
        "busy" => r.range(1, 3) as usize,
        _ => *r.pick(&[4usize, 32]),
    };
    let nops = match family {
        "flood" => r.range(10, 30),
        "qos" => r.range(2, 8),
        _ => r.range(4, 24),
    } as usize;
    let res = guard(AssertUnwindSafe(|| {
        let mut run = MuxRun::new(maxact);
        let mut ops: Vec<(MOp, MObs)> = vec![];
        let mut mk = 1u32;
        let mut closing_sent = false;
        let mut shutdown = false;
        // first a few sends so that there is something to route
        let k0 = r.range(1, 4) as usize;
        let mut script: VecDeque<MOp> = (0..k0).map(|_| MOp::Send).collect();
        let mut n = 0;
        while n < nops || !script.is_empty() {
            n += 1;
            let op = if let Some(op) = script.pop_front() {
                op
            } else {
                let nslots = run.slots.len();
                let started: Vec<usize> = (0..nslots).filter(|i| run.slots[*i].id.is_some()).collect();
                let open: Vec<usize> = (0..nslots).filter(|i| run.slots[*i].stream.is_some()).collect();
                let c = r.below(100);
                let wsend = if shutdown || closing_sent { 0 } else if family == "busy" { 25 } else { 12 };
                if c < wsend {
                    MOp::Send
                } else if c < 45 {
                    // a response: to a known id (possibly answered before), an unknown id, garbage
                    let m = match r.below(12) {
                        0 => InMsg::Garbage,
                        1 | 2 => {
                            let mut id = r.next() as u16;
                            if r.chance(1, 2) && !started.is_empty() {
                                // near miss
                                id = run.slots[*r.pick(&started)].id.unwrap() ^ 1;
                            }
                            mk += 1;
                            InMsg::Msg { resp: true, id, mk }
                        }
                        3 if !started.is_empty() => {
                            mk += 1;
                            InMsg::Msg { resp: false, id: run.slots[*r.pick(&started)].id.unwrap(), mk }
                        }
                        _ if !started.is_empty() => {
                            let s = if family == "flood" { started[0] } else { *r.pick(&started) };
                            mk += 1;
                            InMsg::Msg { resp: true, id: run.slots[s].id.unwrap(), mk }
                        }
                        _ => InMsg::Garbage,
                    };
                    if family == "flood" && r.chance(1, 2) && !started.is_empty() {
                        // more responses to one request than its channel holds, receiver not polled
                        let id = run.slots[started[0]].id.unwrap();
                        for _ in 0..r.range(7, 13) {
                            mk += 1;
                            script.push_back(MOp::Recv(InMsg::Msg { resp: true, id, mk }));
                        }
                        script.push_back(MOp::Poll);
                        if r.chance(1, 2) {
                            // one slot freed: the sender is unparked for exactly one more message
                            script.push_back(MOp::Take(started[0]));
                            for _ in 0..r.range(1, 3) {
                                mk += 1;
                                script.push_back(MOp::Recv(InMsg::Msg { resp: true, id, mk }));
                            }
                            script.push_back(MOp::Poll);
                        }
                    }
                    if family == "qos" && r.chance(1, 2) {
                        // more than QOS_MAX_RECEIVE_MSGS messages readable in one poll; the one that
                        // matters sits around the limit
                        let total = r.range(95, 112) as usize;
                        let at = r.range(96, 103) as usize;
                        for i in 0..total {
                            mk += 1;
                            let id = if i == at && !started.is_empty() {
                                run.slots[*r.pick(&started)].id.unwrap()
                            } else {
                                0xffff
                            };
                            script.push_back(MOp::Recv(InMsg::Msg { resp: true, id, mk }));
                        }
                        script.push_back(MOp::Poll);
                        for s in started.iter().take(3) {
                            if run.slots[*s].stream.is_some() {
                                script.push_back(MOp::Take(*s));
                            }
                        }
                        script.push_back(MOp::Poll);
                    }
                    MOp::Recv(m)
                } else if c < 65 {
                    MOp::Poll
                } else if c < 85 && !open.is_empty() {
                    MOp::Take(*r.pick(&open))
                } else if c < 89 && !open.is_empty() && family != "flood" {
                    MOp::Cancel(*r.pick(&open))
                } else if c < 93 && !started.is_empty() && (family == "timeouts" || r.chance(1, 4)) {
                    MOp::Timeout(*r.pick(&started))
                } else if c < 96 && family == "close" && !closing_sent {
                    closing_sent = true;
                    if r.chance(1, 2) { MOp::Eof } else { MOp::Err }
                } else if c < 97 && family == "shutdown" && !shutdown {
                    shutdown = true;
                    MOp::Shutdown
                } else {
                    MOp::Poll
                }
            };
            let obs = run.exec(&op);
            if matches!(op, MOp::Shutdown) {
                shutdown = true;
            }
            if matches!(op, MOp::Eof | MOp::Err) {
                closing_sent = true;
            }
            if matches!(op, MOp::Poll) && obs == MObs::PDone && closing_sent {
                // the close reached the multiplexer: every pending request must now terminate
                if run.shared.lock().unwrap().inq.iter().all(|e| !matches!(e, InEv::Eof | InEv::Err)) {
                    run.close_polled = true;
                    run.closed = true;
                    for s in run.slots.iter_mut() {
                        s.live = false;
                    }
                }
            }
            ops.push((op, obs));
        }
        // wind down: half of the cases close the connection, then every receiver is drained
        if family == "close" || r.chance(1, 2) {
            if !closing_sent && !shutdown {
                let op = if r.chance(1, 2) { MOp::Eof } else { MOp::Err };
                let obs = run.exec(&op);
                ops.push((op, obs));
                closing_sent = true;
            }
        }
        {
            let obs = run.exec(&MOp::Poll);
            if obs == MObs::PDone && closing_sent && run.shared.lock().unwrap().inq.iter().all(|e| !matches!(e, InEv::Eof | InEv::Err)) {
                run.close_polled = true;
                run.closed = true;
            }
            ops.push((MOp::Poll, obs));
        }
        for s in 0..run.slots.len() {
            if run.slots[s].stream.is_none() {
                continue;
            }
            for _ in 0..12 {
                let obs = run.exec(&MOp::Take(s));
                let stop = matches!(obs, MObs::TNone | MObs::TPending | MObs::TInvalid);
                ops.push((MOp::Take(s), obs));
                if stop {
                    break;
                }
            }
        }
        (ops, run.fails.clone(), run.slots.iter().map(|s| s.id).collect::<Vec<_>>())
    }));
    match res {
        Ok((ops, fails, _ids)) => {
            let ops_coq = coq_list(ops.iter().map(|(o, b)| mop_coq(o, b)));
            let obs_coq = coq_list(ops.iter().map(|(_, b)| b.coq()));
            let text_in = format!("M maxact={} ops=[{}]", maxact, ops.iter().map(|(o, b)| mop_text(o, b)).collect::<Vec<_>>().join(" "));
            let nsend = ops.iter().filter(|(o, _)| matches!(o, MOp::Send)).count();
            CaseOut {
                index,
                coq: format!("CMux {} {} {}", maxact, ops_coq, obs_coq),
                text: format!("seed={seed} index={index} mux-{family} {text_in}"),
                key: text_in,
                nontrivial: nsend >= 2,
                kind: format!("mux:{family}"),
                oracle_fail: fails.first().cloned(),
                known: None,
            }
        }
        Err(p) => CaseOut {
            index,
            coq: "CMux 0 [] [OUnit]".into(),
            text: format!("seed={seed} index={index} mux-{family} PANIC {p}"),
            key: format!("panic {index}"),
            nontrivial: false,
            kind: format!("mux:{family}"),
            oracle_fail: Some(format!("implementation or harness panicked: {p}")),
            known: None,
        },
    }
}


/// k concurrent requests through `DnsExchange` + `DnsExchangeBackground` on top of the
/// multiplexer; responses in any order, duplicated, for unknown ids, or never; then the
/// connection ends.  Checked directly: every response a request sees carries the id that
/// went out with that request's question, no response is seen twice, and after the end of
/// the connection no request is left waiting.
fn exchange_case(seed: u64, index: u64, r: &mut Rng) -> CaseOut {
    let k = r.range(1, 6) as usize;
    let mut log: Vec<String> = vec![];
    let res = guard(AssertUnwindSafe(|| {
        time_reset();
        let mut fails: Vec<String> = vec![];
        let addr: SocketAddr = "192.0.2.1:53".parse().unwrap();
        let shared = Arc::new(Mutex::new(MuxShared::default()));
        let (handle, mut outbound) = BufDnsStreamHandle::new(addr);
        let stream = ScriptStream { shared: shared.clone(), addr };
        let mux = DnsMultiplexer::new(stream, handle).with_timeout(Duration::from_secs(5));
        let (exchange, bg) = DnsExchange::<ScriptProvider>::from_stream(mux);
        let mut bg = Box::pin(bg);
        let waker = noop_waker();
        let mut cx = Context::from_waker(&waker);
        let qname = |i: usize| Qn { labels: vec![format!("r{i}").into_bytes(), b"test".to_vec()], t: 1, c: 1 };
        let mut streams = vec![];
        for i in 0..k {
            let mut msg = Message::new(0, MessageType::Query, OpCode::Query);
            msg.add_query(qname(i).to_query());
            let mut opts = DnsRequestOptions::default();
            opts.use_edns = false;
            streams.push(Some(exchange.send(DnsRequest::new(msg, opts))));
        }
        let mut bg_done = bg.as_mut().poll(&mut cx).is_ready();
        // which id went out with which question
        let mut ids: Vec<Option<u16>> = vec![None; k];
        while let Poll::Ready(Some(m)) = outbound.poll_next_unpin(&mut cx) {
            let b = m.bytes();
            if let Ok(parsed) = Message::from_vec(b) {
                for i in 0..k {
                    if parsed.queries.first().map(Qn::from_query) == Some(qname(i)) {
                        if ids[i].is_some() {
                            fails.push(format!("request {i} transmitted twice"));
                        }
                        ids[i] = Some(parsed.metadata.id);
                    }
                }
            }
        }
        log.push(format!("ids={:?}", ids));
        let known: Vec<(usize, u16)> = ids.iter().enumerate().filter_map(|(i, x)| x.map(|id| (i, id))).collect();
        if known.len() != k {
            fails.push(format!("only {} of {} requests were transmitted", known.len(), k));
        }
        let distinct: BTreeSet<u16> = known.iter().map(|x| x.1).collect();
        if distinct.len() != known.len() {
            fails.push(format!("concurrent requests share ids: {:?}", ids));
        }
        // responses
        let mut mk = 0u32;
        let mut carried: BTreeMap<u32, u16> = BTreeMap::new();
        let mut expected: Vec<Vec<u32>> = vec![vec![]; k];
        let nresp = r.range(0, (2 * k as u64 + 2).min(8)) as usize;
        for _ in 0..nresp {
            mk += 1;
            let (id, q) = match r.below(6) {
                0 => (r.next() as u16, qname(0)),
                1 if !known.is_empty() => (known[0].1 ^ 1, qname(known[0].0)),
                _ if !known.is_empty() => {
                    let (i, id) = *r.pick(&known);
                    (id, qname(i))
                }
                _ => (r.next() as u16, qname(0)),
            };
            if let Some((i, _)) = known.iter().find(|x| x.1 == id) {
                if expected[*i].len() < 8 {
                    expected[*i].push(mk);
                }
            }
            carried.insert(mk, id);
            shared.lock().unwrap().inq.push_back(InEv::Msg(wire_msg(id, true, &[q], mk)));
            log.push(format!("resp(id={id},mk={mk})"));
            if r.chance(1, 3) && !bg_done {
                bg_done = bg.as_mut().poll(&mut cx).is_ready();
            }
        }
        if !bg_done {
            bg_done = bg.as_mut().poll(&mut cx).is_ready();
        }
        let close = r.chance(2, 3);
        let mut seen: BTreeSet<u32> = BTreeSet::new();
        let mut got: Vec<Vec<u32>> = vec![vec![]; k];
        let mut drain = |streams: &mut Vec<Option<hickory_net::xfer::DnsExchangeSend<ScriptProvider>>>, after_close: bool, fails: &mut Vec<String>, log: &mut Vec<String>| {
            let w2 = noop_waker();
            let mut cx = Context::from_waker(&w2);
            for i in 0..k {
                let Some(st) = streams[i].as_mut() else { continue };
                for _ in 0..12 {
                    match StreamExt::poll_next_unpin(st, &mut cx) {
                        Poll::Pending => {
                            if after_close {
                                fails.push(format!("request {i} still pending after the connection ended"));
                            }
                            break;
                        }
                        Poll::Ready(None) => {
                            log.push(format!("req{i}:end"));
                            streams[i] = None;
                            break;
                        }
                        Poll::Ready(Some(Err(_))) => {
                            log.push(format!("req{i}:err"));
                        }
                        Poll::Ready(Some(Ok(resp))) => {
                            let m = resp.answers.first().map(|a| a.ttl).unwrap_or(0);
                            log.push(format!("req{i}:ok(id={},mk={m})", resp.id));
                            if Some(resp.id) != ids[i] {
                                fails.push(format!("request {i} (id {:?}) received a response with id {} (marker {m})", ids[i], resp.id));
                            }
                            if carried.get(&m) != Some(&resp.id) {
                                fails.push(format!("request {i} received marker {m} with id {}, the connection carried {:?}", resp.id, carried.get(&m)));
                            }
                            if !seen.insert(m) {
                                fails.push(format!("response marker {m} delivered twice"));
                            }
                            got[i].push(m);
                        }
                    }
                }
            }
        };
        drain(&mut streams, false, &mut fails, &mut log);
        if close {
            shared.lock().unwrap().inq.push_back(if r.chance(1, 2) { InEv::Eof } else { InEv::Err });
            log.push("close".into());
            if !bg_done {
                bg_done = bg.as_mut().poll(&mut cx).is_ready();
            }
            if !bg_done {
                fails.push("background task still running after the connection ended".into());
            }
            drain(&mut streams, true, &mut fails, &mut log);
        }
        for i in 0..k {
            if got[i] != expected[i] {
                fails.push(format!("request {i} saw responses {:?}, the connection carried {:?} for its id, in this order", got[i], expected[i]));
            }
        }
        fails
    }));
    let (fail, text) = match res {
        Ok(fails) => (fails.first().cloned(), log.join(" ")),
        Err(p) => (Some(format!("panicked: {p}")), format!("PANIC {}", log.join(" "))),
    };
    CaseOut {
        index,
        coq: "CMux 0 [] []".into(),
        text: format!("seed={seed} index={index} mux-exchange k={k} {text}"),
        key: format!("exchange {k} {text}"),
        nontrivial: k >= 2,
        kind: "mux:exchange".into(),
        oracle_fail: fail,
        known: None,
    }
}

/// many requests in flight at once: the ids must be pairwise distinct (the id space is
/// 2^16, so without the check against active ids a clash is practically certain)
fn birthday_case(seed: u64, index: u64, r: &mut Rng) -> CaseOut {
    let n = r.range(1200, 1800) as usize;
    let res = guard(AssertUnwindSafe(|| {
        let mut run = MuxRun::new(100_000);
        let mut ids = vec![];
        for _ in 0..n {
            if let MObs::Started(id) = run.exec(&MOp::Send) {
                ids.push(id);
            }
        }
        (ids, run.fails.clone())
    }));
    let (fail, text) = match res {
        Ok((ids, fails)) => {
            let distinct: BTreeSet<u16> = ids.iter().copied().collect();
            let mut f = fails.first().cloned();
            if f.is_none() && ids.len() != n {
                f = Some(format!("only {} of {} requests started", ids.len(), n));
            }
            if f.is_none() && distinct.len() != ids.len() {
                f = Some(format!("{} requests in flight share {} ids", ids.len(), distinct.len()));
            }
            (f, format!("{} requests in flight, {} distinct ids", ids.len(), distinct.len()))
        }
        Err(p) => (Some(format!("panicked: {p}")), "PANIC".into()),
    };
    CaseOut {
        index,
        coq: "CMux 0 [] []".into(),
        text: format!("seed={seed} index={index} mux-birthday n={n} {text}"),
        key: format!("birthday {n} {index}"),
        nontrivial: true,
        kind: "mux:birthday".into(),
        oracle_fail: fail,
        known: None,
    }
}

fn case(seed: u64, index: u64) -> CaseOut {
    let mut r = Rng::for_case(seed, index);
    if index % 5 < 2 {
        udp_case(seed, index, &mut r)
    } else if index % 5 == 2 {
        request_case(seed, index, &mut r)
    } else {
        mux_case(seed, index, &mut r)
    }
}

fn main() {
    quiet_panics();
    let args = parse_args();
    if let Some((seed, index)) = args.replay {
        let c = case(seed, index);
        println!("{}", c.text);
        println!("COQ {}", c.coq);
        if let Some(f) = c.oracle_fail {
            println!("ORACLE-FAIL {f}");
        }
        return;
    }
    let mut cases = vec![];
    for index in 0..args.n {
        cases.push(case(args.seed, index));
    }
    emit(
        "C16",
        "C16",
        &args,
        &cases,
        "UDP cases: one request (1-2 questions, 4 server address spellings, case randomisation on/off) and a schedule of 0..7 socket results: the genuine reply at a random position or absent, forged datagrams (wrong ip / port / id / question, extra question, case-flipped, empty question section, query instead of response, garbage, truncated, random bytes) and io errors. Mux cases: 4..40 operations (send, stream yields response / unknown id / garbage / eof / error, poll, timer fires, receiver dropped, receiver polled, shutdown) over up to 32 concurrent requests, in families basic / busy / flood / close / timeouts / shutdown, plus 1200-1800 simultaneous requests for id distinctness. Non-trivial = at least two datagrams resp. two requests; distinct by full input.",
        serde_json::json!({
            "info_mux_polls_pending_with_unread_input": QOS_POLLS_AT_LIMIT.load(Ordering::SeqCst),
            "info_of_which_task_not_woken": QOS_POLLS_AT_LIMIT_NOT_WOKEN.load(Ordering::SeqCst),
        }),
    );
}
