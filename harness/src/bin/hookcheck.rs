//! compiles only if the cfg(hickory_dns_verif) hooks in /repo are present
#[allow(unused_imports)]
use hickory_net::dnssec::verif_hooks::{verify_nsec, verify_nsec3};
#[allow(unused_imports)]
use hickory_server::server::VerifContext;
fn main() {
    println!("hooks present");
}
