//! compiles only if the cfg(hickory_dns_verif) hooks in /repo are present; also prints the constants and
//! default values the driver's `probe` anchors compare with the models' constants (read from the
//! compiled crates, so a rewrite of how the source spells them does not matter)
#[allow(unused_imports)]
use hickory_net::dnssec::verif_hooks::{verify_nsec, verify_nsec3};
#[allow(unused_imports)]
use hickory_server::server::VerifContext;
fn main() {
    println!("hooks present");
    println!(
        "PROBE dns_request_options.default.max_request_depth = {}",
        hickory_proto::op::DnsRequestOptions::default().max_request_depth
    );
    println!("PROBE name.MAX_LENGTH = {}", hickory_proto::rr::Name::MAX_LENGTH);
}
