//! C07 — drives the real `DnssecDnsHandle::send` (hickory-net) over a scripted upstream that
//! answers from small, really signed zone hierarchies (root / tld / leaf, unsigned island,
//! attacker-owned signed sibling, unsupported-algorithm zone), with tampering faults applied to
//! the upstream's responses.
//!
//! Case = (hierarchy, top-level query, fault list).  Observation = outcome class, rcode and the
//! proof written on every answer / authority record.  For the Coq model the harness emits the
//! table of (query -> response) pairs the validator consulted, with every record mapped to its
//! symbolic (Dolev-Yao) form: a signature is `SGen pk tbs` iff it was really produced by the
//! holder of that key over exactly that data (the harness keeps the provenance of every
//! signature and digest it makes), `SBad` otherwise.
//!
//! Direct oracle (independent of the model): nothing but genuine, complete RRsets may be
//! `Secure`; a tampered chain for a signed zone must end in an error / Bogus, never in forged
//! or stripped data delivered as Insecure; the untampered hierarchy validates; no panic.

use std::collections::{BTreeMap, BTreeSet, HashMap};
use std::future::Future;
use std::io;
use std::net::SocketAddr;
use std::pin::Pin;
use std::sync::atomic::{AtomicU64, Ordering};
use std::sync::{Arc, Mutex, OnceLock};
use std::time::Duration;

use futures_util::stream::{self, Stream, StreamExt};
use hickory_net::dnssec::DnssecDnsHandle;
use hickory_net::proto::dnssec::crypto::{EcdsaSigningKey, Ed25519SigningKey};
use hickory_net::proto::dnssec::rdata::{DNSSECRData, SigInput, DNSKEY, DS, NSEC, RRSIG};
use hickory_net::proto::dnssec::{Algorithm, DigestType, Proof, PublicKey, PublicKeyBuf, SigningKey, TrustAnchors, Verifier, TBS};
use hickory_net::proto::op::{DnsRequest, DnsRequestOptions, DnsResponse, Message, OpCode, Query, ResponseCode};
use hickory_net::proto::rr::rdata::{A, NS, SOA, TXT};
use hickory_net::proto::rr::{Name, RData, Record, RecordType, SerialNumber};
use hickory_net::proto::serialize::binary::{BinDecoder, BinEncodable, BinEncoder, NameEncoding};
use hickory_net::runtime::{RuntimeProvider, Time, TokioRuntimeProvider, TokioTime};
use hickory_net::xfer::DnsHandle;
use hickory_net::{DnsError, NetError, NoRecords};
use vph::*;

// ------------------------------------------------------------------------------------------
// controllable validator clock
// ------------------------------------------------------------------------------------------

static CLOCK: AtomicU64 = AtomicU64::new(0);
const NOW: u32 = 1_700_000_000;

#[derive(Clone, Copy)]
struct MockTime;

#[async_trait::async_trait]
impl Time for MockTime {
    async fn delay_for(duration: Duration) {
        TokioTime::delay_for(duration).await
    }
    async fn timeout<F: 'static + Future + Send>(duration: Duration, future: F) -> Result<F::Output, io::Error> {
        TokioTime::timeout(duration, future).await
    }
    fn current_time() -> u64 {
        CLOCK.load(Ordering::SeqCst)
    }
}

#[derive(Clone)]
struct MockRuntime(TokioRuntimeProvider);

impl RuntimeProvider for MockRuntime {
    type Handle = <TokioRuntimeProvider as RuntimeProvider>::Handle;
    type Timer = MockTime;
    type Udp = <TokioRuntimeProvider as RuntimeProvider>::Udp;
    type Tcp = <TokioRuntimeProvider as RuntimeProvider>::Tcp;

    fn create_handle(&self) -> Self::Handle {
        self.0.create_handle()
    }
    fn connect_tcp(
        &self,
        server_addr: SocketAddr,
        bind_addr: Option<SocketAddr>,
        timeout: Option<Duration>,
    ) -> Pin<Box<dyn Send + Future<Output = Result<Self::Tcp, io::Error>>>> {
        self.0.connect_tcp(server_addr, bind_addr, timeout)
    }
    fn bind_udp(
        &self,
        local_addr: SocketAddr,
        server_addr: SocketAddr,
    ) -> Pin<Box<dyn Send + Future<Output = Result<Self::Udp, io::Error>>>> {
        self.0.bind_udp(local_addr, server_addr)
    }
}

// ------------------------------------------------------------------------------------------
// names
// ------------------------------------------------------------------------------------------

/// labels, lower case, leftmost first; root = []
type MName = Vec<String>;

/// fixed vocabulary: the position is the label's atom in the Coq model ("*" must be 0)
const VOCAB: &[&str] = &[
    "*", "tld", "leaf", "island", "evil", "unsup", "www", "mail", "ns1", "nx", "w", "x", "sub", "admin", "aaa", "zzz",
];

fn nm(s: &str) -> MName {
    s.split('.').filter(|l| !l.is_empty()).map(|l| l.to_ascii_lowercase()).collect()
}
fn hname(n: &MName) -> Name {
    let mut h = if n.is_empty() { Name::root() } else { Name::from_labels(n.iter().map(|l| l.as_bytes())).unwrap() };
    h.set_fqdn(true);
    h
}
fn mname(n: &Name) -> MName {
    n.iter().map(|l| String::from_utf8_lossy(l).to_ascii_lowercase()).collect()
}
fn show(n: &MName) -> String {
    if n.is_empty() {
        ".".into()
    } else {
        n.iter().map(|l| format!("{l}.")).collect()
    }
}
fn label_id(l: &str) -> u64 {
    VOCAB.iter().position(|v| *v == l).unwrap_or_else(|| panic!("label {l} not in VOCAB")) as u64
}
#[allow(dead_code)]
fn coq_name(n: &MName) -> String {
    coq_list(n.iter().map(|l| label_id(l).to_string()))
}
fn is_anc_or_self(z: &MName, n: &MName) -> bool {
    z.len() <= n.len() && n[n.len() - z.len()..] == z[..]
}
/// canonical DNS name order (RFC 4034 6.1)
fn canon_cmp(a: &MName, b: &MName) -> std::cmp::Ordering {
    let ra: Vec<&String> = a.iter().rev().collect();
    let rb: Vec<&String> = b.iter().rev().collect();
    ra.cmp(&rb)
}

// ------------------------------------------------------------------------------------------
// keys
// ------------------------------------------------------------------------------------------

struct KeyMat {
    alg: u8,
    pk: Vec<u8>,
    signer: Box<dyn SigningKey>,
}

// throw-away test keys (PKCS#8) generated once with ring
const ED25519: &[&str] = &[
    "3051020101300506032b657004220420791c2025087d9c47e4b2372de2e033a5545c8eae243d9c3bbc51cf3133604bda8121007a10685dfa1abfeaaae1bd0683bf99d206e38479397e305b7e2aa969ddd9de87",
    "3051020101300506032b6570042204206e5870ed79529bab9b321b85ee3328e3c31f6b1041f1d143536b663f16ca531881210054950000cddf1773bb48eaf6dfb06252b2ea282fcfdc52ea18487c45053f0145",
    "3051020101300506032b657004220420ec7f8ee01020cf3dc0835c54e1e407720b647ad39b1d5c2c50867b46947e716f812100c8163708dfc362bd7faf894ebf72f3c2d4eb37730878dbb5bedcbb6b0d0a77cd",
    "3051020101300506032b6570042204205e5829131020ae51f5ccda1abe9c41aa61607d4584b1954a3defebfd73dd0603812100939a796c90d709bc9f3595add456f380540c239b8a5723a07a30fa8fc8445cc8",
    "3051020101300506032b6570042204208b163264ac4a848b683d0dc2c1fc0f0a6b3895f6c8b34dc120df608a75f48fd6812100cf1d08c59e45117976abddbc4f5284e15fea5116b88184e82ec41c61a19d2e73",
    "3051020101300506032b657004220420a59e424eb107ef52abda93130981c3c0cc488b94f13c37119f6950307f68f15f812100f531a5a7584e1a89f84131b4fc6469f417286057114fb5cbc15d6c04a87ab94a",
    "3051020101300506032b657004220420db426095b38587b6a25e6191de8761c0e855e2414af7612f71918e6529e95d6f8121009e87f0985305947fe80b579cd2f046734bf4357e77008995adbcae1664b4039b",
    "3051020101300506032b657004220420eb7c814266dd3cdd8c7df8a84fe5700a85bfd4d08ba4b5f4933b8f9e3e3e7a8c8121005124e0f5f73923b14f4bdf21ce1307e393835092956bf9d5b272b0607398062f",
    "3051020101300506032b6570042204208fc94923eae7866ce520e0c90453e58e909feb93527d315acced60bda882b13d8121006fbeb5eedd58ad526902c82ca71ca807bc82030651e1a959d8a8fa8fef7c46ce",
    "3051020101300506032b657004220420e7eae207e33ab8d7c2e3e5290a0dad56c7c2bd541462c2a75b7feece22eed4f7812100a47b1372fa7f0624a61eca0cca2bf373af212b2c31a0ee536aa4db8474508938",
    "3051020101300506032b6570042204200ba0eca1cdf7111e4bf9ebd460ee84bdd191597a85f1079c102eb0b402e50db1812100d690cb528961d5d66f5737143624681074c553ccfcff7a5cd2c2a6f02c80636e",
    "3051020101300506032b657004220420a42034ef6e899cd6a972a4101737edb7963152389b3bd02d622c021dd1adfa098121001969496f53858426649ffa2527c3f5d34279cf48ce54665856225f5bada8d4df",
];
const P256: &[&str] = &[
    "308187020100301306072a8648ce3d020106082a8648ce3d030107046d306b02010104203dff7b2e49c323d03d0aaa85a2009651fe0b178cc2f2892c6da76bd1c636aa76a14403420004dfc5d42c2a80a79d5495c83c11c7f57b2bec20d9fd072546bfb6edf4a85b038c782e91b639587d630261df3696ee421a491fed6ae2113b14f9bcd952b7aaeeda",
    "308187020100301306072a8648ce3d020106082a8648ce3d030107046d306b0201010420e04e5f5d887a134fb02bbe68ee2cf78885697b1d08ce99e4402645e8a7b28161a144034200043d21d259ffc23e0958666d19a33246ce03a1faa7c1b2e178ba9b544d987012dbc6814fb253843e2752b968842268537e22cad15cb53402e567e3039421103784",
    "308187020100301306072a8648ce3d020106082a8648ce3d030107046d306b0201010420d6a3698d3814e18de62c64eb24bf7ebc89a0ece0bb23bae4039981de160c1e5aa144034200049997b5cac05116d13d0e67c83924bfe179ca7da12187292996c741edfef6d34940390ce8a625776e6b289feade13facd5c46754e35266c9341c0a152ba62a2a2",
    "308187020100301306072a8648ce3d020106082a8648ce3d030107046d306b0201010420e6404998a01d4dfd4b7628b7e0b04c10744c90b13109364cfae342d45b378712a14403420004c0981bc539d726f148ea08ee1c6efa214ebb65aa0ec8fe05abb973745a6b4a5ff7987333d44b50078c0aa50d6ef132019caec9755b083e9ff99b04bab78e372d",
];


fn pool() -> &'static Vec<KeyMat> {
    static POOL: OnceLock<Vec<KeyMat>> = OnceLock::new();
    POOL.get_or_init(|| {
        let mut v: Vec<KeyMat> = vec![];
        let mut add = |s: Box<dyn SigningKey>| {
            let pk = s.to_public_key().unwrap();
            v.push(KeyMat { alg: u8::from(s.algorithm()), pk: pk.public_bytes().to_vec(), signer: s });
        };
        for h in ED25519 {
            add(Box::new(Ed25519SigningKey::from_pkcs8(&unhex(h).into()).unwrap()));
        }
        for h in P256 {
            add(Box::new(EcdsaSigningKey::from_pkcs8(&unhex(h).into(), Algorithm::ECDSAP256SHA256).unwrap()));
        }
        v
    })
}

/// RFC 4034 appendix B key tag over the DNSKEY RDATA (own implementation)
fn key_tag(rdata: &[u8]) -> u16 {
    let mut ac: u32 = 0;
    for (i, b) in rdata.iter().enumerate() {
        ac += if i & 1 == 1 { *b as u32 } else { (*b as u32) << 8 };
    }
    ac += (ac >> 16) & 0xffff;
    (ac & 0xffff) as u16
}

fn rdata_bytes(d: &RData) -> Vec<u8> {
    let mut buf = Vec::new();
    {
        let mut e = BinEncoder::new(&mut buf);
        e.canonical_form = true;
        e.name_encoding = NameEncoding::UncompressedLowercase;
        d.emit(&mut e).unwrap();
    }
    buf
}

// ------------------------------------------------------------------------------------------
// the world: zones, genuine RRsets, signatures with provenance
// ------------------------------------------------------------------------------------------

#[derive(Clone, Debug)]
struct ZKey {
    pool: usize,
    flags: u16,
    /// signs the DNSKEY RRset
    ksk: bool,
    /// signs everything else
    zsk: bool,
}

#[derive(Clone, Debug)]
struct ZoneSpec {
    apex: MName,
    signed: bool,
    keys: Vec<ZKey>,
    /// zone "signed" with an algorithm hickory does not implement (DS alg 16, garbage keys)
    unsupported: bool,
    /// controlled by the adversary (its keys sign whatever the adversary wants)
    attacker: bool,
    /// plain data: (owner, type, rdatas)
    data: Vec<(MName, RData)>,
}

#[derive(Clone)]
struct GSet {
    owner: MName,
    rtype: u16,
    zone: usize,
    recs: Vec<Record>,
    sigs: Vec<Record>,
}

#[derive(Clone, Debug)]
struct SigProv {
    key: (u8, Vec<u8>),
    owner: MName,
    tc: u16,
    labels: u8,
    ottl: u32,
    alg: u8,
    exp: u32,
    inc: u32,
    tag: u16,
    signer: MName,
    rdatas: Vec<Vec<u8>>,
}

struct World {
    hid: u64,
    desc: String,
    zones: Vec<ZoneSpec>,
    sets: Vec<GSet>,
    index: HashMap<(MName, u16), usize>,
    /// per zone: owner names in canonical order
    names: Vec<Vec<MName>>,
    anchors: Vec<(u8, Vec<u8>)>,
    sig_prov: HashMap<Vec<u8>, SigProv>,
    /// digest bytes -> (owner, DNSKEY rdata bytes, digest type)
    dig_prov: HashMap<Vec<u8>, (MName, Vec<u8>, u8)>,
}

const TTL: u32 = 3600;

fn rec(owner: &MName, d: RData) -> Record {
    Record::from_rdata(hname(owner), TTL, d)
}

fn dnskey_rdata(k: &ZKey, unsupported: bool) -> DNSKEY {
    let km = &pool()[k.pool];
    if unsupported {
        DNSKEY::with_flags(k.flags, PublicKeyBuf::new(km.pk.clone(), Algorithm::from_u8(16)))
    } else {
        DNSKEY::with_flags(k.flags, PublicKeyBuf::new(km.pk.clone(), Algorithm::from_u8(km.alg)))
    }
}

/// a real signature by pool key `pool_idx` over the RRset, with the given RRSIG fields
fn sign_set(
    prov: &mut HashMap<Vec<u8>, SigProv>,
    pool_idx: usize,
    key_tag_: u16,
    owner: &MName,
    rtype: u16,
    recs: &[Record],
    signer: &MName,
    labels: u8,
    exp: u32,
    inc: u32,
) -> Record {
    let km = &pool()[pool_idx];
    let input = SigInput {
        type_covered: RecordType::from(rtype),
        algorithm: Algorithm::from_u8(km.alg),
        num_labels: labels,
        original_ttl: TTL,
        sig_expiration: SerialNumber::new(exp),
        sig_inception: SerialNumber::new(inc),
        key_tag: key_tag_,
        signer_name: hname(signer),
    };
    let tbs = TBS::from_input(&hname(owner), hickory_net::proto::rr::DNSClass::IN, &input, recs.iter()).unwrap();
    let sig = km.signer.sign(&tbs).unwrap();
    // owner as signed (wildcard form if labels < owner labels)
    let n_lab = owner.len() - if owner.first().map(|l| l == "*").unwrap_or(false) { 1 } else { 0 };
    let signed_owner: MName = if (labels as usize) < n_lab {
        let mut v = vec!["*".to_string()];
        v.extend_from_slice(&owner[owner.len() - labels as usize..]);
        v
    } else {
        owner.clone()
    };
    let mut rdatas: Vec<Vec<u8>> = recs.iter().map(|r| rdata_bytes(&r.data)).collect();
    rdatas.sort();
    prov.insert(
        sig.clone(),
        SigProv {
            key: (km.alg, km.pk.clone()),
            owner: signed_owner,
            tc: rtype,
            labels,
            ottl: TTL,
            alg: km.alg,
            exp,
            inc,
            tag: key_tag_,
            signer: signer.clone(),
            rdatas,
        },
    );
    Record::from_rdata(hname(owner), TTL, RData::DNSSEC(DNSSECRData::RRSIG(RRSIG::from_sig(input, sig))))
}

fn n_labels(owner: &MName) -> u8 {
    (owner.len() - if owner.first().map(|l| l == "*").unwrap_or(false) { 1 } else { 0 }) as u8
}

/// hierarchies drawn at random (0..N_HIER); N_SPECIAL_HIER more (8, 9, 10) are placed on fixed case indices
const N_HIER: u64 = 8;
const N_SPECIAL_HIER: u64 = 3;
/// more upstream requests for one query than this = the validation went around a loop
const LOOP_CALLS: u32 = 9;

/// hierarchy family: root -> tld -> { leaf (signed), island (unsigned), evil (signed, adversary's),
/// unsup (algorithm 16) }; variants differ in key counts / roles / algorithms / anchors
fn build_world(hid: u64) -> World {
    // key layout per variant: (root keys, tld keys, leaf keys, evil keys); each key = (pool, ksk, zsk)
    let csk = |p: usize| vec![ZKey { pool: p, flags: 257, ksk: true, zsk: true }];
    let split = |k: usize, z: usize| {
        vec![ZKey { pool: k, flags: 257, ksk: true, zsk: false }, ZKey { pool: z, flags: 256, ksk: false, zsk: true }]
    };
    let three = |k: usize, z1: usize, z2: usize| {
        vec![
            ZKey { pool: k, flags: 257, ksk: true, zsk: false },
            ZKey { pool: z1, flags: 256, ksk: false, zsk: true },
            ZKey { pool: z2, flags: 256, ksk: false, zsk: true },
        ]
    };
    let (rootk, tldk, leafk, evilk, anchor_tld, desc) = match hid {
        0 => (csk(0), csk(1), csk(2), csk(3), false, "all CSK ed25519"),
        1 => (split(0, 1), split(2, 3), split(4, 5), csk(6), false, "KSK+ZSK ed25519"),
        2 => (split(0, 1), three(2, 3, 4), three(5, 6, 7), csk(8), false, "KSK+2ZSK"),
        3 => (csk(12), split(13, 0), split(14, 1), csk(15), false, "p256 mix"),
        4 => (split(0, 12), csk(1), split(2, 13), csk(3), false, "mixed alg KSK/ZSK"),
        5 => (csk(0), split(1, 2), csk(3), csk(4), true, "anchor also at tld"),
        6 => (
            csk(0),
            csk(1),
            vec![
                ZKey { pool: 2, flags: 257, ksk: true, zsk: false },
                ZKey { pool: 3, flags: 257, ksk: true, zsk: false },
                ZKey { pool: 4, flags: 256, ksk: false, zsk: true },
            ],
            csk(5),
            false,
            "leaf 2KSK+ZSK",
        ),
        // the trust anchor is a key with the REVOKE flag (0x0080) set; it alone signs the root DNSKEY RRset,
        // the unauthenticated ZSK signs the data: a revoked key must not validate anything (RFC 5011)
        8 => (
            vec![ZKey { pool: 0, flags: 257 | 0x0080, ksk: true, zsk: false }, ZKey { pool: 1, flags: 256, ksk: false, zsk: true }],
            split(2, 3),
            split(4, 5),
            csk(6),
            false,
            "root anchor REVOKED, KSK+ZSK",
        ),
        // the DS RRset for leaf.tld mixes the genuine, supported DS (SHA-256) with a second DS for the same key
        // whose digest type is unsupported (3 = GOST): 9 = unsupported one LAST, 10 = unsupported one FIRST.
        // One usable DS is enough: leaf.tld stays Secure, tampering stays Bogus (never Insecure)
        9 => (split(0, 1), split(2, 3), split(4, 5), csk(6), false, "KSK+ZSK, leaf DS RRset = [sha256, unsupported digest type]"),
        10 => (split(0, 1), split(2, 3), split(4, 5), csk(6), false, "KSK+ZSK, leaf DS RRset = [unsupported digest type, sha256]"),
        _ => (split(9, 10), split(11, 8), split(7, 6), split(5, 4), false, "KSK+ZSK other keys"),
    };
    let a = |x: u8| RData::A(A::new(192, 0, 2, x));
    let txt = |s: &str| RData::TXT(TXT::new(vec![s.to_string()]));
    let zones = vec![
        ZoneSpec { apex: nm("."), signed: true, keys: rootk, unsupported: false, attacker: false, data: vec![] },
        ZoneSpec {
            apex: nm("tld."),
            signed: true,
            keys: tldk,
            unsupported: false,
            attacker: false,
            data: vec![(nm("www.tld."), a(9))],
        },
        ZoneSpec {
            apex: nm("leaf.tld."),
            signed: true,
            keys: leafk,
            unsupported: false,
            attacker: false,
            data: vec![
                (nm("www.leaf.tld."), a(1)),
                (nm("www.leaf.tld."), a(2)),
                (nm("mail.leaf.tld."), a(3)),
                (nm("mail.leaf.tld."), txt("v=spf1 -all")),
            ],
        },
        ZoneSpec {
            apex: nm("island.tld."),
            signed: false,
            keys: vec![],
            unsupported: false,
            attacker: false,
            data: vec![(nm("www.island.tld."), a(4))],
        },
        ZoneSpec {
            apex: nm("evil.tld."),
            signed: true,
            keys: evilk,
            unsupported: false,
            attacker: true,
            data: vec![(nm("www.evil.tld."), a(66))],
        },
        ZoneSpec {
            apex: nm("unsup.tld."),
            signed: true,
            keys: vec![ZKey { pool: 11, flags: 257, ksk: true, zsk: true }],
            unsupported: true,
            attacker: false,
            data: vec![(nm("www.unsup.tld."), a(5))],
        },
    ];
    let mut w = World {
        hid,
        desc: desc.to_string(),
        zones,
        sets: vec![],
        index: HashMap::new(),
        names: vec![],
        anchors: vec![],
        sig_prov: HashMap::new(),
        dig_prov: HashMap::new(),
    };
    let exp = NOW + 7 * 86400;
    let inc = NOW - 3600;
    // anchors
    {
        let k = w.zones[0].keys.iter().find(|k| k.ksk).unwrap();
        let km = &pool()[k.pool];
        w.anchors.push((km.alg, km.pk.clone()));
        if anchor_tld {
            let k = w.zones[1].keys.iter().find(|k| k.ksk).unwrap();
            let km = &pool()[k.pool];
            w.anchors.push((km.alg, km.pk.clone()));
        }
    }
    let nz = w.zones.len();
    for zi in 0..nz {
        let z = w.zones[zi].clone();
        // unsigned RRsets of the zone: (owner, type) -> records; `auth` = signed by this zone
        let mut raw: BTreeMap<(MName, u16), (Vec<Record>, bool)> = BTreeMap::new();
        let mut put = |raw: &mut BTreeMap<(MName, u16), (Vec<Record>, bool)>, o: &MName, d: RData, auth: bool| {
            let t = u16::from(d.record_type());
            raw.entry((o.clone(), t)).or_insert((vec![], auth)).0.push(rec(o, d));
        };
        let mut ns1 = vec!["ns1".to_string()];
        ns1.extend(z.apex.clone());
        let mut adm = vec!["admin".to_string()];
        adm.extend(z.apex.clone());
        put(&mut raw, &z.apex, RData::SOA(SOA::new(hname(&ns1), hname(&adm), 1, 3600, 600, 86400, 300)), true);
        put(&mut raw, &z.apex, RData::NS(NS(hname(&ns1))), true);
        for (o, d) in &z.data {
            put(&mut raw, o, d.clone(), true);
        }
        if z.signed {
            for k in &z.keys {
                put(&mut raw, &z.apex, RData::DNSSEC(DNSSECRData::DNSKEY(dnskey_rdata(k, z.unsupported))), true);
            }
        }
        // delegations: children = zones whose apex is one label below this apex
        for ci in 0..nz {
            let c = w.zones[ci].clone();
            if c.apex.len() == z.apex.len() + 1 && is_anc_or_self(&z.apex, &c.apex) && ci != zi {
                let mut cns = vec!["ns1".to_string()];
                cns.extend(c.apex.clone());
                put(&mut raw, &c.apex, RData::NS(NS(hname(&cns))), false);
                if c.signed && z.signed {
                    for k in c.keys.iter().filter(|k| k.ksk) {
                        let dk = dnskey_rdata(k, c.unsupported);
                        let kb = rdata_bytes(&RData::DNSSEC(DNSSECRData::DNSKEY(dk.clone())));
                        let (alg, dg) = if c.unsupported {
                            // digest over the real RDATA; the algorithm number is what makes it unusable
                            (Algorithm::from_u8(16), dk.to_digest(&hname(&c.apex), DigestType::SHA256).unwrap().as_ref().to_vec())
                        } else {
                            (dk.algorithm(), dk.to_digest(&hname(&c.apex), DigestType::SHA256).unwrap().as_ref().to_vec())
                        };
                        w.dig_prov.insert(dg.clone(), (c.apex.clone(), kb.clone(), 2));
                        // hierarchies 9 / 10: a second DS for the same key with an unsupported digest type and
                        // arbitrary digest bytes (no provenance: the model sees DBad), after / before the real one
                        let mixed = (hid == 9 || hid == 10) && c.apex == nm("leaf.tld.") && !c.unsupported;
                        let odd = RData::DNSSEC(DNSSECRData::DS(DS::new(key_tag(&kb), alg, DigestType::from(3u8), vec![0xA5u8; 32])));
                        if mixed && hid == 10 {
                            put(&mut raw, &c.apex, odd.clone(), true);
                        }
                        put(
                            &mut raw,
                            &c.apex,
                            RData::DNSSEC(DNSSECRData::DS(DS::new(key_tag(&kb), alg, DigestType::SHA256, dg))),
                            true,
                        );
                        if mixed && hid == 9 {
                            put(&mut raw, &c.apex, odd, true);
                        }
                    }
                }
            }
        }
        // NSEC chain
        let mut names: Vec<MName> = raw.keys().map(|k| k.0.clone()).collect::<BTreeSet<_>>().into_iter().collect();
        names.sort_by(canon_cmp);
        if z.signed && !z.unsupported {
            for (i, n) in names.iter().enumerate() {
                let next = &names[(i + 1) % names.len()];
                let mut types: Vec<RecordType> =
                    raw.keys().filter(|k| &k.0 == n).map(|k| RecordType::from(k.1)).collect();
                types.push(RecordType::RRSIG);
                types.push(RecordType::NSEC);
                put(&mut raw, n, RData::DNSSEC(DNSSECRData::NSEC(NSEC::new(hname(next), types))), true);
            }
        }
        w.names.push(names);
        // sign
        for ((owner, rtype), (recs, auth)) in raw {
            let mut sigs = vec![];
            if z.signed && auth {
                for k in &z.keys {
                    let use_it = if rtype == 48 { k.ksk } else { k.zsk };
                    if !use_it {
                        continue;
                    }
                    if z.unsupported {
                        // algorithm-16 "signature": opaque bytes
                        let input = SigInput {
                            type_covered: RecordType::from(rtype),
                            algorithm: Algorithm::from_u8(16),
                            num_labels: n_labels(&owner),
                            original_ttl: TTL,
                            sig_expiration: SerialNumber::new(exp),
                            sig_inception: SerialNumber::new(inc),
                            key_tag: 4242,
                            signer_name: hname(&z.apex),
                        };
                        let mut sb = vec![0x55u8; 64];
                        sb[0] = rtype as u8;
                        sb[1] = owner.len() as u8;
                        sb[2] = owner.first().map(|l| l.len() as u8).unwrap_or(0);
                        sigs.push(Record::from_rdata(
                            hname(&owner),
                            TTL,
                            RData::DNSSEC(DNSSECRData::RRSIG(RRSIG::from_sig(input, sb))),
                        ));
                        continue;
                    }
                    let kb = rdata_bytes(&RData::DNSSEC(DNSSECRData::DNSKEY(dnskey_rdata(k, false))));
                    sigs.push(sign_set(
                        &mut w.sig_prov,
                        k.pool,
                        key_tag(&kb),
                        &owner,
                        rtype,
                        &recs,
                        &z.apex,
                        n_labels(&owner),
                        exp,
                        inc,
                    ));
                }
            }
            w.index.insert((owner.clone(), rtype), w.sets.len());
            w.sets.push(GSet { owner, rtype, zone: zi, recs, sigs });
        }
    }
    w
}

fn world(hid: u64) -> Arc<World> {
    static WORLDS: OnceLock<Mutex<HashMap<u64, Arc<World>>>> = OnceLock::new();
    let m = WORLDS.get_or_init(|| Mutex::new(HashMap::new()));
    let mut g = m.lock().unwrap();
    g.entry(hid).or_insert_with(|| Arc::new(build_world(hid))).clone()
}

#[derive(Clone, Debug)]
struct Resp {
    /// 0 = message, 1 = Err(NoRecordsFound), 2 = other error
    kind: u8,
    rcode: u16,
    answers: Vec<Record>,
    authorities: Vec<Record>,
}

impl World {
    fn zone_for(&self, q: &MName, qtype: u16) -> usize {
        let mut best = 0usize;
        for (i, z) in self.zones.iter().enumerate() {
            let ok = if qtype == 43 { z.apex.len() < q.len() && is_anc_or_self(&z.apex, q) } else { is_anc_or_self(&z.apex, q) };
            if ok && z.apex.len() >= self.zones[best].apex.len() {
                best = i;
            }
        }
        best
    }
    fn set(&self, o: &MName, t: u16, zi: usize) -> Option<&GSet> {
        self.index.get(&(o.clone(), t)).map(|i| &self.sets[*i]).filter(|s| s.zone == zi)
    }
    fn with_sigs(s: &GSet) -> Vec<Record> {
        let mut v = s.recs.clone();
        v.extend(s.sigs.iter().cloned());
        v
    }
    /// the honest answer of an ideal recursive resolver
    fn answer(&self, q: &MName, qtype: u16) -> Resp {
        let zi = self.zone_for(q, qtype);
        let z = &self.zones[zi];
        if let Some(s) = self.set(q, qtype, zi) {
            return Resp { kind: 0, rcode: 0, answers: Self::with_sigs(s), authorities: vec![] };
        }
        let mut auth = vec![];
        if let Some(s) = self.set(&z.apex, 6, zi) {
            auth.extend(Self::with_sigs(s));
        }
        let exists = self.names[zi].iter().any(|n| n == q);
        let nsec_ok = z.signed && !z.unsupported;
        if exists {
            if nsec_ok {
                if let Some(s) = self.set(q, 47, zi) {
                    auth.extend(Self::with_sigs(s));
                }
            }
            return Resp { kind: 0, rcode: 0, answers: vec![], authorities: auth };
        }
        if nsec_ok {
            // NSEC covering the name, NSEC covering the wildcard at the closest encloser
            let mut ce = q.clone();
            while !self.names[zi].iter().any(|n| n == &ce) && ce.len() > z.apex.len() {
                ce.remove(0);
            }
            let mut wc = vec!["*".to_string()];
            wc.extend(ce);
            let mut owners: Vec<MName> = vec![];
            for target in [q.clone(), wc] {
                // predecessor in canonical order
                let mut pred = self.names[zi].last().unwrap().clone();
                for n in &self.names[zi] {
                    if canon_cmp(n, &target) == std::cmp::Ordering::Less {
                        pred = n.clone();
                    }
                }
                if !owners.contains(&pred) {
                    owners.push(pred);
                }
            }
            for o in owners {
                if let Some(s) = self.set(&o, 47, zi) {
                    auth.extend(Self::with_sigs(s));
                }
            }
        }
        Resp { kind: 0, rcode: 3, answers: vec![], authorities: auth }
    }
    /// is (owner, type, rdata) a genuine record of a zone that is not the adversary's own?
    fn genuine_set(&self, o: &MName, t: u16) -> Option<&GSet> {
        self.index.get(&(o.clone(), t)).map(|i| &self.sets[*i])
    }
}

// ------------------------------------------------------------------------------------------
// faults
// ------------------------------------------------------------------------------------------

#[derive(Clone, Debug)]
enum Edit {
    /// mutate record `i` of section `sec` (0 answers, 1 authorities) with sub-choice `how`
    Alter(u8, usize, u64),
    Drop(u8, usize),
    /// replace the RDATA of record i by that of another genuine record of the same type
    Replace(u8, usize, u64),
    /// add a record: genuine set `k` of the world (with / without its signatures) or a forged A
    Inject(u8, u64, bool),
    InjectForged(u8),
    /// remove every RRSIG covering the RRset of record i
    Strip(u8, usize),
    /// remove the RRset of record i with its signatures
    DropSet(u8, usize),
    /// answer with the (genuine) response to another query
    Swap(MName, u16),
    Fail,
    AsNoRecords,
    Empty,
    /// answers := one unsigned junk A record at the query name (attack script)
    JunkAnswer,
    /// answers := forged A RRset at the query name really signed by the adversary's zone key,
    /// signer = the adversary's zone (attack script)
    ForeignSigned,
    /// keep only the DNSKEYs that the parent's DS RRset covers, drop all RRSIGs (attack script)
    DnskeyDsOnly,
    /// no answers; authority := unsigned NSEC owned by the insecure island (attack script)
    IslandNsec,
    /// no answers; authority := the genuine DS RRset (signed) + a forged NSEC at the same name
    DsPlusForgedNsec,
    /// answers := one forged DNSKEY (random key bytes) whose algorithm and key tag equal those of a
    /// key the parent's DS RRset covers; no RRSIG (attack script: only the digest tells them apart)
    DnskeyTagForge,
    /// the first non-signature answer record gets forged RDATA, its RRSIG stays (attack script)
    ForgeKeepSig,
}

#[derive(Clone, Debug)]
struct Fault {
    q: MName,
    qtype: u16,
    edit: Edit,
}

fn flip_rdata(d: &RData, pos: usize, x: u8) -> Option<RData> {
    let mut b = d.to_bytes().ok()?;
    if b.is_empty() {
        return None;
    }
    let p = pos % b.len();
    b[p] ^= x.max(1);
    let nd = RData::read(BinDecoder::new(&b), d.record_type()).ok()?;
    if nd.record_type() != d.record_type() || &nd == d {
        return None;
    }
    Some(nd)
}

struct Ctx<'a> {
    w: &'a World,
    /// signatures made by the adversary for this case
    extra_prov: HashMap<Vec<u8>, SigProv>,
}

fn alter_record(cx: &mut Ctx, r: &Record, how: u64) -> Option<Record> {
    let mut out = r.clone();
    match &r.data {
        RData::DNSSEC(DNSSECRData::RRSIG(s)) => {
            let mut inp = s.input().clone();
            let mut sig = s.sig().to_vec();
            let zones = &cx.w.zones;
            match how % 10 {
                0 => inp.type_covered = if inp.type_covered == RecordType::A { RecordType::TXT } else { RecordType::A },
                1 => inp.algorithm = if inp.algorithm == Algorithm::ED25519 { Algorithm::ECDSAP256SHA256 } else { Algorithm::ED25519 },
                2 => inp.num_labels = inp.num_labels.wrapping_add(1),
                3 => inp.num_labels = inp.num_labels.wrapping_sub(1),
                4 => inp.original_ttl += 1,
                5 => inp.sig_expiration = SerialNumber::new(NOW - 1),
                6 => inp.sig_inception = SerialNumber::new(NOW + 1000),
                7 => inp.key_tag = inp.key_tag.wrapping_add(1),
                8 => {
                    let cur = mname(&inp.signer_name);
                    let z = &zones[(how / 10) as usize % zones.len()];
                    if z.apex == cur {
                        return None;
                    }
                    inp.signer_name = hname(&z.apex);
                }
                _ => {
                    let p = (how / 10) as usize % sig.len();
                    sig[p] ^= 0x40;
                }
            }
            out.data = RData::DNSSEC(DNSSECRData::RRSIG(RRSIG::from_sig(inp, sig)));
        }
        RData::DNSSEC(DNSSECRData::DNSKEY(k)) => {
            let pkb = k.public_key().public_bytes().to_vec();
            let alg = k.algorithm();
            let nk = match how % 5 {
                0 => DNSKEY::with_flags(k.flags() ^ 0x0100, PublicKeyBuf::new(pkb, alg)),
                1 => DNSKEY::with_flags(k.flags() ^ 0x0001, PublicKeyBuf::new(pkb, alg)),
                2 => DNSKEY::with_flags(k.flags() ^ 0x0080, PublicKeyBuf::new(pkb, alg)),
                3 => DNSKEY::with_flags(
                    k.flags(),
                    PublicKeyBuf::new(pkb, if alg == Algorithm::ED25519 { Algorithm::ECDSAP256SHA256 } else { Algorithm::ED25519 }),
                ),
                _ => {
                    let mut p = pkb.clone();
                    let i = (how / 5) as usize % p.len();
                    p[i] ^= 0x04;
                    DNSKEY::with_flags(k.flags(), PublicKeyBuf::new(p, alg))
                }
            };
            out.data = RData::DNSSEC(DNSSECRData::DNSKEY(nk));
        }
        RData::DNSSEC(DNSSECRData::DS(d)) => {
            let mut dg = d.digest().to_vec();
            let nd = match how % 5 {
                0 => DS::new(d.key_tag().wrapping_add(1), d.algorithm(), d.digest_type(), dg),
                1 => DS::new(d.key_tag(), Algorithm::from_u8(16), d.digest_type(), dg),
                2 => DS::new(
                    d.key_tag(),
                    if d.algorithm() == Algorithm::ED25519 { Algorithm::ECDSAP256SHA256 } else { Algorithm::ED25519 },
                    d.digest_type(),
                    dg,
                ),
                3 => DS::new(d.key_tag(), d.algorithm(), DigestType::from(if how & 8 == 0 { 3u8 } else { 1u8 }), dg),
                _ => {
                    let i = (how / 5) as usize % dg.len();
                    dg[i] ^= 0x10;
                    DS::new(d.key_tag(), d.algorithm(), d.digest_type(), dg)
                }
            };
            out.data = RData::DNSSEC(DNSSECRData::DS(nd));
        }
        d => {
            out.data = flip_rdata(d, (how / 3) as usize, 1 << (how % 3))?;
        }
    }
    if out.data == r.data {
        return None;
    }
    Some(out)
}

/// the adversary's zone (index, signing key)
fn evil_zone(w: &World) -> (usize, ZKey) {
    let zi = w.zones.iter().position(|z| z.attacker).unwrap();
    (zi, w.zones[zi].keys.iter().find(|k| k.zsk).unwrap().clone())
}

fn apply_edit(cx: &mut Ctx, f: &Fault, mut r: Resp) -> Resp {
    fn sec<'a>(r: &'a mut Resp, s: u8) -> &'a mut Vec<Record> {
        if s == 0 {
            &mut r.answers
        } else {
            &mut r.authorities
        }
    }
    let set_key = |x: &Record| -> (MName, u16) {
        match &x.data {
            RData::DNSSEC(DNSSECRData::RRSIG(s)) => (mname(&x.name), u16::from(s.input().type_covered)),
            d => (mname(&x.name), u16::from(d.record_type())),
        }
    };
    match &f.edit {
        Edit::Alter(s, i, how) => {
            let v = sec(&mut r, *s);
            if *i < v.len() {
                if let Some(n) = alter_record(cx, &v[*i].clone(), *how) {
                    v[*i] = n;
                }
            }
        }
        Edit::Drop(s, i) => {
            let v = sec(&mut r, *s);
            if *i < v.len() {
                v.remove(*i);
            }
        }
        Edit::Replace(s, i, k) => {
            let w = cx.w;
            let v = sec(&mut r, *s);
            if *i < v.len() {
                let t = v[*i].record_type();
                let cands: Vec<&Record> = w
                    .sets
                    .iter()
                    .flat_map(|g| g.recs.iter().chain(g.sigs.iter()))
                    .filter(|c| c.record_type() == t && c.data != v[*i].data)
                    .collect();
                if !cands.is_empty() {
                    v[*i].data = cands[(*k as usize) % cands.len()].data.clone();
                }
            }
        }
        Edit::Inject(s, k, with_sigs) => {
            let g = &cx.w.sets[(*k as usize) % cx.w.sets.len()];
            let mut add = g.recs.clone();
            if *with_sigs {
                add.extend(g.sigs.iter().cloned());
            }
            sec(&mut r, *s).extend(add);
        }
        Edit::InjectForged(s) => {
            let x = rec(&f.q, RData::A(A::new(203, 0, 113, 7)));
            sec(&mut r, *s).push(x);
        }
        Edit::Strip(s, i) => {
            let v = sec(&mut r, *s);
            if *i < v.len() {
                let k = set_key(&v[*i]);
                v.retain(|x| !(x.record_type() == RecordType::RRSIG && set_key(x) == k));
            }
        }
        Edit::DropSet(s, i) => {
            let v = sec(&mut r, *s);
            if *i < v.len() {
                let k = set_key(&v[*i]);
                v.retain(|x| set_key(x) != k);
            }
        }
        Edit::Swap(n, t) => {
            r = cx.w.answer(n, *t);
        }
        Edit::Fail => r.kind = 2,
        Edit::AsNoRecords => {
            if r.answers.is_empty() {
                r.kind = 1
            }
        }
        Edit::Empty => {
            r.answers.clear();
            r.authorities.clear();
            r.rcode = 0;
        }
        Edit::JunkAnswer => {
            r.answers = vec![rec(&f.q, RData::A(A::new(203, 0, 113, 99)))];
            r.authorities.clear();
            r.rcode = 0;
        }
        Edit::ForeignSigned => {
            let (zi, k) = evil_zone(cx.w);
            let apex = cx.w.zones[zi].apex.clone();
            let forged = vec![rec(&f.q, RData::A(A::new(203, 0, 113, 66)))];
            let kb = rdata_bytes(&RData::DNSSEC(DNSSECRData::DNSKEY(dnskey_rdata(&k, false))));
            let sig = sign_set(
                &mut cx.extra_prov,
                k.pool,
                key_tag(&kb),
                &f.q,
                1,
                &forged,
                &apex,
                n_labels(&f.q),
                NOW + 86400,
                NOW - 60,
            );
            r.answers = forged;
            r.answers.push(sig);
            r.authorities.clear();
            r.rcode = 0;
        }
        Edit::DnskeyDsOnly => {
            let w = cx.w;
            r.answers.retain(|x| match &x.data {
                RData::DNSSEC(DNSSECRData::DNSKEY(k)) => {
                    let kb = rdata_bytes(&x.data);
                    let owner = mname(&x.name);
                    w.genuine_set(&owner, 43).map_or(false, |ds| {
                        ds.recs.iter().any(|d| match &d.data {
                            RData::DNSSEC(DNSSECRData::DS(d)) => {
                                k.to_digest(&x.name, d.digest_type()).map(|h| h.as_ref() == d.digest()).unwrap_or(false)
                                    && d.key_tag() == key_tag(&kb)
                            }
                            _ => false,
                        })
                    })
                }
                _ => false,
            });
        }
        Edit::DnskeyTagForge => {
            let w = cx.w;
            // a genuine key of this owner that a genuine DS covers
            let target = r.answers.iter().find_map(|x| match &x.data {
                RData::DNSSEC(DNSSECRData::DNSKEY(k)) => {
                    let owner = mname(&x.name);
                    let covered = w.genuine_set(&owner, 43).map_or(false, |ds| {
                        ds.recs.iter().any(|d| match &d.data {
                            RData::DNSSEC(DNSSECRData::DS(d)) => {
                                k.to_digest(&x.name, d.digest_type()).map(|h| h.as_ref() == d.digest()).unwrap_or(false)
                            }
                            _ => false,
                        })
                    });
                    if covered { Some((x.name.clone(), k.clone())) } else { None }
                }
                _ => None,
            });
            if let Some((name, k)) = target {
                let want = key_tag(&rdata_bytes(&RData::DNSSEC(DNSSECRData::DNSKEY(k.clone()))));
                let n = k.public_key().public_bytes().len();
                let mut pk: Vec<u8> = (0..n).map(|i| (i as u8).wrapping_mul(37).wrapping_add(11)).collect();
                // fix the tag with the last two bytes (the checksum is linear in 16-bit words)
                for hi in 0..=255u8 {
                    let mut done = false;
                    for lo in 0..=255u8 {
                        pk[n - 2] = hi;
                        pk[n - 1] = lo;
                        let cand = DNSKEY::with_flags(k.flags(), PublicKeyBuf::new(pk.clone(), k.algorithm()));
                        if key_tag(&rdata_bytes(&RData::DNSSEC(DNSSECRData::DNSKEY(cand)))) == want {
                            done = true;
                            break;
                        }
                    }
                    if done {
                        break;
                    }
                }
                let forged = DNSKEY::with_flags(k.flags(), PublicKeyBuf::new(pk, k.algorithm()));
                r.answers = vec![Record::from_rdata(name, TTL, RData::DNSSEC(DNSSECRData::DNSKEY(forged)))];
                r.authorities.clear();
            }
        }
        Edit::ForgeKeepSig => {
            if let Some(x) = r.answers.iter_mut().find(|x| x.record_type() != RecordType::RRSIG) {
                if let Some(n) = alter_record(cx, &x.clone(), 7) {
                    *x = n;
                }
            }
        }
        Edit::IslandNsec => {
            let island = nm("island.tld.");
            r.answers.clear();
            r.rcode = 0;
            r.authorities = vec![rec(
                &island,
                RData::DNSSEC(DNSSECRData::NSEC(NSEC::new(hname(&nm("zzz.island.tld.")), [RecordType::NS]))),
            )];
        }
        Edit::DsPlusForgedNsec => {
            let g = cx.w.answer(&f.q, f.qtype);
            r.answers.clear();
            r.rcode = 0;
            r.authorities = g.answers;
            let mut nx = vec!["zzz".to_string()];
            nx.extend(f.q.clone());
            r.authorities.push(rec(
                &f.q,
                RData::DNSSEC(DNSSECRData::NSEC(NSEC::new(hname(&nx), [RecordType::NS, RecordType::RRSIG, RecordType::NSEC]))),
            ));
        }
    }
    r
}

// ------------------------------------------------------------------------------------------
// scripted upstream
// ------------------------------------------------------------------------------------------

struct Script {
    w: Arc<World>,
    faults: Vec<Fault>,
    cx_prov: Mutex<HashMap<Vec<u8>, SigProv>>,
    /// every (query -> response) the validator consulted, first occurrence
    log: Mutex<BTreeMap<(MName, u16), Resp>>,
    /// how often each query was sent upstream
    calls: Mutex<BTreeMap<(MName, u16), u32>>,
    neg_as_error: bool,
}

impl Script {
    fn respond(&self, q: &MName, qtype: u16) -> Resp {
        *self.calls.lock().unwrap().entry((q.clone(), qtype)).or_insert(0) += 1;
        if let Some(r) = self.log.lock().unwrap().get(&(q.clone(), qtype)) {
            return r.clone();
        }
        let mut r = self.w.answer(q, qtype);
        let mut cx = Ctx { w: &self.w, extra_prov: HashMap::new() };
        for f in &self.faults {
            if &f.q == q && f.qtype == qtype {
                r = apply_edit(&mut cx, f, r);
            }
        }
        if self.neg_as_error && r.kind == 0 && r.answers.is_empty() {
            r.kind = 1;
        }
        self.cx_prov.lock().unwrap().extend(cx.extra_prov);
        self.log.lock().unwrap().insert((q.clone(), qtype), r.clone());
        r
    }
}

#[derive(Clone)]
struct Upstream(Arc<Script>);

impl DnsHandle for Upstream {
    type Response = Pin<Box<dyn Stream<Item = Result<DnsResponse, NetError>> + Send>>;
    type Runtime = MockRuntime;

    fn send(&self, request: DnsRequest) -> Self::Response {
        let res = (|| {
            let q = request.queries.first().cloned().ok_or_else(|| NetError::from("no query"))?;
            let r = self.0.respond(&mname(&q.name), u16::from(q.query_type));
            match r.kind {
                2 => Err(NetError::from("scripted upstream: no response")),
                1 => {
                    let mut nr = NoRecords::new(q.clone(), ResponseCode::from(0, r.rcode as u8));
                    nr.authorities = Some(r.authorities.clone().into());
                    Err(NetError::Dns(DnsError::NoRecordsFound(nr)))
                }
                _ => {
                    let mut m = Message::response(request.id, OpCode::Query);
                    m.metadata.response_code = ResponseCode::from(0, r.rcode as u8);
                    m.add_query(q);
                    m.add_answers(r.answers.iter().cloned());
                    m.add_authorities(r.authorities.iter().cloned());
                    DnsResponse::from_message(m).map_err(NetError::from)
                }
            }
        })();
        Box::pin(stream::once(futures_util::future::ready(res)))
    }
}

// ------------------------------------------------------------------------------------------
// running the implementation
// ------------------------------------------------------------------------------------------

#[derive(Clone, Debug, PartialEq)]
enum Obs {
    Ok(u16, Vec<Record>, Vec<Record>),
    Nsec(u8, u16, Vec<Record>, Vec<Record>),
    Err,
    Panic(String),
}

fn pcode(p: Proof) -> u8 {
    match p {
        Proof::Secure => 0,
        Proof::Insecure => 1,
        Proof::Bogus => 2,
        Proof::Indeterminate => 3,
    }
}

fn run_impl(script: &Arc<Script>, q: &MName, qtype: u16) -> Obs {
    CLOCK.store(NOW as u64, Ordering::SeqCst);
    let mut anchors = TrustAnchors::empty();
    for (alg, pk) in &script.w.anchors {
        anchors.insert(&PublicKeyBuf::new(pk.clone(), Algorithm::from_u8(*alg)));
    }
    let handle = DnssecDnsHandle::with_trust_anchor(Upstream(script.clone()), Arc::new(anchors));
    let req = DnsRequest::from_query(Query::new(hname(q), RecordType::from(qtype)), DnsRequestOptions::default());
    let res = guard(std::panic::AssertUnwindSafe(move || {
        let mut s = handle.send(req);
        futures_executor::block_on(s.next())
    }));
    match res {
        Err(p) => Obs::Panic(p),
        Ok(Some(Ok(resp))) => Obs::Ok(u16::from(resp.response_code), resp.answers.clone(), resp.authorities.clone()),
        Ok(Some(Err(NetError::Dns(DnsError::Nsec { proof, response, .. })))) => {
            Obs::Nsec(pcode(proof), u16::from(response.response_code), response.answers.clone(), response.authorities.clone())
        }
        Ok(Some(Err(_))) | Ok(None) => Obs::Err,
    }
}

// ------------------------------------------------------------------------------------------
// symbolic form of the consulted responses (input of the Coq model)
// ------------------------------------------------------------------------------------------

#[derive(Default)]
struct Intern {
    rids: HashMap<(u16, Vec<u8>), u64>,
    pks: HashMap<(u8, Vec<u8>), u64>,
}
impl Intern {
    fn rid(&mut self, t: u16, b: &[u8]) -> u64 {
        let n = self.rids.len() as u64 + 1;
        *self.rids.entry((t, b.to_vec())).or_insert(n)
    }
    fn pk(&mut self, alg: u8, b: &[u8]) -> u64 {
        let n = self.pks.len() as u64 + 1;
        *self.pks.entry((alg, b.to_vec())).or_insert(n)
    }
}

fn tok_name(t: &mut Vec<u32>, n: &MName) {
    t.push(n.len() as u32);
    for l in n {
        t.push(label_id(l) as u32);
    }
}

fn tok_rr(t: &mut Vec<u32>, it: &mut Intern, w: &World, extra: &HashMap<Vec<u8>, SigProv>, r: &Record) {
    tok_name(t, &mname(&r.name));
    let ty = u16::from(r.record_type());
    let rb = rdata_bytes(&r.data);
    let rid = it.rid(ty, &rb);
    t.push(rid as u32);
    match &r.data {
        RData::DNSSEC(DNSSECRData::DNSKEY(k)) => {
            let alg = u8::from(k.algorithm());
            let pk = it.pk(alg, k.public_key().public_bytes());
            t.extend([1, rid as u32, pk as u32, alg as u32, key_tag(&rb) as u32]);
            t.push((k.flags() & 0x0100 != 0) as u32);
            t.push((k.flags() & 0x0080 != 0) as u32);
        }
        RData::DNSSEC(DNSSECRData::DS(d)) => {
            let dt = u8::from(d.digest_type());
            t.extend([2, d.key_tag() as u32, u8::from(d.algorithm()) as u32, dt as u32]);
            match w.dig_prov.get(d.digest()) {
                Some((n, kb, pdt)) if *pdt == dt => {
                    t.push(1);
                    tok_name(t, n);
                    t.push(it.rid(48, kb) as u32);
                }
                _ => t.push(0),
            }
        }
        RData::DNSSEC(DNSSECRData::RRSIG(s)) => {
            let i = s.input();
            t.extend([
                3,
                u16::from(i.type_covered) as u32,
                u8::from(i.algorithm) as u32,
                i.num_labels as u32,
                i.original_ttl,
                i.sig_expiration.get(),
                i.sig_inception.get(),
                i.key_tag as u32,
            ]);
            tok_name(t, &mname(&i.signer_name));
            match w.sig_prov.get(s.sig()).or_else(|| extra.get(s.sig())) {
                Some(p) => {
                    let mut rids: Vec<u64> = p.rdatas.iter().map(|b| it.rid(p.tc, b)).collect();
                    rids.sort();
                    t.push(1);
                    t.push(it.pk(p.key.0, &p.key.1) as u32);
                    tok_name(t, &p.owner);
                    t.extend([p.tc as u32, p.labels as u32, p.ottl, p.alg as u32, p.exp, p.inc, p.tag as u32]);
                    tok_name(t, &p.signer);
                    t.push(rids.len() as u32);
                    t.extend(rids.iter().map(|x| *x as u32));
                }
                None => t.push(0),
            }
        }
        _ => t.extend([0, ty as u32]),
    }
}

fn tok_rrs(t: &mut Vec<u32>, it: &mut Intern, w: &World, extra: &HashMap<Vec<u8>, SigProv>, v: &[Record]) {
    t.push(v.len() as u32);
    for r in v {
        tok_rr(t, it, w, extra, r);
    }
}

/// verdicts of the real verify_nsec / verify_nsec3 for every subset of NSEC(3) owner names
fn nsec_table(q: &MName, qtype: u16, r: &Resp) -> Vec<(bool, Vec<usize>, u8)> {
    let mut out = vec![];
    let query = Query::new(hname(q), RecordType::from(qtype));
    let soa = r.authorities.iter().find(|x| x.record_type() == RecordType::SOA).map(|x| x.name.clone());
    let rcode = ResponseCode::from(0, r.rcode as u8);
    for n3 in [false, true] {
        let want = if n3 { RecordType::NSEC3 } else { RecordType::NSEC };
        let mut owners: Vec<Name> = vec![];
        for x in &r.authorities {
            if x.record_type() == want && !owners.contains(&x.name) {
                owners.push(x.name.clone());
            }
        }
        if owners.is_empty() || owners.len() > 5 {
            continue;
        }
        for mask in 1u32..(1 << owners.len()) {
            let pos: Vec<usize> = r
                .authorities
                .iter()
                .enumerate()
                .filter(|(_, x)| {
                    x.record_type() == want && owners.iter().position(|o| o == &x.name).map_or(false, |k| mask >> k & 1 == 1)
                })
                .map(|(i, _)| i)
                .collect();
            let p = if n3 {
                let v: Vec<(&Name, &hickory_net::proto::dnssec::rdata::NSEC3)> = pos
                    .iter()
                    .filter_map(|i| match &r.authorities[*i].data {
                        RData::DNSSEC(DNSSECRData::NSEC3(n)) => Some((&r.authorities[*i].name, n)),
                        _ => None,
                    })
                    .collect();
                hickory_net::dnssec::verif_hooks::verify_nsec3(&query, soa.as_ref(), rcode, &r.answers, &v, 100, 500)
            } else {
                let v: Vec<(&Name, &NSEC)> = pos
                    .iter()
                    .filter_map(|i| match &r.authorities[*i].data {
                        RData::DNSSEC(DNSSECRData::NSEC(n)) => Some((&r.authorities[*i].name, n)),
                        _ => None,
                    })
                    .collect();
                hickory_net::dnssec::verif_hooks::verify_nsec(&query, soa.as_ref(), rcode, &r.answers, &v)
            };
            out.push((n3, pos, pcode(p)));
        }
    }
    out
}

// ------------------------------------------------------------------------------------------
// direct oracle
// ------------------------------------------------------------------------------------------

/// consumer's view: DnssecSummary-like classification of the validated message
/// 0 secure, 1 insecure, 2 bogus
#[allow(dead_code)]
fn summary(recs: &[Record]) -> u8 {
    let mut all = None;
    // signature records are left out: only the RRSIG actually used gets a proof, so a second valid
    // RRSIG (two active ZSKs) stays Indeterminate and would make every such answer "insecure"
    for r in recs.iter().filter(|r| r.record_type() != RecordType::RRSIG) {
        match r.proof {
            Proof::Secure => {
                all.get_or_insert(true);
            }
            Proof::Bogus => return 2,
            _ => all = Some(false),
        }
    }
    if all.unwrap_or(false) {
        0
    } else {
        1
    }
}

fn same_rr(a: &Record, b: &Record) -> bool {
    a.name == b.name && a.record_type() == b.record_type() && a.data == b.data
}

/// Secure records must be genuine, and the whole genuine RRset must be there
fn secure_is_genuine(w: &World, sec: &[Record]) -> Option<String> {
    for r in sec.iter().filter(|r| r.proof == Proof::Secure) {
        let owner = mname(&r.name);
        if w.zones.iter().any(|z| z.attacker && is_anc_or_self(&z.apex, &owner)) {
            continue; // the adversary's own, properly delegated namespace: whatever its keys sign is "genuine"
        }
        // the same (owner, type) can exist on both sides of a zone cut (NSEC, NS): any of them will do
        let owner_ref = &owner;
        let sets = |t: u16| w.sets.iter().filter(move |g| &g.owner == owner_ref && g.rtype == t);
        if let RData::DNSSEC(DNSSECRData::RRSIG(s)) = &r.data {
            let tc = u16::from(s.input().type_covered);
            if !sets(tc).any(|g| g.sigs.iter().any(|x| same_rr(x, r))) {
                return Some(format!("RRSIG {} covering type {} is Secure but is not a genuine signature record", r.name, tc));
            }
            continue;
        }
        let t = u16::from(r.record_type());
        if sets(t).next().is_none() {
            return Some(format!("record {} type {} is Secure but no such RRset exists in the hierarchy", r.name, t));
        }
        let Some(g) = sets(t).find(|g| g.recs.iter().any(|x| same_rr(x, r))) else {
            return Some(format!("record {} type {} is Secure but its content is not the genuine one: {}", r.name, t, r.data));
        };
        if !w.zones[g.zone].signed || w.zones[g.zone].unsupported {
            return Some(format!("record {} type {} of an unsigned zone is Secure", r.name, t));
        }
        for x in &g.recs {
            if !sec.iter().any(|y| same_rr(x, y) && y.proof == Proof::Secure) {
                return Some(format!(
                    "RRset {} type {} is Secure but incomplete: genuine record {} was removed",
                    r.name,
                    t,
                    x.data
                ));
            }
        }
    }
    None
}

fn relevant<'a>(recs: &'a [Record], q: &MName, qtype: u16) -> Vec<&'a Record> {
    recs.iter().filter(|r| mname(&r.name) == *q && u16::from(r.record_type()) == qtype).collect()
}

/// status of the zone that holds (owner, type) in the hierarchy as built: true = signed with a
/// supported algorithm along the whole chain
fn name_is_secure(w: &World, owner: &MName, t: u16) -> bool {
    // every zone from the root down to the one holding the name must be signed and supported
    let zi = w.zone_for(owner, t);
    let apex = &w.zones[zi].apex;
    w.zones.iter().filter(|z| is_anc_or_self(&z.apex, apex)).all(|z| z.signed && !z.unsupported)
}

/// Insecure is legitimate only for names of zones that really are insecure
fn insecure_is_legit(w: &World, sec: &[Record]) -> Option<String> {
    for r in sec.iter().filter(|r| r.proof == Proof::Insecure) {
        let owner = mname(&r.name);
        let t = match &r.data {
            RData::DNSSEC(DNSSECRData::RRSIG(s)) => u16::from(s.input().type_covered),
            d => u16::from(d.record_type()),
        };
        if w.zones.iter().any(|z| z.attacker && is_anc_or_self(&z.apex, &owner)) {
            continue;
        }
        if name_is_secure(w, &owner, t) {
            return Some(format!(
                "record {} {} {} is reported Insecure although every zone on its chain is signed: silently insecure",
                r.name,
                r.record_type(),
                r.data
            ));
        }
    }
    None
}

/// full oracle; `genuine` = observation of the same query on the untampered hierarchy
fn oracle(w: &World, q: &MName, qtype: u16, tampered: bool, genuine: &Obs, obs: &Obs) -> Option<String> {
    if let Obs::Panic(p) = obs {
        return Some(format!("validator panicked: {p}"));
    }
    if w.hid == 8 {
        // the only trust anchor is revoked: no chain exists, whatever the upstream sends
        if let Obs::Ok(_, a, u) | Obs::Nsec(_, _, a, u) = obs {
            if let Some(r) = a.iter().chain(u.iter()).find(|r| r.proof == Proof::Secure) {
                return Some(format!(
                    "record {} {} is Secure although the only trust anchor is a REVOKED key (flags bit 0x0080)",
                    r.name,
                    r.record_type()
                ));
            }
        }
        return None;
    }
    let (ok, rc, ans, auth) = match obs {
        Obs::Ok(rc, a, u) => (true, *rc, a, u),
        Obs::Nsec(_, rc, a, u) => (false, *rc, a, u),
        _ => {
            if !tampered {
                return Some("untampered hierarchy: query ended in an error".to_string());
            }
            return None;
        }
    };
    // per-record statements (also for the message carried by an NSEC error)
    if let Some(e) = secure_is_genuine(w, ans).or_else(|| secure_is_genuine(w, auth)) {
        return Some(e);
    }
    if let Some(e) = insecure_is_legit(w, ans).or_else(|| insecure_is_legit(w, auth)) {
        return Some(e);
    }
    if !ok {
        if !tampered {
            return Some("untampered hierarchy: query ended in an NSEC error".to_string());
        }
        return None;
    }
    let secure_chain = name_is_secure(w, q, qtype);
    let secure_q = secure_chain && !w.zones.iter().any(|z| z.attacker && is_anc_or_self(&z.apex, q));
    let rel = relevant(ans, q, qtype);
    let want = if secure_chain { Proof::Secure } else { Proof::Insecure };
    if !tampered {
        // completeness on the honest hierarchy
        let Obs::Ok(_, gans, gauth) = genuine else { return Some("untampered run is not Ok".into()) };
        let _ = (gans, gauth);
        if let Some(r) = rel.iter().find(|r| r.proof != want) {
            return Some(format!("untampered hierarchy: answer {} {} has proof {:?}, expected {:?}", r.name, r.record_type(), r.proof, want));
        }
        if rel.is_empty() {
            if let Some(r) = auth.iter().find(|r| r.record_type() != RecordType::RRSIG && r.proof != want) {
                return Some(format!("untampered hierarchy: authority {} {} has proof {:?}, expected {:?}", r.name, r.record_type(), r.proof, want));
            }
        }
        return None;
    }
    if !secure_q {
        return None;
    }
    // the chain to the question is signed and something was tampered with: the message the validator let
    // through must be a rejection (some record Bogus in the section a consumer summarises) or harmless
    let section: &Vec<Record> = if !ans.is_empty() { ans } else { auth };
    if section.iter().any(|r| r.proof == Proof::Bogus) {
        return None;
    }
    if !rel.is_empty() {
        if let Some(r) = rel.iter().find(|r| r.proof != Proof::Secure) {
            return Some(format!("signed chain tampered, yet answer {} {} {} is let through as {:?}", r.name, r.record_type(), r.data, r.proof));
        }
        return None; // Secure => genuine and complete, checked above
    }
    // nothing for the question: acceptable only as the genuine, proven denial
    let Obs::Ok(grc, gans, gauth) = genuine else { return None };
    if !relevant(gans, q, qtype).is_empty() {
        return Some(format!("signed chain tampered: existing data is missing from an accepted message (rcode {rc}) and nothing is marked Bogus"));
    }
    if rc != *grc {
        return Some(format!("accepted negative answer with rcode {rc}, genuine rcode {grc}"));
    }
    for g in gauth.iter().filter(|g| matches!(g.record_type(), RecordType::NSEC | RecordType::NSEC3)) {
        if !auth.iter().any(|x| same_rr(x, g) && x.proof == Proof::Secure) {
            return Some("signed chain tampered, yet a negative answer without the genuine denial records is accepted: silently insecure".to_string());
        }
    }
    None
}

// ------------------------------------------------------------------------------------------
// known-finding classes (narrow, decidable on the consulted responses)
// ------------------------------------------------------------------------------------------

fn really_signed(w: &World, extra: &HashMap<Vec<u8>, SigProv>, sec: &[Record], x: &Record) -> bool {
    // some RRSIG of the section covering x's RRset is a real signature over exactly the section's RRset
    let t = u16::from(x.record_type());
    let mut rd: Vec<Vec<u8>> =
        sec.iter().filter(|y| y.name == x.name && y.record_type() == x.record_type()).map(|y| rdata_bytes(&y.data)).collect();
    rd.sort();
    sec.iter().any(|y| match &y.data {
        RData::DNSSEC(DNSSECRData::RRSIG(s)) if y.name == x.name && u16::from(s.input().type_covered) == t => {
            w.sig_prov.get(s.sig()).or_else(|| extra.get(s.sig())).map_or(false, |p| p.rdatas == rd)
        }
        _ => false,
    })
}

fn known_class(w: &World, log: &BTreeMap<(MName, u16), Resp>, extra: &HashMap<Vec<u8>, SigProv>) -> Option<String> {
    // (K1, the panic on an orphan DNSKEY RRSIG, was fixed in /repo fed49c5: a panic is a violation again)
    // K2: a response whose answer section is non-empty but holds no record of the type asked for at the
    // name asked for (DS query answered with junk; answer made of orphan RRSIGs only; ...): accepted
    // without any denial proof
    for ((n, t), r) in log {
        if r.kind == 0
            && !r.answers.is_empty()
            && !r.answers.iter().any(|x| u16::from(x.record_type()) == *t && mname(&x.name) == *n)
        {
            return Some("C07-K2-nonempty-answer-needs-no-denial".into());
        }
    }
    // (K3, the RRSIG signer name that is neither the owner nor an ancestor of the owner, was fixed in /repo:
    // verify_default_rrset skips such RRSIGs; a Secure / Insecure verdict obtained through a foreign signer
    // is a violation again — the attack family atk-foreign-signer stays and must be rejected)
    // K4: a DNSKEY RRset without a real signature over it, every key of which is a trust anchor's key
    // or matched by a genuine DS record: accepted key by key (subset of the real key set / an anchor
    // key under a foreign name)
    for r in log.values() {
        for x in r.answers.iter().filter(|x| x.record_type() == RecordType::DNSKEY) {
            if really_signed(w, extra, &r.answers, x) {
                continue;
            }
            let all_ok = r.answers.iter().filter(|y| y.record_type() == RecordType::DNSKEY && y.name == x.name).all(|y| {
                let RData::DNSSEC(DNSSECRData::DNSKEY(k)) = &y.data else { return false };
                let anchored = w.anchors.iter().any(|(a, p)| *a == u8::from(k.algorithm()) && p == k.public_key().public_bytes());
                let ds_ok = w.genuine_set(&mname(&y.name), 43).map_or(false, |ds| {
                    ds.recs.iter().any(|d| match &d.data {
                        RData::DNSSEC(DNSSECRData::DS(d)) => {
                            k.to_digest(&y.name, d.digest_type()).map(|h| h.as_ref() == d.digest()).unwrap_or(false)
                        }
                        _ => false,
                    })
                });
                anchored || ds_ok
            });
            if all_ok {
                return Some("C07-K4-dnskey-set-accepted-without-signature".into());
            }
        }
    }
    for ((n, t), r) in log {
        let zq = w.zone_for(n, *t);
        // K5: an NSEC/NSEC3 record without a real signature sits in an authority section next to a really
        // signed RRset with the same owner name (the NSEC is used because "its name has a Secure record")
        for x in &r.authorities {
            if matches!(x.record_type(), RecordType::NSEC | RecordType::NSEC3)
                && !really_signed(w, extra, &r.authorities, x)
                && r.authorities.iter().any(|y| {
                    y.name == x.name
                        && y.record_type() != x.record_type()
                        && y.record_type() != RecordType::RRSIG
                        && really_signed(w, extra, &r.authorities, y)
                })
            {
                return Some("C07-K5-unsigned-nsec-beside-secure-rrset".into());
            }
        }
        // K6: the authority section of a response about a signed zone consists of records owned by an
        // insecure (unsigned / unsupported-algorithm) zone of the hierarchy
        let qz = &w.zones[zq];
        if qz.signed && !qz.unsupported && !r.authorities.is_empty() && r.answers.is_empty() {
            let foreign = |x: &Record| {
                let o = mname(&x.name);
                w.zones.iter().any(|z| (!z.signed || z.unsupported) && is_anc_or_self(&z.apex, &o))
            };
            if r.authorities.iter().all(foreign) {
                return Some("C07-K6-foreign-insecure-authority".into());
            }
        }
    }
    None
}

// ------------------------------------------------------------------------------------------
// cases
// ------------------------------------------------------------------------------------------

fn queries() -> Vec<(MName, u16, &'static str)> {
    vec![
        (nm("www.leaf.tld."), 1, "pos"),
        (nm("mail.leaf.tld."), 16, "pos-txt"),
        (nm("mail.leaf.tld."), 28, "nodata"),
        (nm("nx.leaf.tld."), 1, "nxdomain"),
        (nm("leaf.tld."), 48, "dnskey"),
        (nm("leaf.tld."), 43, "ds"),
        (nm("www.island.tld."), 1, "island"),
        (nm("www.evil.tld."), 1, "evilzone"),
        (nm("www.unsup.tld."), 1, "unsup"),
        (nm("leaf.tld."), 2, "ns"),
        (nm("www.tld."), 1, "tld-pos"),
        (nm("island.tld."), 43, "ds-absent"),
    ]
}

fn genuine_run(hid: u64, q: &MName, qtype: u16) -> (Obs, Vec<(MName, u16)>) {
    static MEMO: OnceLock<Mutex<HashMap<(u64, MName, u16), (Obs, Vec<(MName, u16)>)>>> = OnceLock::new();
    let m = MEMO.get_or_init(|| Mutex::new(HashMap::new()));
    if let Some(v) = m.lock().unwrap().get(&(hid, q.clone(), qtype)) {
        return v.clone();
    }
    let s = Arc::new(Script {
        w: world(hid),
        faults: vec![],
        cx_prov: Mutex::new(HashMap::new()),
        log: Mutex::new(BTreeMap::new()),
        calls: Mutex::new(BTreeMap::new()),
        neg_as_error: false,
    });
    let o = run_impl(&s, q, qtype);
    let qs: Vec<(MName, u16)> = s.log.lock().unwrap().keys().cloned().collect();
    m.lock().unwrap().insert((hid, q.clone(), qtype), (o.clone(), qs.clone()));
    (o, qs)
}

fn random_edit(r: &mut Rng, w: &World, resp: &Resp) -> Edit {
    let na = resp.answers.len();
    let nu = resp.authorities.len();
    let pick_pos = |r: &mut Rng| -> (u8, usize) {
        let t = (na + nu).max(1);
        let i = r.below(t as u64) as usize;
        if i < na {
            (0, i)
        } else {
            (1, i - na)
        }
    };
    match r.below(20) {
        0..=5 => {
            let (s, i) = pick_pos(r);
            Edit::Alter(s, i, r.next() % 1000)
        }
        6..=8 => {
            let (s, i) = pick_pos(r);
            Edit::Drop(s, i)
        }
        9..=10 => {
            let (s, i) = pick_pos(r);
            Edit::Replace(s, i, r.next() % 1000)
        }
        11 => Edit::Inject(r.below(2) as u8, r.next() % 1000, r.chance(1, 2)),
        12 => Edit::InjectForged(r.below(2) as u8),
        13..=14 => {
            let (s, i) = pick_pos(r);
            Edit::Strip(s, i)
        }
        15 => {
            let (s, i) = pick_pos(r);
            Edit::DropSet(s, i)
        }
        16 => {
            let z = &w.zones[r.below(w.zones.len() as u64) as usize];
            Edit::Swap(z.apex.clone(), *r.pick(&[43u16, 48, 2]))
        }
        17 => Edit::Fail,
        18 => Edit::AsNoRecords,
        _ => Edit::Empty,
    }
}

fn edit_text(e: &Edit) -> String {
    match e {
        Edit::Swap(n, t) => format!("Swap({},{})", show(n), t),
        e => format!("{e:?}"),
    }
}

fn case(seed: u64, index: u64) -> CaseOut {
    let mut r = Rng::for_case(seed, index);
    // one index in 40: the revoked-anchor hierarchy (8), where nothing may come back Secure
    let hid = r.below(N_HIER);
    // special hierarchies on fixed residues (the draw above is still made, so all other cases are unchanged):
    // 8 = revoked anchor, 9 / 10 = leaf DS RRset mixing a supported and an unsupported DS
    let hid = match index % 40 {
        39 => 8,
        18 => 9,
        38 => 10,
        _ => hid,
    };
    let w = world(hid);
    let qs = queries();
    let (q, qtype, qkind) = qs[r.below(qs.len() as u64) as usize].clone();
    let (gobs, consulted) = genuine_run(hid, &q, qtype);
    let mode = r.below(100);
    let mut faults: Vec<Fault> = vec![];
    let mut kind = String::new();
    let mut mk_fault = |r: &mut Rng| -> Fault {
        let (tq, tt) = consulted[r.below(consulted.len() as u64) as usize].clone();
        let resp = w.answer(&tq, tt);
        Fault { q: tq, qtype: tt, edit: random_edit(r, &w, &resp) }
    };
    if mode < 6 {
        kind = "genuine".into();
    } else if mode < 66 {
        faults.push(mk_fault(&mut r));
        kind = "single".into();
    } else if mode < 82 {
        faults.push(mk_fault(&mut r));
        faults.push(mk_fault(&mut r));
        kind = "double".into();
    } else {
        // attack scripts: targeted multi-record tamperings
        let zone_of_q = w.zones[w.zone_for(&q, qtype)].apex.clone();
        let forged_main = |faults: &mut Vec<Fault>| {
            // the main answer replaced by forged, unsigned data
            faults.push(Fault { q: q.clone(), qtype, edit: Edit::JunkAnswer });
        };
        match r.below(9) {
            7 => {
                faults.push(Fault { q: zone_of_q.clone(), qtype: 48, edit: Edit::DnskeyTagForge });
                kind = "atk-dnskey-tag-forge".into();
            }
            8 => {
                // the zone's keys are made Bogus (one key byte flipped), the answer is forged under its old RRSIG
                faults.push(Fault { q: zone_of_q.clone(), qtype: 48, edit: Edit::Alter(0, 0, 4) });
                faults.push(Fault { q: q.clone(), qtype, edit: Edit::ForgeKeepSig });
                kind = "atk-bogus-keys".into();
            }
            0 => {
                faults.push(Fault { q: zone_of_q.clone(), qtype: 43, edit: Edit::JunkAnswer });
                forged_main(&mut faults);
                kind = "atk-ds-junk".into();
            }
            1 => {
                faults.push(Fault { q: q.clone(), qtype, edit: Edit::ForeignSigned });
                kind = "atk-foreign-signer".into();
            }
            2 => {
                faults.push(Fault { q: zone_of_q.clone(), qtype: 48, edit: Edit::DnskeyDsOnly });
                kind = "atk-dnskey-ds-only".into();
            }
            3 => {
                faults.push(Fault { q: zone_of_q.clone(), qtype: 43, edit: Edit::IslandNsec });
                forged_main(&mut faults);
                kind = "atk-island-nsec".into();
            }
            4 => {
                faults.push(Fault { q: zone_of_q.clone(), qtype: 43, edit: Edit::DsPlusForgedNsec });
                forged_main(&mut faults);
                kind = "atk-ds-plus-forged-nsec".into();
            }
            5 => {
                faults.push(Fault { q: zone_of_q.clone(), qtype: 43, edit: Edit::Drop(0, 0) });
                forged_main(&mut faults);
                kind = "atk-ds-drop".into();
            }
            _ => {
                faults.push(Fault { q: zone_of_q.clone(), qtype: 43, edit: Edit::Fail });
                forged_main(&mut faults);
                kind = "atk-ds-fail".into();
            }
        }
    }
    let neg_as_error = r.chance(1, 8);
    let script = Arc::new(Script {
        w: w.clone(),
        faults: faults.clone(),
        cx_prov: Mutex::new(HashMap::new()),
        log: Mutex::new(BTreeMap::new()),
        calls: Mutex::new(BTreeMap::new()),
        neg_as_error,
    });
    let obs = run_impl(&script, &q, qtype);
    let log = script.log.lock().unwrap().clone();
    let extra = script.cx_prov.lock().unwrap().clone();
    // did the faults change anything the validator saw?
    let tampered = log.iter().any(|((n, t), r)| {
        let g = w.answer(n, *t);
        r.kind == 2 || g.rcode != r.rcode || g.answers != r.answers || g.authorities != r.authorities
    });
    let oracle_fail = oracle(&w, &q, qtype, tampered, &gobs, &obs);
    let known = if oracle_fail.is_some() { known_class(&w, &log, &extra) } else { None };

    // ---- Coq case (stream of 32-bit numbers, see coq/C07/Check.v) ----
    let mut it = Intern::default();
    let mut t: Vec<u32> = vec![0];
    t.push(w.anchors.len() as u32);
    for (a, p) in &w.anchors {
        t.push(it.pk(*a, p) as u32);
    }
    t.push(NOW);
    tok_name(&mut t, &q);
    t.push(qtype as u32);
    t.push(log.len() as u32);
    let mut ntbl: Vec<((MName, u16), bool, Vec<usize>, u8)> = vec![];
    for ((n, ty), resp) in &log {
        tok_name(&mut t, n);
        t.push(*ty as u32);
        match resp.kind {
            2 => t.push(2),
            1 => {
                t.extend([1, resp.rcode as u32]);
                tok_rrs(&mut t, &mut it, &w, &extra, &resp.authorities);
            }
            _ => {
                t.extend([0, resp.rcode as u32]);
                tok_rrs(&mut t, &mut it, &w, &extra, &resp.answers);
                tok_rrs(&mut t, &mut it, &w, &extra, &resp.authorities);
            }
        }
        if resp.kind != 2 {
            let eff = if resp.kind == 1 { Resp { answers: vec![], ..resp.clone() } } else { resp.clone() };
            for (n3, pos, p) in nsec_table(n, *ty, &eff) {
                ntbl.push(((n.clone(), *ty), n3, pos, p));
            }
        }
    }
    t.push(ntbl.len() as u32);
    for ((n, ty), n3, pos, p) in &ntbl {
        tok_name(&mut t, n);
        t.push(*ty as u32);
        t.push(*n3 as u32);
        t.push(pos.len() as u32);
        t.extend(pos.iter().map(|x| *x as u32));
        t.push(*p as u32);
    }
    let plist = |v: &[Record]| coq_list(v.iter().map(|x| pcode(x.proof).to_string()));
    let tok_proofs = |t: &mut Vec<u32>, v: &[Record]| {
        t.push(v.len() as u32);
        t.extend(v.iter().map(|x| pcode(x.proof) as u32));
    };
    let obs_text = match &obs {
        Obs::Ok(rc, a, u) => {
            t.extend([0, *rc as u32]);
            tok_proofs(&mut t, a);
            tok_proofs(&mut t, u);
            format!("Ok rc={} ans={} auth={}", rc, plist(a), plist(u))
        }
        Obs::Nsec(p, rc, a, u) => {
            t.extend([1, *p as u32, *rc as u32]);
            tok_proofs(&mut t, a);
            tok_proofs(&mut t, u);
            format!("NsecErr proof={} rc={} ans={} auth={}", p, rc, plist(a), plist(u))
        }
        Obs::Err => {
            t.push(2);
            "Err".to_string()
        }
        Obs::Panic(m) => {
            t.push(3);
            format!("PANIC {m}")
        }
    };
    let mut bytes: Vec<u8> = vec![];
    for x in &t {
        if *x < 255 {
            bytes.push(*x as u8);
        } else {
            bytes.push(255);
            bytes.extend(x.to_be_bytes());
        }
    }
    let coq = format!("CaseP {}", coq_pb(&bytes));
    // self-referential inputs (e.g. a zone's DS response carrying an RRset signed by that zone itself) send the
    // validator around a loop until the depth backstop; there verdicts depend on the nesting depth and the
    // validation cache (not modelled) decides which one is reused: no correspondence claim for them, the
    // oracle still applies
    let max_calls = script.calls.lock().unwrap().values().copied().max().unwrap_or(0);
    let looping = max_calls > LOOP_CALLS;
    let coq = if looping { format!("CaseP {}", coq_pb(&[2u8])) } else { coq };
    let kind = if looping { format!("loop-{kind}") } else { kind };
    let ftext = faults
        .iter()
        .map(|f| format!("{}/{}:{}", show(&f.q), f.qtype, edit_text(&f.edit)))
        .collect::<Vec<_>>()
        .join(" + ");
    let text_in = format!(
        "hier={}({}) q={}/{} [{}] faults=[{}] negerr={}",
        hid,
        w.desc,
        show(&q),
        qtype,
        qkind,
        ftext,
        neg_as_error
    );
    CaseOut {
        index,
        coq,
        text: format!("seed={seed} index={index} {kind} {text_in} consulted={} maxcalls={} tampered={} => {obs_text}", log.len(), max_calls, tampered),
        key: text_in,
        nontrivial: log.len() >= 2,
        kind: format!("{kind}/{qkind}"),
        oracle_fail,
        known,
    }
}

// ------------------------------------------------------------------------------------------
// server clause: the real request front door (VerifContext hook) + Catalog + a mock external
// (forwarding) zone handler that hands back answer records carrying chosen proofs
// ------------------------------------------------------------------------------------------

mod srv {
    use std::net::SocketAddr;
    use std::sync::{Arc, Mutex};

    use futures_util::StreamExt;
    use hickory_net::proto::dnssec::Proof;
    use hickory_net::proto::op::{Edns, Message, MessageType, OpCode, Query, SerialMessage};
    use hickory_net::proto::rr::rdata::A;
    use hickory_net::proto::rr::{LowerName, Name, RData, Record, RecordType};
    use hickory_net::xfer::Protocol;
    use hickory_net::BufDnsStreamHandle;
    use hickory_server::dnssec::NxProofKind;
    use hickory_server::server::{RequestInfo, VerifContext};
    use hickory_server::zone_handler::{
        AuthLookup, AxfrPolicy, Catalog, LookupControlFlow, LookupOptions, LookupRecords, Nsec3QueryInfo, ZoneHandler, ZoneType,
    };

    pub struct Mock {
        origin: LowerName,
        pub answers: Arc<Mutex<Vec<Record>>>,
    }

    #[async_trait::async_trait]
    impl ZoneHandler for Mock {
        fn zone_type(&self) -> ZoneType {
            ZoneType::External
        }
        fn axfr_policy(&self) -> AxfrPolicy {
            AxfrPolicy::Deny
        }
        fn can_validate_dnssec(&self) -> bool {
            true
        }
        fn origin(&self) -> &LowerName {
            &self.origin
        }
        async fn lookup(
            &self,
            _name: &LowerName,
            _rtype: RecordType,
            _request_info: Option<&RequestInfo<'_>>,
            _lookup_options: LookupOptions,
        ) -> LookupControlFlow<AuthLookup> {
            let v = self.answers.lock().unwrap().clone();
            LookupControlFlow::Continue(Ok(AuthLookup::answers(LookupRecords::Section(v), None)))
        }
        async fn nsec_records(&self, _name: &LowerName, _lookup_options: LookupOptions) -> LookupControlFlow<AuthLookup> {
            LookupControlFlow::Continue(Ok(AuthLookup::default()))
        }
        async fn nsec3_records(&self, _info: Nsec3QueryInfo<'_>, _lookup_options: LookupOptions) -> LookupControlFlow<AuthLookup> {
            LookupControlFlow::Continue(Ok(AuthLookup::default()))
        }
        fn nx_proof_kind(&self) -> Option<&NxProofKind> {
            None
        }
        fn metrics_label(&self) -> &'static str {
            "mock"
        }
    }

    pub fn setup() -> (VerifContext<Catalog>, Arc<Mutex<Vec<Record>>>) {
        let origin = Name::parse("fwd.test.", None).unwrap();
        let answers = Arc::new(Mutex::new(vec![]));
        let mock = Mock { origin: LowerName::new(&origin), answers: answers.clone() };
        let mut cat = Catalog::new();
        cat.upsert(LowerName::new(&origin), vec![Arc::new(mock) as Arc<dyn ZoneHandler>]);
        (VerifContext::new(cat, [], []), answers)
    }

    pub fn proof_of(p: u8) -> Proof {
        match p {
            0 => Proof::Secure,
            1 => Proof::Insecure,
            2 => Proof::Bogus,
            _ => Proof::Indeterminate,
        }
    }

    /// (AD, rcode, number of answers) of the reply
    pub fn ask(
        ctx: &VerifContext<Catalog>,
        store: &Arc<Mutex<Vec<Record>>>,
        rt: &tokio::runtime::Runtime,
        proofs: &[u8],
        ad: bool,
        cd: bool,
        do_: bool,
        id: u16,
    ) -> Option<(bool, u16, usize)> {
        let name = Name::parse("www.fwd.test.", None).unwrap();
        {
            let mut g = store.lock().unwrap();
            g.clear();
            for (i, p) in proofs.iter().enumerate() {
                let mut r = Record::from_rdata(name.clone(), 300, RData::A(A::new(10, 0, 0, i as u8)));
                r.proof = proof_of(*p);
                g.push(r);
            }
        }
        let mut m = Message::new(id, MessageType::Query, OpCode::Query);
        m.metadata.recursion_desired = true;
        m.metadata.authentic_data = ad;
        m.metadata.checking_disabled = cd;
        m.add_query(Query::new(name, RecordType::A));
        let mut e = Edns::new();
        e.set_max_payload(1232);
        e.set_version(0);
        if do_ {
            e.enable_dnssec();
        }
        m.set_edns(e);
        let bytes = m.to_vec().unwrap();
        let src: SocketAddr = "192.0.2.7:5300".parse().unwrap();
        let (handle, mut rx) = BufDnsStreamHandle::new(src);
        rt.block_on(async {
            ctx.handle_raw_request(SerialMessage::new(bytes, src), Protocol::Tcp, handle).await;
        });
        let reply = rt.block_on(async { rx.next().await })?.into_parts().0;
        let d = Message::from_vec(&reply).ok()?;
        Some((d.metadata.authentic_data, u16::from(d.metadata.response_code), d.answers.len()))
    }
}

const SRV_BASE: u64 = 1 << 40;

thread_local! {
    static SRV: (hickory_server::server::VerifContext<hickory_server::zone_handler::Catalog>, Arc<Mutex<Vec<Record>>>, tokio::runtime::Runtime) = {
        let (c, s) = srv::setup();
        (c, s, tokio::runtime::Builder::new_current_thread().enable_all().build().unwrap())
    };
}

/// server case: proofs of 0..5 answer records (exhaustive over small vectors by index, then random), AD/CD/DO bits
fn srv_case(seed: u64, index: u64) -> CaseOut {
    let mut r = Rng::for_case(seed, index);
    let k = index - SRV_BASE;
    // k < 8 * (1 + 4 + 16 + 64) enumerates all proof vectors of length <= 3 with all flag combinations
    let (proofs, flags): (Vec<u8>, u64) = if k < 8 * 85 {
        let f = k % 8;
        let mut v = k / 8;
        let mut len = 0;
        let mut cnt = 1;
        while v >= cnt {
            v -= cnt;
            cnt *= 4;
            len += 1;
        }
        ((0..len).map(|i| ((v >> (2 * i)) & 3) as u8).collect(), f)
    } else {
        let n = r.range(1, 5) as usize;
        ((0..n).map(|_| if r.chance(3, 5) { 0 } else { r.below(4) as u8 }).collect(), r.below(8))
    };
    let (ad, cd, do_) = (flags & 1 != 0, flags & 2 != 0, flags & 4 != 0);
    let obs = SRV.with(|(ctx, store, rt)| {
        let ctx = std::panic::AssertUnwindSafe(ctx);
        let store = std::panic::AssertUnwindSafe(store);
        let rt = std::panic::AssertUnwindSafe(rt);
        let p = proofs.clone();
        guard(move || srv::ask(&ctx, &store, &rt, &p, ad, cd, do_, index as u16))
    });
    let text_in = format!("server proofs={:?} ad={} cd={} do={}", proofs, ad, cd, do_);
    let mut t: Vec<u32> = vec![1, proofs.len() as u32];
    t.extend(proofs.iter().map(|p| *p as u32));
    t.extend([ad as u32, cd as u32, do_ as u32]);
    let (otext, fail) = match &obs {
        Ok(Some((oad, rc, n))) => {
            t.extend([*oad as u32, (*rc == 2) as u32, (*n == proofs.len()) as u32]);
            let mut fail = None;
            if *oad && (proofs.is_empty() || proofs.iter().any(|p| *p != 0)) {
                fail = Some(format!("AD set although the answer records have proofs {:?}", proofs));
            } else if !cd && proofs.contains(&2) && (*rc != 2 || *n != 0) {
                fail = Some(format!("Bogus answer with CD=0 but rcode {rc} and {n} answers returned"));
            } else if *rc == 2 && !(proofs.contains(&2) && !cd) {
                fail = Some("SERVFAIL without a Bogus record / with CD=1".to_string());
            } else if *rc != 2 && *n != proofs.len() {
                fail = Some(format!("{} answers returned of {}", n, proofs.len()));
            }
            (format!("ad={} rcode={} answers={}", oad, rc, n), fail)
        }
        Ok(None) => {
            t.extend([9, 9, 9]);
            ("no reply".to_string(), Some("no reply".to_string()))
        }
        Err(p) => {
            t.extend([9, 9, 9]);
            (format!("PANIC {p}"), Some(format!("server panicked: {p}")))
        }
    };
    let mut bytes: Vec<u8> = vec![];
    for x in &t {
        if *x < 255 {
            bytes.push(*x as u8);
        } else {
            bytes.push(255);
            bytes.extend(x.to_be_bytes());
        }
    }
    CaseOut {
        index,
        coq: format!("CaseP {}", coq_pb(&bytes)),
        text: format!("seed={seed} index={index} {text_in} => {otext}"),
        key: text_in,
        nontrivial: !proofs.is_empty(),
        kind: "server".to_string(),
        oracle_fail: fail,
        known: None,
    }
}

fn main() {
    quiet_panics();
    let args = parse_args();
    if let Some((seed, index)) = args.replay {
        let c = if index >= SRV_BASE { srv_case(seed, index) } else { case(seed, index) };
        println!("{}", c.text);
        println!("COQ {}", c.coq);
        if let Some(f) = c.oracle_fail {
            println!("ORACLE-FAIL {f}");
        }
        if let Some(k) = c.known {
            println!("KNOWN {k}");
        }
        return;
    }
    // fewer, larger shards: loading the Coq libraries dominates the cost of a shard
    if std::env::var("VPH_SHARD").is_err() {
        std::env::set_var("VPH_SHARD", if args.n <= 1200 { "100" } else { "400" });
    }
    let mut cases = vec![];
    for index in 0..args.n {
        cases.push(case(args.seed, index));
    }
    // server clause: all proof vectors of length <= 3 x flags in thorough, a slice of them + random in quick
    let n_srv = if args.tier == "thorough" { 8 * 85 + args.n / 8 } else { args.n / 4 };
    for i in 0..n_srv {
        let k = if args.tier == "thorough" { i } else if i % 2 == 0 { (i * 7 + args.seed) % (8 * 85) } else { 8 * 85 + i };
        cases.push(srv_case(args.seed, SRV_BASE + k));
    }
    emit(
        "C07",
        "C07",
        &args,
        &cases,
        "hierarchy (8 variants + 1 with a REVOKED trust anchor, of root/tld/{leaf signed, island unsigned, evil signed adversary-owned, unsup algorithm-16}; CSK / KSK+ZSK / 3 keys; Ed25519 / P-256; anchor at root or root+tld) x 12 top-level queries x {genuine, one random record-level fault, two faults, 9 targeted multi-record attack scripts} placed on any response the validator consults; real signatures; non-trivial = validator consulted at least two upstream responses; distinct by (hierarchy, query, faults). Server family: proofs of 0..5 answer records x AD/CD/DO through the real front door + Catalog + a mock external zone handler (all vectors of length <= 3 in thorough).",
        serde_json::json!({"hierarchies": N_HIER + N_SPECIAL_HIER}),
    );
}
