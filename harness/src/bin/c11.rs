//! C11 — drives the real server front door (`ServerContext::handle_request` through the
//! `VerifContext` hook) + the real `Catalog` over scripted stub zone handlers, without sockets.
//! Case = (catalog/ACL/NSID configuration, source address, request bytes, what the real body
//! parser says about the bytes after the question). Observation = the raw bytes of every reply
//! that arrived on the stream handle. The model predicts the replies byte for byte.

use std::net::{IpAddr, Ipv4Addr, Ipv6Addr, SocketAddr};
use std::sync::Arc;

use futures_util::StreamExt;
use hickory_net::xfer::Protocol;
use hickory_net::BufDnsStreamHandle;
use hickory_proto::op::{Header, Message, MessageRequest, Queries, ResponseCode, SerialMessage};
use hickory_proto::rr::rdata::opt::{EdnsCode, NSIDPayload};
use hickory_proto::rr::rdata::A;
use hickory_proto::rr::{LowerName, Name, RData, Record, RecordType, TSigResponseContext};
use hickory_proto::serialize::binary::{BinDecodable, BinDecoder};
use hickory_server::dnssec::NxProofKind;
use hickory_server::server::{Request, RequestInfo, VerifContext};
use hickory_server::zone_handler::{
    AuthLookup, AxfrPolicy, Catalog, LookupControlFlow, LookupError, LookupOptions, LookupRecords,
    Nsec3QueryInfo, ZoneHandler, ZoneTransfer, ZoneType,
};
use vph::*;

// ------------------------------------------------------------------------------------------
// configuration
// ------------------------------------------------------------------------------------------

/// result a stub hands back: Ok with k marker records, or an error class
/// (0 NameExists, 1 Refused, 2 NotAuth, 3 NXDomain, 4 ServFail)
#[derive(Clone, Copy, Debug, PartialEq)]
enum Res {
    Ok(u8),
    Err(u8),
}
#[derive(Clone, Copy, Debug, PartialEq)]
enum Flow {
    Skip,
    Cont(Res),
    Break(Res),
}

#[derive(Clone, Debug)]
struct HSpec {
    /// 0 Primary, 1 Secondary, 2 External
    ztype: u8,
    search: Flow,
    consult: Option<Flow>,
    /// `lookup(origin, NS|SOA)` issued by build_authoritative_response
    aux: Flow,
    /// 0 Ok(true), 1 Ok(false), else Err(rcode = value)
    update: u8,
    /// 0 None (not handled), 1 Refused, 2 NotAuth, 3 NXDomain, 4 NameExists
    xfer: u8,
}

#[derive(Clone, Debug)]
struct Zone {
    /// lower-case labels, leftmost first
    origin: Vec<Vec<u8>>,
    chain: Vec<HSpec>,
}

#[derive(Clone, Debug)]
struct Net {
    v6: bool,
    addr: u128,
    len: u8,
}

#[derive(Clone, Debug)]
struct Cfg {
    zones: Vec<Zone>,
    deny: Vec<Net>,
    allow: Vec<Net>,
    nsid: Option<Vec<u8>>,
}

#[derive(Clone, Debug)]
struct Src {
    v6: bool,
    addr: u128,
    tcp: bool,
}

fn err_of(e: u8) -> LookupError {
    match e {
        0 => LookupError::NameExists,
        1 => LookupError::ResponseCode(ResponseCode::Refused),
        2 => LookupError::ResponseCode(ResponseCode::NotAuth),
        3 => LookupError::ResponseCode(ResponseCode::NXDomain),
        _ => LookupError::ResponseCode(ResponseCode::ServFail),
    }
}

/// marker record: owner root (never compressed), A z.h.role.j
fn marker(z: u8, h: u8, role: u8, j: u8) -> Record {
    Record::from_rdata(Name::root(), 0, RData::A(A::new(z, h, role, j)))
}

struct Stub {
    origin: LowerName,
    z: u8,
    h: u8,
    spec: HSpec,
}

impl Stub {
    fn res(&self, r: Res, role: u8) -> Result<AuthLookup, LookupError> {
        match r {
            Res::Ok(k) => Ok(AuthLookup::answers(
                LookupRecords::Section((0..k).map(|j| marker(self.z, self.h, role, j)).collect()),
                None,
            )),
            Res::Err(e) => Err(err_of(e)),
        }
    }
    fn flow(&self, f: Flow, role: u8) -> LookupControlFlow<AuthLookup> {
        match f {
            Flow::Skip => LookupControlFlow::Skip,
            Flow::Cont(r) => LookupControlFlow::Continue(self.res(r, role)),
            Flow::Break(r) => LookupControlFlow::Break(self.res(r, role)),
        }
    }
}

#[async_trait::async_trait]
impl ZoneHandler for Stub {
    fn zone_type(&self) -> ZoneType {
        match self.spec.ztype {
            0 => ZoneType::Primary,
            1 => ZoneType::Secondary,
            _ => ZoneType::External,
        }
    }
    fn axfr_policy(&self) -> AxfrPolicy {
        AxfrPolicy::Deny
    }
    fn origin(&self) -> &LowerName {
        &self.origin
    }
    async fn update(&self, _update: &Request, _now: u64) -> (Result<bool, ResponseCode>, Option<TSigResponseContext>) {
        let r = match self.spec.update {
            0 => Ok(true),
            1 => Ok(false),
            c => Err(ResponseCode::from(0, c)),
        };
        (r, None)
    }
    async fn lookup(
        &self,
        _name: &LowerName,
        _rtype: RecordType,
        _request_info: Option<&RequestInfo<'_>>,
        _lookup_options: LookupOptions,
    ) -> LookupControlFlow<AuthLookup> {
        self.flow(self.spec.aux, 2)
    }
    async fn consult(
        &self,
        _name: &LowerName,
        _rtype: RecordType,
        _request_info: Option<&RequestInfo<'_>>,
        _lookup_options: LookupOptions,
        last_result: LookupControlFlow<AuthLookup>,
    ) -> (LookupControlFlow<AuthLookup>, Option<TSigResponseContext>) {
        match self.spec.consult {
            None => (last_result, None),
            Some(f) => (self.flow(f, 1), None),
        }
    }
    async fn search(
        &self,
        _request: &Request,
        _lookup_options: LookupOptions,
    ) -> (LookupControlFlow<AuthLookup>, Option<TSigResponseContext>) {
        (self.flow(self.spec.search, 0), None)
    }
    async fn nsec_records(&self, _name: &LowerName, _lookup_options: LookupOptions) -> LookupControlFlow<AuthLookup> {
        LookupControlFlow::Continue(Ok(AuthLookup::Empty))
    }
    async fn nsec3_records(&self, _info: Nsec3QueryInfo<'_>, _lookup_options: LookupOptions) -> LookupControlFlow<AuthLookup> {
        LookupControlFlow::Continue(Ok(AuthLookup::Empty))
    }
    async fn zone_transfer(
        &self,
        _request: &Request,
        _lookup_options: LookupOptions,
        _now: u64,
    ) -> Option<(Result<ZoneTransfer, LookupError>, Option<TSigResponseContext>)> {
        match self.spec.xfer {
            0 => None,
            1 => Some((Err(err_of(1)), None)),
            2 => Some((Err(err_of(2)), None)),
            3 => Some((Err(err_of(3)), None)),
            _ => Some((Err(err_of(0)), None)),
        }
    }
    fn nx_proof_kind(&self) -> Option<&NxProofKind> {
        None
    }
    fn metrics_label(&self) -> &'static str {
        "stub"
    }
}

fn name_of(labels: &[Vec<u8>]) -> Name {
    Name::from_labels(labels.iter().map(|l| l.as_slice())).unwrap()
}

fn net_str(n: &Net) -> String {
    if n.v6 {
        format!("{}/{}", Ipv6Addr::from(n.addr), n.len)
    } else {
        format!("{}/{}", Ipv4Addr::from(n.addr as u32), n.len)
    }
}

fn build(cfg: &Cfg) -> VerifContext<Catalog> {
    let mut catalog = Catalog::new();
    for (zi, z) in cfg.zones.iter().enumerate() {
        let origin = LowerName::from(name_of(&z.origin));
        let chain: Vec<Arc<dyn ZoneHandler>> = z
            .chain
            .iter()
            .enumerate()
            .map(|(hi, s)| {
                Arc::new(Stub { origin: origin.clone(), z: zi as u8, h: hi as u8, spec: s.clone() }) as Arc<dyn ZoneHandler>
            })
            .collect();
        catalog.upsert(origin, chain);
    }
    if let Some(n) = &cfg.nsid {
        catalog.set_nsid(Some(NSIDPayload::new(n.clone()).unwrap()));
    }
    let deny: Vec<_> = cfg.deny.iter().map(|n| net_str(n).parse().unwrap()).collect();
    let allow: Vec<_> = cfg.allow.iter().map(|n| net_str(n).parse().unwrap()).collect();
    VerifContext::new(catalog, deny, allow)
}

fn sock(src: &Src) -> SocketAddr {
    let ip = if src.v6 { IpAddr::V6(Ipv6Addr::from(src.addr)) } else { IpAddr::V4(Ipv4Addr::from(src.addr as u32)) };
    SocketAddr::new(ip, 5353)
}

/// one request through the real front door; all replies that arrived on the handle
fn drive(rt: &tokio::runtime::Runtime, ctx: &VerifContext<Catalog>, src: &Src, bytes: &[u8]) -> Vec<Vec<u8>> {
    let addr = sock(src);
    let (handle, rx) = BufDnsStreamHandle::new(addr);
    let proto = if src.tcp { Protocol::Tcp } else { Protocol::Udp };
    rt.block_on(async {
        ctx.handle_raw_request(SerialMessage::new(bytes.to_vec(), addr), proto, handle).await;
        // every clone of the handle is gone now: the receiver ends after the queued replies
        rx.map(|m| m.into_parts().0).collect::<Vec<_>>().await
    })
}

// ------------------------------------------------------------------------------------------
// what the real body parser says (input to the model: the record parser is C01's subject)
// ------------------------------------------------------------------------------------------

#[derive(Clone, Debug, PartialEq)]
enum Body {
    /// header/question did not parse (the model never asks for the body)
    NotReached,
    Err,
    Ok { edns: Option<(u8, u16, bool, bool)> }, // version, max_payload, DO, NSID option present
}

fn real_body(bytes: &[u8]) -> Body {
    let mut d = BinDecoder::new(bytes);
    let Ok(header) = Header::read(&mut d) else { return Body::NotReached };
    let Ok(q) = Queries::read(&mut d, header.counts.queries as usize) else { return Body::NotReached };
    match MessageRequest::read_with_queries(&mut d, q, header) {
        Err(_) => Body::Err,
        Ok(m) => Body::Ok {
            edns: m.edns.as_ref().map(|e| (e.version(), e.max_payload(), e.flags().dnssec_ok, e.option(EdnsCode::NSID).is_some())),
        },
    }
}

// ------------------------------------------------------------------------------------------
// independent reference pieces for the direct oracle (written from the statement, not from the code)
// ------------------------------------------------------------------------------------------

/// question section parsed by hand: Some((labels lower-cased, qtype, qclass, end offset, used pointer))
fn ref_question(b: &[u8]) -> Option<(Vec<Vec<u8>>, u16, u16, usize, bool)> {
    let mut labels: Vec<Vec<u8>> = vec![];
    let mut pos = 12usize; // read position
    let mut end: Option<usize> = None; // where the name ends in the main stream
    let mut limit = 12usize; // pointers must go strictly before the start of the current segment
    let mut bound: Option<usize> = None; // after a jump reading must stay before the previous segment
    let mut total = 1usize;
    let mut ptr = false;
    loop {
        if let Some(m) = bound {
            if pos >= m {
                return None;
            }
        }
        let c = *b.get(pos)? as usize;
        if c == 0 {
            if end.is_none() {
                end = Some(pos + 1);
            }
            break;
        } else if c & 0xC0 == 0xC0 {
            let lo = *b.get(pos + 1)? as usize;
            let target = ((c & 0x3F) << 8) | lo;
            if target >= limit {
                return None;
            }
            if end.is_none() {
                end = Some(pos + 2);
            }
            ptr = true;
            bound = Some(limit);
            limit = target;
            pos = target;
        } else if c & 0xC0 == 0 {
            let l = b.get(pos + 1..pos + 1 + c)?;
            total += c + 1;
            if total > 255 {
                return None;
            }
            labels.push(l.to_ascii_lowercase());
            pos += 1 + c;
        } else {
            return None;
        }
    }
    let e = end.unwrap();
    let t = b.get(e..e + 4)?;
    Some((labels, u16::from_be_bytes([t[0], t[1]]), u16::from_be_bytes([t[2], t[3]]), e + 4, ptr))
}

fn ref_matches(n: &Net, v6: bool, addr: u128) -> bool {
    if n.v6 != v6 {
        return false;
    }
    let w = if v6 { 128u32 } else { 32 };
    let sh = w - n.len as u32;
    if sh >= 128 {
        return true;
    }
    (n.addr >> sh) == (addr >> sh)
}

/// the documented rule: within the address family of the (canonicalised) source: no lists -> allow; a deny entry
/// matches -> allowed only if a strictly more specific allow entry matches; no deny entry matches -> allowed if
/// an allow entry matches, or there are deny entries, or there are no allow entries
fn ref_allowed(cfg: &Cfg, src: &Src) -> bool {
    let (v6, addr) = if src.v6 && (src.addr >> 32) == 0xffff { (false, src.addr & 0xffff_ffff) } else { (src.v6, src.addr) };
    let best = |l: &Vec<Net>| l.iter().filter(|n| ref_matches(n, v6, addr)).map(|n| n.len).max();
    let any = |l: &Vec<Net>| l.iter().any(|n| n.v6 == v6);
    match (best(&cfg.deny), best(&cfg.allow)) {
        (Some(d), Some(a)) => a > d,
        (Some(_), None) => false,
        (None, Some(_)) => true,
        (None, None) => any(&cfg.deny) || !any(&cfg.allow),
    }
}

/// index of the zone whose origin is the longest suffix of the name
fn ref_zone(cfg: &Cfg, qname: &[Vec<u8>]) -> Option<usize> {
    let mut best: Option<usize> = None;
    for (i, z) in cfg.zones.iter().enumerate() {
        let o = &z.origin;
        if o.len() <= qname.len() && qname[qname.len() - o.len()..] == o[..] {
            if best.map_or(true, |b| cfg.zones[b].origin.len() < o.len()) {
                best = Some(i);
            }
        }
    }
    best
}

/// skeleton walk over a reply: (rcode12, qdcount, question raw, records [(type, class, ttl, rdata)]) — every byte accounted for
#[allow(clippy::type_complexity)]
fn skeleton(r: &[u8], qlen: usize) -> Option<(u16, u16, Vec<u8>, Vec<(u16, u16, u32, Vec<u8>)>)> {
    if r.len() < 12 {
        return None;
    }
    let qd = u16::from_be_bytes([r[4], r[5]]);
    let n: usize = (6..12).step_by(2).map(|i| u16::from_be_bytes([r[i], r[i + 1]]) as usize).sum();
    let mut pos = 12;
    let q = if qd == 1 {
        let q = r.get(12..12 + qlen)?.to_vec();
        pos += qlen;
        q
    } else if qd == 0 {
        vec![]
    } else {
        return None;
    };
    let mut recs = vec![];
    for _ in 0..n {
        // owner name: labels / pointer
        loop {
            let c = *r.get(pos)? as usize;
            if c == 0 {
                pos += 1;
                break;
            } else if c & 0xC0 == 0xC0 {
                pos += 2;
                break;
            } else {
                pos += 1 + c;
            }
        }
        let f = r.get(pos..pos + 10)?;
        let ty = u16::from_be_bytes([f[0], f[1]]);
        let cl = u16::from_be_bytes([f[2], f[3]]);
        let ttl = u32::from_be_bytes([f[4], f[5], f[6], f[7]]);
        let rl = u16::from_be_bytes([f[8], f[9]]) as usize;
        let rd = r.get(pos + 10..pos + 10 + rl)?.to_vec();
        pos += 10 + rl;
        recs.push((ty, cl, ttl, rd));
    }
    if pos != r.len() {
        return None;
    }
    let mut rcode = (r[3] & 0x0f) as u16;
    for (ty, _, ttl, _) in &recs {
        if *ty == 41 {
            rcode |= ((ttl >> 24) as u16) << 4;
        }
    }
    Some((rcode, qd, q, recs))
}

/// The statement evaluated directly on what the implementation sent.
fn oracle(cfg: &Cfg, src: &Src, req: &[u8], body: &Body, replies: &[Vec<u8>], canary: &[Vec<u8>], canary_req: &[u8]) -> (Option<String>, Option<String>) {
    let fail = |s: String| (Some(s), None);
    let canary_ok = canary.len() == 1 && canary[0].len() >= 12 && canary[0][0..2] == canary_req[0..2] && canary[0][2] & 0x80 != 0;
    if req.len() < 12 || req[2] & 0x80 != 0 {
        if !replies.is_empty() {
            return fail(format!("{} replies to a {}", replies.len(), if req.len() < 12 { "runt" } else { "response message" }));
        }
        if !canary_ok {
            return fail(format!("the next query on the same context was not answered properly: {} replies", canary.len()));
        }
        return (None, None);
    }
    if replies.len() != 1 {
        return fail(format!("accepted request got {} replies", replies.len()));
    }
    // survival: the next (plain) query on the same context is answered once, with its id
    if !canary_ok {
        return fail(format!("the next query on the same context was not answered properly: {} replies", canary.len()));
    }
    let r = &replies[0];
    if r.len() < 12 {
        return fail("reply shorter than a header".into());
    }
    if r[0..2] != req[0..2] {
        return fail(format!("reply id {:02x}{:02x} != request id {:02x}{:02x}", r[0], r[1], req[0], req[1]));
    }
    if r[2] & 0x80 == 0 {
        return fail("reply without QR".into());
    }
    if r[2] & 0x78 != req[2] & 0x78 {
        return fail("reply opcode differs".into());
    }
    let opcode = (req[2] >> 3) & 0x0f;
    let qdcount = u16::from_be_bytes([req[4], req[5]]);
    let q = if qdcount == 1 { ref_question(req) } else { None };
    let qlen = q.as_ref().map_or(0, |q| q.3 - 12);
    let Some((rcode, rqd, rq, recs)) = skeleton(r, qlen) else {
        return fail("reply is not header + echoed question + whole records".into());
    };
    let markers: Vec<&Vec<u8>> = recs.iter().filter(|x| x.0 == 1).map(|x| &x.3).collect();
    let expect = |want: u16, with_q: bool, why: &str| -> (Option<String>, Option<String>) {
        if rcode != want {
            return (Some(format!("{why}: rcode {rcode} instead of {want}")), None);
        }
        if with_q && (rqd != 1 || rq[..] != req[12..12 + qlen]) {
            return (Some(format!("{why}: question not echoed byte for byte")), None);
        }
        if !with_q && rqd != 0 {
            return (Some(format!("{why}: unexpected question section")), None);
        }
        if !markers.is_empty() {
            return (Some(format!("{why}: error reply carries zone data")), None);
        }
        (None, None)
    };
    if ![0u8, 2, 4, 5].contains(&opcode) {
        return expect(4, false, "unsupported opcode");
    }
    let Some((qname, qtype, _qclass, _qend, used_ptr)) = q else {
        return expect(1, false, "question does not parse");
    };
    if !ref_allowed(cfg, src) {
        return expect(5, true, "source denied");
    }
    let edns = match body {
        Body::NotReached => return fail("reference question parser accepts what Queries::read rejects".into()),
        Body::Err => return expect(1, true, "body does not parse"),
        Body::Ok { edns } => *edns,
    };
    // the EDNS version read straight from the bytes, when the tail is a lone option-less OPT record
    if req[6..10] == [0, 0, 0, 0] && req[10..12] == [0, 1] {
        let t = &req[12 + qlen..];
        if t.len() >= 11 && t[0..3] == [0, 0, 41] && t[9..11] == [0, 0] {
            match edns {
                Some((v, _, d, _)) if v == t[6] && d == (t[7] & 0x80 != 0) => {}
                _ => return fail(format!("EDNS version/DO misread: bytes say version {} DO {}, parser says {:?}", t[6], t[7] & 0x80 != 0, edns)),
            }
        }
    }
    // from here on the question must be echoed raw, whatever the rcode
    if rqd != 1 || rq[..] != req[12..12 + qlen] {
        return fail("question not echoed byte for byte".into());
    }
    if let Some((v, _, _, _)) = edns {
        if v > 0 {
            return expect(16, true, "EDNS version > 0");
        }
    }
    if opcode == 2 || opcode == 4 {
        return expect(4, true, "STATUS/NOTIFY");
    }
    let zone = ref_zone(cfg, &qname);
    if opcode == 0 {
        match zone {
            None => {
                let e = expect(5, true, "no enclosing zone");
                if e.0.is_some() {
                    return e;
                }
            }
            Some(z) => {
                // whatever the chain answered, data must come from the longest-suffix zone only
                for m in &markers {
                    if m[0] as usize != z {
                        return fail(format!("answered from zone {} but the longest enclosing zone is {}", m[0], z));
                    }
                }
            }
        }
    } else if !markers.is_empty() {
        return fail("update reply carries records".into());
    }
    let _ = qtype;
    // the echoed question must also *mean* the same to the client
    let same = match Message::from_vec(r) {
        Ok(m) => {
            let mut d = BinDecoder::new(req);
            let _ = Header::read(&mut d);
            match Queries::read(&mut d, 1) {
                Ok(qs) => m.queries.len() == 1 && m.queries[0] == *qs.original(),
                Err(_) => false,
            }
        }
        Err(_) => false,
    };
    if !same {
        let k = if used_ptr { Some("C11-F9-question-pointer".to_string()) } else { None };
        return (Some("echoed question bytes decode to a different question (or not at all) in the reply".into()), k);
    }
    (None, None)
}

// ------------------------------------------------------------------------------------------
// generators
// ------------------------------------------------------------------------------------------

const ORIGINS: &[&[&str]] = &[
    &[],
    &["com"],
    &["example", "com"],
    &["a", "example", "com"],
    &["b", "a", "example", "com"],
    &["example", "org"],
    &["org"],
    &["test"],
    &["xn--e1afmkfd", "com"],
];
const LEFT: &[&str] = &["www", "a", "b", "x", "MiXeD", "example", "com", "_tcp", "0"];

fn gen_res(r: &mut Rng) -> Res {
    if r.chance(3, 5) {
        Res::Ok(r.below(3) as u8)
    } else {
        Res::Err(r.below(5) as u8)
    }
}
fn gen_flow(r: &mut Rng) -> Flow {
    match r.below(10) {
        0..=2 => Flow::Skip,
        3..=5 => Flow::Cont(gen_res(r)),
        _ => Flow::Break(gen_res(r)),
    }
}
fn gen_hspec(r: &mut Rng) -> HSpec {
    HSpec {
        ztype: *r.pick(&[0u8, 0, 0, 1, 2, 2]),
        search: gen_flow(r),
        consult: if r.chance(1, 2) { None } else { Some(gen_flow(r)) },
        aux: gen_flow(r),
        update: *r.pick(&[0u8, 0, 1, 2, 5, 6, 9, 10]),
        xfer: r.below(5) as u8,
    }
}

const V4_SRC: &[u32] = &[0x0a000001, 0x0a010203, 0x0a010204, 0xc0a80101, 0xc0a80201, 0x08080808, 0x7f000001];
const V6_SRC: &[u128] = &[
    0xfd00_0000_0000_0000_0000_0000_0000_0001,
    0xfd00_0000_0000_0000_0000_0000_0000_00ff,
    0xfd00_0000_0000_0000_0000_0000_0001_0001,
    0x2001_0db8_0000_0000_0000_0000_0000_0001,
    0x0000_0000_0000_0000_0000_0000_0a01_0203, // v4-compatible, NOT canonicalised
];
const V4_NETS: &[(u32, u8)] = &[
    (0x0a000000, 8),
    (0x0a010000, 16),
    (0x0a010200, 24),
    (0x0a010203, 32),
    (0xc0a80000, 16),
    (0xc0a80100, 24),
    (0x00000000, 0),
    (0x08080808, 32),
    (0x0a010203, 8), // host bits set
    (0x80000000, 1),
];
const V6_NETS: &[(u128, u8)] = &[
    (0xfd00_0000_0000_0000_0000_0000_0000_0000, 8),
    (0xfd00_0000_0000_0000_0000_0000_0000_0000, 120),
    (0xfd00_0000_0000_0000_0000_0000_0000_0001, 128),
    (0x2001_0db8_0000_0000_0000_0000_0000_0000, 32),
    (0, 0),
    (0x0000_0000_0000_0000_0000_ffff_0a00_0000, 104), // a v6 rule written for mapped addresses: never consulted
];

fn gen_net(r: &mut Rng) -> Net {
    if r.chance(2, 3) {
        let (a, l) = *r.pick(V4_NETS);
        Net { v6: false, addr: a as u128, len: l }
    } else {
        let (a, l) = *r.pick(V6_NETS);
        Net { v6: true, addr: a, len: l }
    }
}

fn gen_src(r: &mut Rng) -> Src {
    let tcp = r.chance(1, 2);
    match r.below(10) {
        0..=4 => Src { v6: false, addr: *r.pick(V4_SRC) as u128, tcp },
        5..=6 => Src { v6: true, addr: *r.pick(V6_SRC), tcp },
        7..=8 => Src { v6: true, addr: 0xffff_0000_0000u128 | *r.pick(V4_SRC) as u128, tcp }, // ::ffff:a.b.c.d
        _ => Src { v6: false, addr: r.next() as u32 as u128, tcp },
    }
}

fn gen_cfg(r: &mut Rng) -> Cfg {
    let nz = *r.pick(&[0usize, 1, 2, 2, 3, 3, 4, 5]);
    let mut zones: Vec<Zone> = vec![];
    for _ in 0..nz {
        let o: Vec<Vec<u8>> = r.pick(ORIGINS).iter().map(|s| s.as_bytes().to_vec()).collect();
        if zones.iter().any(|z| z.origin == o) {
            continue;
        }
        let n = *r.pick(&[0usize, 1, 1, 1, 2, 2, 3]);
        zones.push(Zone { origin: o, chain: (0..n).map(|_| gen_hspec(r)).collect() });
    }
    let (nd, na) = match r.below(12) {
        0..=6 => (0, 0),
        7 => (r.range(1, 2), 0),
        8 => (0, r.range(1, 2)),
        _ => (r.range(1, 3), r.range(1, 3)),
    };
    Cfg {
        zones,
        deny: (0..nd).map(|_| gen_net(r)).collect(),
        allow: (0..na).map(|_| gen_net(r)).collect(),
        nsid: if r.chance(1, 3) { let n = *r.pick(&[0usize, 1, 4, 9]); Some(r.bytes(n)) } else { None },
    }
}

fn flip_case(r: &mut Rng, l: &[u8]) -> Vec<u8> {
    l.iter().map(|c| if c.is_ascii_alphabetic() && r.chance(1, 3) { c ^ 0x20 } else { *c }).collect()
}

/// labels of a query name related to the configured zones
fn gen_qname(r: &mut Rng, cfg: &Cfg) -> Vec<Vec<u8>> {
    let base: Vec<Vec<u8>> = if !cfg.zones.is_empty() && r.chance(5, 6) {
        r.pick(&cfg.zones).origin.clone()
    } else {
        r.pick(ORIGINS).iter().map(|s| s.as_bytes().to_vec()).collect()
    };
    let mut name: Vec<Vec<u8>> = vec![];
    match r.below(8) {
        0 | 1 => {}
        2..=4 => name.push(r.pick(LEFT).as_bytes().to_vec()),
        5 => {
            name.push(r.pick(LEFT).as_bytes().to_vec());
            name.push(r.pick(LEFT).as_bytes().to_vec());
        }
        6 => {
            // drop the leftmost label of the base: a parent / sibling
            let mut b = base.clone();
            if !b.is_empty() {
                b.remove(0);
            }
            if r.chance(1, 2) {
                name.push(r.pick(LEFT).as_bytes().to_vec());
            }
            name.extend(b);
            return name.iter().map(|l| flip_case(r, l)).collect();
        }
        _ => {
            let n = r.range(1, 3);
            for _ in 0..n {
                let len = r.range(1, 6) as usize;
                name.push(r.bytes(len));
            }
        }
    }
    name.extend(base);
    name.iter().map(|l| flip_case(r, l)).collect()
}

fn wire_name(labels: &[Vec<u8>]) -> Vec<u8> {
    let mut v = vec![];
    for l in labels {
        v.push(l.len() as u8);
        v.extend_from_slice(l);
    }
    v.push(0);
    v
}

fn header(id: u16, b2: u8, b3: u8, qd: u16, an: u16, ns: u16, ar: u16) -> Vec<u8> {
    let mut v = id.to_be_bytes().to_vec();
    v.push(b2);
    v.push(b3);
    for c in [qd, an, ns, ar] {
        v.extend_from_slice(&c.to_be_bytes());
    }
    v
}

fn rr(owner: &[u8], ty: u16, class: u16, ttl: u32, rdata: &[u8]) -> Vec<u8> {
    let mut v = owner.to_vec();
    v.extend_from_slice(&ty.to_be_bytes());
    v.extend_from_slice(&class.to_be_bytes());
    v.extend_from_slice(&ttl.to_be_bytes());
    v.extend_from_slice(&(rdata.len() as u16).to_be_bytes());
    v.extend_from_slice(rdata);
    v
}

fn gen_opt(r: &mut Rng) -> Vec<u8> {
    let rv = r.next() as u8;
    let version = *r.pick(&[0u8, 0, 0, 0, 0, 1, 2, 255, rv]);
    let payload = *r.pick(&[0u16, 100, 512, 1232, 4096, 65535]);
    let flags: u16 = if r.chance(1, 2) { 0x8000 } else { 0 } | if r.chance(1, 8) { r.next() as u16 & 0x7fff } else { 0 };
    let ext = if r.chance(1, 8) { r.next() as u8 } else { 0 };
    let ttl = (ext as u32) << 24 | (version as u32) << 16 | flags as u32;
    let mut opts = vec![];
    match r.below(14) {
        6 => opts.extend_from_slice(&[0, 3]),                       // code only
        7 => opts.extend_from_slice(&[0, 3, 0]),                    // half a length
        8 => opts.extend_from_slice(&[0, 3, 0, 9, 1, 2]),           // data runs out (length <= rdlength? no: 9 > 6)
        9 => opts.extend_from_slice(&[0, 3, 0, 0, 0, 10, 0, 5, 1, 2, 3]), // second option runs out, length within rdlength
        10 => opts.extend_from_slice(&[0, 8, 0, 7, 0, 1, 24, 0, 192, 0, 2]), // client subnet 192.0.2.0/24
        11 => opts.extend_from_slice(&[0, 8, 0, 2, 9, 9]),          // malformed client subnet
        12 => opts.extend_from_slice(&[0, 5, 0, 2, 8, 13, 0, 3, 0, 1, 0x61, 0]), // DAU, NSID, stray byte
        13 => opts.extend_from_slice(&[0, 3, 0, 0, 0, 3, 0, 0]),    // NSID twice
        0 | 1 => {}
        2 => opts.extend_from_slice(&[0, 3, 0, 0]), // NSID, empty
        3 => opts.extend_from_slice(&[0, 3, 0, 2, 0xab, 0xcd]), // NSID with payload (to be ignored)
        4 => opts.extend_from_slice(&[0, 10, 0, 8, 1, 2, 3, 4, 5, 6, 7, 8]), // cookie
        _ => {
            opts.extend_from_slice(&[0, 3, 0, 0]);
            opts.extend_from_slice(&[0xff, 0xee, 0, 1, 7]);
        }
    }
    let mut v = rr(&[0], 41, payload, ttl, &opts);
    if r.chance(1, 30) {
        // RDLENGTH beyond the message
        let n = v.len();
        v[n - opts.len() - 1] = v[n - opts.len() - 1].wrapping_add(1 + r.below(3) as u8);
    }
    v
}

/// a syntactically plausible record of a type whose RDATA has structure, RDATA filled at random
fn gen_hostile_rr(r: &mut Rng, owner: &[u8]) -> Vec<u8> {
    let ty = *r.pick(&[1u16, 2, 5, 6, 12, 15, 16, 24, 28, 33, 35, 41, 43, 46, 47, 48, 50, 64, 65, 249, 250, 257, 65280]);
    let class = *r.pick(&[1u16, 1, 254, 255, 4096]);
    let len = match r.below(4) {
        0 => 0,
        1 => r.range(1, 6) as usize,
        2 => r.range(7, 40) as usize,
        _ => r.range(41, 200) as usize,
    };
    let mut rd = r.bytes(len);
    if r.chance(1, 3) && rd.len() >= 2 {
        rd[0] = 0xc0; // a compression pointer somewhere plausible
        rd[1] = 0x0c;
    }
    let own: Vec<u8> = if ty == 41 && r.chance(2, 3) { vec![0] } else { owner.to_vec() };
    rr(&own, ty, class, r.next() as u32, &rd)
}

const QTYPES: &[u16] = &[1, 1, 1, 28, 6, 6, 2, 252, 255, 16, 41, 250, 0, 65535];

/// a well-formed request; returns bytes
fn gen_valid(r: &mut Rng, cfg: &Cfg, opcode: u8) -> Vec<u8> {
    let id = r.next() as u16;
    let mut b2 = (opcode & 0x0f) << 3;
    if r.chance(1, 2) {
        b2 |= 1; // RD
    }
    if r.chance(1, 10) {
        b2 |= 4; // AA in a query
    }
    if r.chance(1, 10) {
        b2 |= 2; // TC
    }
    let mut b3 = 0u8;
    if r.chance(1, 4) {
        b3 |= 0x10; // CD
    }
    if r.chance(1, 6) {
        b3 |= 0x20; // AD
    }
    if r.chance(1, 8) {
        b3 |= 0x40; // Z
    }
    if r.chance(1, 8) {
        b3 |= 0x80; // RA
    }
    if r.chance(1, 10) {
        b3 |= r.next() as u8 & 0x0f; // rcode in a query
    }
    let qname = gen_qname(r, cfg);
    let qtype = if opcode == 5 { *r.pick(&[6u16, 6, 6, 6, 1]) } else { *r.pick(QTYPES) };
    let qclass = *r.pick(&[1u16, 1, 1, 1, 3, 255, 254, 0]);
    let mut body = wire_name(&qname);
    body.extend_from_slice(&qtype.to_be_bytes());
    body.extend_from_slice(&qclass.to_be_bytes());
    let (mut an, mut ns, mut ar) = (0u16, 0u16, 0u16);
    let owner = if r.chance(1, 2) { vec![0xc0, 0x0c] } else { wire_name(&qname) };
    if opcode == 5 {
        // prerequisite / update sections
        if r.chance(1, 3) {
            body.extend(rr(&owner, 1, 255, 0, &[])); // "name is in use"-style empty rdata
            an += 1;
        }
        let n = r.below(3);
        for _ in 0..n {
            if r.chance(1, 2) {
                body.extend(rr(&owner, 1, 1, 300, &[10, 0, 0, 1]));
            } else {
                body.extend(rr(&owner, 1, 254, 0, &[]));
            }
            ns += 1;
        }
    } else if r.chance(1, 8) {
        body.extend(rr(&owner, 1, 1, 60, &[192, 0, 2, 1]));
        an += 1;
    }
    if r.chance(1, 10) {
        body.extend(rr(&owner, 16, 1, 60, &[3, b'a', b'b', b'c']));
        ar += 1;
    }
    if r.chance(1, 2) {
        body.extend(gen_opt(r));
        ar += 1;
        if r.chance(1, 25) {
            body.extend(gen_opt(r)); // duplicate OPT -> FORMERR
            ar += 1;
        }
    }
    let mut v = header(id, b2, b3, 1, an, ns, ar);
    v.extend(body);
    v
}

fn gen_request(r: &mut Rng, cfg: &Cfg) -> (Vec<u8>, &'static str) {
    match r.below(100) {
        0..=39 => (gen_valid(r, cfg, 0), "query"),
        40..=51 => (gen_valid(r, cfg, 5), "update"),
        52..=59 => {
            let op = r.below(16) as u8;
            (gen_valid(r, cfg, op), "opcode-sweep")
        }
        60..=63 => {
            let op = *r.pick(&[0u8, 5, 7]);
            let mut v = gen_valid(r, cfg, op);
            v[2] |= 0x80;
            (v, "qr1")
        }
        64..=66 => {
            let n = r.below(12) as usize;
            let mut v = gen_valid(r, cfg, 0);
            v.truncate(n);
            (v, "runt")
        }
        67..=71 => {
            // QDCOUNT != 1
            let op = *r.pick(&[0u8, 0, 5]);
            let mut v = gen_valid(r, cfg, op);
            let qd = *r.pick(&[0u16, 0, 2, 2, 3, 256, 65535]);
            v[4..6].copy_from_slice(&qd.to_be_bytes());
            if qd == 2 && r.chance(1, 2) {
                // really two questions
                let q = v[12..].to_vec();
                v.truncate(12);
                v.extend_from_slice(&q);
                v.extend_from_slice(&[0, 0, 1, 0, 1]);
            }
            (v, "qdcount")
        }
        72..=79 => {
            // question names with compression pointers / reserved label codes / overlong names
            let id = r.next() as u16;
            let b2 = if r.chance(1, 2) { 1 } else { 0 };
            let mut v = header(id, b2, 0, 1, 0, 0, 0);
            match r.below(8) {
                0 => {
                    // pointer to offset 0: the id bytes are read as a label: id = len 1 + char, byte 2 ends the name if 0
                    v[0] = 1;
                    v[1] = b'a' + r.below(26) as u8;
                    v.extend_from_slice(&[0xc0, 0x00]);
                }
                1 => {
                    let t = r.below(12) as u8;
                    v.extend_from_slice(&[0xc0, t]);
                }
                2 => {
                    // label then pointer into the header counts (offset 6..11 are zero: root)
                    v.extend_from_slice(&[3, b'w', b'w', b'w', 0xc0, 6 + r.below(6) as u8]);
                }
                3 => {
                    let t = r.range(12, 40) as u8; // forward / self pointer: rejected
                    v.extend_from_slice(&[0xc0, t]);
                }
                4 => {
                    v.extend_from_slice(&[*r.pick(&[0x40u8, 0x80, 0xbf, 0x7f]), b'a', 0]);
                }
                5 => {
                    // 4 labels of 63 = 257 > 255
                    for _ in 0..4 {
                        v.push(63);
                        v.extend(std::iter::repeat(b'a').take(63));
                    }
                    v.push(0);
                }
                6 => {
                    // the longest legal name: 3*64 + 62 + 1 = 255
                    for _ in 0..3 {
                        v.push(63);
                        v.extend(std::iter::repeat(b'b').take(63));
                    }
                    v.push(61);
                    v.extend(std::iter::repeat(b'c').take(61));
                    v.push(0);
                }
                _ => {
                    // label running past the end
                    v.extend_from_slice(&[9, b'a', b'b']);
                    return (v, "qname-odd");
                }
            }
            if r.chance(7, 8) {
                v.extend_from_slice(&[0, *r.pick(&[1u8, 6, 252]), 0, 1]);
            } else {
                v.extend_from_slice(&[0, 1]);
            }
            (v, "qname-odd")
        }
        80..=91 => {
            let op = *r.pick(&[0u8, 0, 0, 5]);
            let mut v = gen_valid(r, cfg, op);
            match r.below(5) {
                0 => {
                    let n = r.range(1, 3);
                    for _ in 0..n {
                        let i = r.below(v.len() as u64) as usize;
                        v[i] ^= 1 << r.below(8);
                    }
                }
                1 => {
                    let n = r.range(12, v.len() as u64) as usize;
                    v.truncate(n);
                }
                2 => {
                    let n = r.range(1, 6) as usize;
                    v.extend(r.bytes(n));
                }
                3 => {
                    let i = 6 + 2 * r.below(3) as usize;
                    v[i + 1] = v[i + 1].wrapping_add(1);
                }
                _ => {
                    let i = r.range(12, v.len() as u64 - 1) as usize;
                    v[i] = r.next() as u8;
                }
            }
            (v, "mutated")
        }
        92..=95 => {
            // valid header + question, then records with random RDATA in every section
            let op = *r.pick(&[0u8, 0, 5]);
            let id = r.next() as u16;
            let qname = gen_qname(r, cfg);
            let mut body = wire_name(&qname);
            body.extend_from_slice(&(if op == 5 { 6u16 } else { *r.pick(QTYPES) }).to_be_bytes());
            body.extend_from_slice(&[0, 1]);
            let mut counts = [0u16; 3];
            let n = r.range(1, 5);
            for _ in 0..n {
                let sec = *r.pick(&[0usize, 1, 2, 2]);
                let owner = if r.chance(1, 2) { vec![0xc0, 0x0c] } else { wire_name(&qname) };
                body.extend(gen_hostile_rr(r, &owner));
                counts[sec] += 1;
            }
            let mut v = header(id, op << 3 | 1, 0, 1, counts[0], counts[1], counts[2]);
            v.extend(body);
            (v, "hostile-body")
        }
        _ => {
            let n = r.range(12, 60) as usize;
            let mut v = r.bytes(n);
            if r.chance(2, 3) {
                v[2] &= 0x7f;
            }
            if r.chance(1, 2) {
                v[4] = 0;
                v[5] = 1;
            }
            (v, "random")
        }
    }
}

// ------------------------------------------------------------------------------------------
// Coq rendering
// ------------------------------------------------------------------------------------------

fn coq_res(x: Res) -> String {
    match x {
        Res::Ok(k) => format!("(ROk {k})"),
        Res::Err(e) => format!("(RErr {e})"),
    }
}
fn coq_flow(f: Flow) -> String {
    match f {
        Flow::Skip => "FSkip".into(),
        Flow::Cont(x) => format!("(FCont {})", coq_res(x)),
        Flow::Break(x) => format!("(FBreak {})", coq_res(x)),
    }
}
fn coq_hspec(h: &HSpec) -> String {
    format!(
        "(HS {} {} {} {} {} {})",
        h.ztype,
        coq_flow(h.search),
        match h.consult {
            None => "None".to_string(),
            Some(f) => format!("(Some {})", coq_flow(f)),
        },
        coq_flow(h.aux),
        h.update,
        h.xfer
    )
}
fn coq_net(n: &Net) -> String {
    format!("(NetH {} {} {})", if n.v6 { "true" } else { "false" }, n.addr, n.len)
}
fn coq_cfg(c: &Cfg) -> String {
    format!(
        "(CfgH {} {} {} {})",
        coq_list(c.zones.iter().map(|z| format!("({}, {})", coq_list(z.origin.iter().map(|l| coq_pb(l))), coq_list(z.chain.iter().map(coq_hspec))))),
        coq_list(c.deny.iter().map(coq_net)),
        coq_list(c.allow.iter().map(coq_net)),
        match &c.nsid {
            None => "None".to_string(),
            Some(n) => format!("(Some {})", coq_pb(n)),
        }
    )
}
fn coq_body(b: &Body) -> String {
    match b {
        Body::NotReached => "BNone".into(),
        Body::Err => "BErr".into(),
        Body::Ok { edns: None } => "(BOk None)".into(),
        Body::Ok { edns: Some((v, p, d, n)) } => format!("(BOk (Some (EdnsIn {v} {p} {d} {n})))"),
    }
}

fn case(seed: u64, index: u64) -> CaseOut {
    // the library streams for neighbouring indices are shifted copies of each other: re-key through the output mixer
    let mut r0 = Rng::for_case(seed, index);
    let mut r = Rng::new(r0.next() ^ r0.next().rotate_left(23));
    let cfg = gen_cfg(&mut r);
    let src = gen_src(&mut r);
    let (req, kind) = gen_request(&mut r, &cfg);
    run_case(index, &cfg, &src, &req, kind)
}

fn run_case(index: u64, cfg: &Cfg, src: &Src, req: &[u8], kind: &str) -> CaseOut {
    let body = real_body(req);
    // canary: plain query for "canary.test." from a source in no list's family... the ACL applies to it too, so it
    // is sent through a second context without ACL but sharing nothing; survival of *this* context is tested by
    // sending the canary through the same context from the same source and requiring a well-formed reply.
    let canary_req = {
        let mut v = header(0xCA4E, 0, 0, 1, 0, 0, 0);
        v.extend(wire_name(&[b"canary".to_vec(), b"test".to_vec()]));
        v.extend_from_slice(&[0, 1, 0, 1]);
        v
    };
    let cfg2 = cfg.clone();
    let src2 = src.clone();
    let req2 = req.to_vec();
    let canary2 = canary_req.clone();
    let out = guard(move || {
        let rt = tokio::runtime::Builder::new_current_thread().enable_time().build().unwrap();
        let ctx = build(&cfg2);
        let replies = drive(&rt, &ctx, &src2, &req2);
        let canary = drive(&rt, &ctx, &src2, &canary2);
        (replies, canary)
    });
    let text_in = format!(
        "kind={kind} src={}{} req={} cfg={:?}",
        sock(src).ip(),
        if src.tcp { "/tcp" } else { "/udp" },
        hex(req),
        cfg
    );
    let (replies, oracle_fail, known) = match out {
        Err(p) => (vec![], Some(format!("handler panicked: {p}")), None),
        Ok((replies, canary)) => {
            let (f, k) = oracle(cfg, src, req, &body, &replies, &canary, &canary_req);
            (replies, f, k)
        }
    };
    let coq = format!(
        "(CReq {} (SrcH {} {}) {} {} {})",
        coq_cfg(cfg),
        if src.v6 { "true" } else { "false" },
        src.addr,
        coq_pb(req),
        coq_body(&body),
        coq_list(replies.iter().map(|x| coq_pb(x)))
    );
    let text = format!("{text_in} body={:?} replies=[{}]", body, replies.iter().map(|x| hex(x)).collect::<Vec<_>>().join(","));
    CaseOut {
        index,
        coq,
        text,
        key: text_in,
        nontrivial: req.len() >= 12,
        kind: format!("{kind}/{}", reply_class(&replies)),
        oracle_fail,
        known,
    }
}

fn reply_class(replies: &[Vec<u8>]) -> String {
    match replies {
        [] => "none".into(),
        [r] if r.len() >= 12 => {
            let an = u16::from_be_bytes([r[6], r[7]]);
            format!("rcode{}{}", r[3] & 0x0f, if an > 0 { "+data" } else { "" })
        }
        _ => format!("{}replies", replies.len()),
    }
}

fn main() {
    quiet_panics();
    let args = parse_args();
    if let Some((seed, index)) = args.replay {
        let c = case(seed, index);
        println!("{}", c.text);
        println!("COQ {}", c.coq);
        if let Some(f) = c.oracle_fail {
            println!("ORACLE-FAIL {f}");
        }
        return;
    }
    if std::env::var("VPH_SHARD").is_err() {
        // small shards: the model evaluation runs 16 coqc in parallel
        std::env::set_var("VPH_SHARD", if args.n > 8000 { "1000" } else { "200" });
    }
    let mut cases = vec![];
    for index in 0..args.n {
        cases.push(case(args.seed, index));
    }
    emit(
        "C11",
        "C11",
        &args,
        &cases,
        "case = (catalog of 0..5 zones from nested/sibling/root origins, each a chain of 0..3 scripted zone handlers (type, search Skip/Continue/Break x Ok/err class, consult override, auxiliary NS/SOA lookup, update result, AXFR result); deny/allow network lists v4+v6; NSID on/off; source v4/v6/v4-mapped, UDP/TCP; request bytes from 9 families: valid query, update, every opcode, QR=1, runt, QDCOUNT!=1, odd question names (pointers into the header, reserved label codes, 255/257-octet names), mutated-valid, random). Non-trivial = request of at least 12 bytes; distinct by (configuration, source, request).",
        serde_json::json!({}),
    );
}
