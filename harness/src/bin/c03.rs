//! C03 — size-limited encoding. Case = (message, limit). The real `Message::emit` with
//! `BinEncoder::set_max_size(limit)` is compared with the Gallina encoder model byte for byte, and
//! the property (len <= limit, decodes with nothing left over, sections are prefixes, TC iff
//! dropped) is evaluated directly on the implementation's output.

use std::str::FromStr;

use hickory_proto::op::{Edns, Header, Message, MessageType, OpCode, Query, ResponseCode};
use hickory_proto::rr::rdata::tsig::TsigAlgorithm;
use hickory_proto::rr::rdata::{A, AAAA, CNAME, MX, NS, NULL, PTR, SOA, SRV, TSIG, TXT};
use hickory_proto::rr::{DNSClass, Name, RData, Record, RecordType};
use hickory_proto::serialize::binary::{BinDecodable, BinDecoder, BinEncodable, BinEncoder};
use hickory_proto::ProtoError;
use vph::*;

mod srv {
    //! server clause: replies of the real request front door (VerifContext hook) + Catalog +
    //! in-memory zone with large RRsets, for every protocol / advertised payload
    use std::net::SocketAddr;
    use std::sync::Arc;

    use futures_util::StreamExt;
    use hickory_net::xfer::Protocol;
    use hickory_net::BufDnsStreamHandle;
    use hickory_proto::op::{Edns, Message, MessageType, OpCode, Query, SerialMessage};
    use hickory_proto::rr::rdata::{A, NS, SOA, TXT};
    use hickory_proto::rr::{Name, RData, Record, RecordType};
    use hickory_server::dnssec::NxProofKind;
    use hickory_server::server::VerifContext;
    use hickory_server::store::in_memory::InMemoryZoneHandler;
    use hickory_server::zone_handler::{AxfrPolicy, Catalog, ZoneType};

    pub const SIZES: &[usize] = &[1, 5, 20, 27, 28, 29, 60, 120, 400, 1200];

    pub fn catalog() -> Catalog {
        let origin = Name::parse("big.test.", None).unwrap();
        let mut z = InMemoryZoneHandler::<hickory_net::runtime::TokioRuntimeProvider>::empty(origin.clone(), ZoneType::Primary, AxfrPolicy::Deny, None::<NxProofKind>);
        z.upsert_mut(
            Record::from_rdata(
                origin.clone(),
                3600,
                RData::SOA(SOA::new(Name::parse("ns.big.test.", None).unwrap(), Name::parse("admin.big.test.", None).unwrap(), 1, 7200, 3600, 1209600, 3600)),
            ),
            0,
        );
        z.upsert_mut(Record::from_rdata(origin.clone(), 3600, RData::NS(NS(Name::parse("ns.big.test.", None).unwrap()))), 0);
        for &n in SIZES {
            let name = Name::parse(&format!("a{n}.big.test."), None).unwrap();
            for i in 0..n {
                z.upsert_mut(Record::from_rdata(name.clone(), 300, RData::A(A::new(10, (i >> 16) as u8, (i >> 8) as u8, i as u8))), 0);
            }
            let tname = Name::parse(&format!("t{n}.big.test."), None).unwrap();
            for i in 0..n.min(300) {
                z.upsert_mut(Record::from_rdata(tname.clone(), 300, RData::TXT(TXT::new(vec![format!("text record number {i} padding padding padding")]))), 0);
            }
        }
        let mut c = Catalog::new();
        c.upsert(origin.into(), vec![Arc::new(z)]);
        c
    }

    /// returns the reply bytes (None = no reply)
    pub fn ask(ctx: &VerifContext<Catalog>, rt: &tokio::runtime::Runtime, name: &str, rtype: RecordType, adv: Option<u16>, tcp: bool, id: u16) -> Option<Vec<u8>> {
        let mut m = Message::new(id, MessageType::Query, OpCode::Query);
        m.add_query(Query::new(Name::parse(name, None).unwrap(), rtype));
        if let Some(p) = adv {
            let mut e = Edns::new();
            e.set_max_payload(p);
            e.set_version(0);
            m.set_edns(e);
        }
        let bytes = m.to_vec().unwrap();
        let src: SocketAddr = "192.0.2.7:5300".parse().unwrap();
        let (handle, mut rx) = BufDnsStreamHandle::new(src);
        rt.block_on(async {
            ctx.handle_raw_request(SerialMessage::new(bytes, src), if tcp { Protocol::Tcp } else { Protocol::Udp }, handle).await;
        });
        rt.block_on(async { rx.next().await }).map(|sm| sm.into_parts().0)
    }
}

const LABELS: &[&str] = &["a", "b", "www", "example", "ExAmple", "com", "COM", "net", "x1", "mail", "ns1", "_tcp", "long-label-0123456789"];

#[derive(Clone, Debug)]
struct GName(Vec<Vec<u8>>);

impl GName {
    fn to_name(&self) -> Name {
        let mut n = Name::from_labels(self.0.iter().map(|l| l.as_slice())).unwrap();
        n.set_fqdn(true);
        n
    }
    fn coq(&self) -> String {
        coq_list(self.0.iter().map(|l| format!("unpack {}", coq_pb(l))))
    }
    fn text(&self) -> String {
        if self.0.is_empty() {
            ".".into()
        } else {
            self.0.iter().map(|l| String::from_utf8_lossy(l).to_string()).collect::<Vec<_>>().join(".")
        }
    }
}

fn gen_name(r: &mut Rng) -> GName {
    // share suffixes often
    let suffixes: [&[&str]; 5] = [&["example", "com"], &["ExAmple", "COM"], &["example", "net"], &["com"], &[]];
    let mut ls: Vec<Vec<u8>> = vec![];
    let pre = r.below(4);
    for _ in 0..pre {
        if r.chance(1, 12) {
            // arbitrary bytes label
            let n = r.range(1, 6) as usize;
            ls.push(r.bytes(n));
        } else {
            ls.push(r.pick(LABELS).as_bytes().to_vec());
        }
    }
    for l in *r.pick(&suffixes) {
        ls.push(l.as_bytes().to_vec());
    }
    GName(ls)
}

#[derive(Clone, Debug)]
enum GPart {
    Bytes(Vec<u8>),
    Name(bool, GName), // compressed?
}

#[derive(Clone, Debug)]
struct GRec {
    name: GName,
    rtype: u16,
    class: u16,
    ttl: u32,
    parts: Vec<GPart>,
    rec: Record,
}

fn gen_rec(r: &mut Rng) -> GRec {
    let name = gen_name(r);
    let ttl = *r.pick(&[0u32, 1, 300, 86400, u32::MAX]);
    let (rdata, parts): (RData, Vec<GPart>) = match r.below(10) {
        0 => {
            let b = r.bytes(4);
            (RData::A(A::new(b[0], b[1], b[2], b[3])), vec![GPart::Bytes(b)])
        }
        1 => {
            let b = r.bytes(16);
            let mut a = [0u8; 16];
            a.copy_from_slice(&b);
            (RData::AAAA(AAAA(std::net::Ipv6Addr::from(a))), vec![GPart::Bytes(b)])
        }
        2 => {
            let k = r.range(1, 3);
            let strs: Vec<Vec<u8>> = (0..k).map(|_| { let n = r.range(0, 40) as usize; r.bytes(n) }).collect();
            let mut bytes = vec![];
            for s in &strs {
                bytes.push(s.len() as u8);
                bytes.extend_from_slice(s);
            }
            (RData::TXT(TXT::from_bytes(strs.iter().map(|s| s.as_slice()).collect())), vec![GPart::Bytes(bytes)])
        }
        3 => {
            let n = gen_name(r);
            (RData::NS(NS(n.to_name())), vec![GPart::Name(true, n)])
        }
        4 => {
            let n = gen_name(r);
            (RData::CNAME(CNAME(n.to_name())), vec![GPart::Name(true, n)])
        }
        5 => {
            let n = gen_name(r);
            (RData::PTR(PTR(n.to_name())), vec![GPart::Name(true, n)])
        }
        6 => {
            let n = gen_name(r);
            let p = r.below(65536) as u16;
            (RData::MX(MX::new(p, n.to_name())), vec![GPart::Bytes(p.to_be_bytes().to_vec()), GPart::Name(true, n)])
        }
        7 => {
            let m = gen_name(r);
            let rn = gen_name(r);
            let v: Vec<u32> = (0..5).map(|_| r.next() as u32).collect();
            let mut b = vec![];
            for x in &v {
                b.extend_from_slice(&x.to_be_bytes());
            }
            (
                RData::SOA(SOA::new(m.to_name(), rn.to_name(), v[0], v[1] as i32, v[2] as i32, v[3] as i32, v[4])),
                vec![GPart::Name(true, m), GPart::Name(true, rn), GPart::Bytes(b)],
            )
        }
        8 => {
            let t = gen_name(r);
            let (p, w, port) = (r.below(65536) as u16, r.below(65536) as u16, r.below(65536) as u16);
            let mut b = vec![];
            b.extend_from_slice(&p.to_be_bytes());
            b.extend_from_slice(&w.to_be_bytes());
            b.extend_from_slice(&port.to_be_bytes());
            (RData::SRV(SRV::new(p, w, port, t.to_name())), vec![GPart::Bytes(b), GPart::Name(false, t)])
        }
        _ => {
            let n = r.range(1, 60) as usize;
            let b = r.bytes(n);
            (RData::NULL(NULL::with(b.clone())), vec![GPart::Bytes(b)])
        }
    };
    let mut rec = Record::from_rdata(name.to_name(), ttl, rdata);
    let class = if r.chance(1, 8) { DNSClass::CH } else { DNSClass::IN };
    rec.dns_class = class;
    GRec { name, rtype: u16::from(rec.record_type()), class: u16::from(class), ttl, parts, rec }
}

struct GMsg {
    msg: Message,
    id: u16,
    flags1: u8,
    tc: bool,
    flags2: u8,
    queries: Vec<(GName, u16, u16)>,
    answers: Vec<GRec>,
    auth: Vec<GRec>,
    add: Vec<GRec>,
    edns: Option<GRec>,
    sig: Option<GRec>,
}

fn gen_msg(r: &mut Rng, big: bool, huge: bool) -> GMsg {
    let id = r.below(65536) as u16;
    let mut msg = Message::new(id, if r.chance(3, 4) { MessageType::Response } else { MessageType::Query }, OpCode::Query);
    let rcode = *r.pick(&[ResponseCode::NoError, ResponseCode::NXDomain, ResponseCode::ServFail, ResponseCode::BADVERS, ResponseCode::BADCOOKIE]);
    msg.metadata.response_code = rcode;
    msg.metadata.authoritative = r.chance(1, 2);
    msg.metadata.recursion_desired = r.chance(1, 2);
    msg.metadata.recursion_available = r.chance(1, 2);
    msg.metadata.authentic_data = r.chance(1, 4);
    msg.metadata.checking_disabled = r.chance(1, 4);
    let tc = r.chance(1, 10);
    msg.metadata.truncation = tc;
    let nq = *r.pick(&[0usize, 1, 1, 1, 2]);
    let mut queries = vec![];
    for _ in 0..nq {
        let n = gen_name(r);
        let t = *r.pick(&[RecordType::A, RecordType::AAAA, RecordType::MX, RecordType::ANY, RecordType::TXT]);
        msg.add_query(Query::new(n.to_name(), t));
        queries.push((n, u16::from(t), 1u16));
    }
    let scale = if big { 12 } else { 4 };
    let sect = |r: &mut Rng, maxn: u64| -> Vec<GRec> { let k = r.below(maxn + 1); (0..k).map(|_| gen_rec(r)).collect() };
    let mut answers = sect(r, scale);
    if huge {
        // padding record that pushes the following names across offset 0x3FFF (the 14-bit pointer
        // range), then names that repeat on both sides of it
        let pad = r.range(16150, 16420) as usize;
        let b = r.bytes(pad);
        let name = gen_name(r);
        let rec = Record::from_rdata(name.to_name(), 60, RData::NULL(NULL::with(b.clone())));
        answers.insert(answers.len().min(1), GRec { name, rtype: 10, class: 1, ttl: 60, parts: vec![GPart::Bytes(b)], rec });
        let rep = gen_name(r);
        for _ in 0..3 {
            let mut g = gen_rec(r);
            if r.chance(2, 3) {
                g.rec.name = rep.to_name();
                g.name = rep.clone();
            }
            answers.push(g);
        }
    }
    let auth = sect(r, scale / 2);
    let add = sect(r, scale / 2);
    for g in &answers {
        msg.add_answer(g.rec.clone());
    }
    for g in &auth {
        msg.add_authority(g.rec.clone());
    }
    for g in &add {
        msg.add_additional(g.rec.clone());
    }
    let mut edns_rec = None;
    if r.chance(1, 2) {
        let mut e = Edns::new();
        e.set_max_payload(*r.pick(&[512u16, 1232, 4096, 0]));
        e.set_version(0);
        if r.chance(1, 2) {
            e.set_dnssec_ok(true);
        }
        if r.chance(1, 3) {
            use hickory_proto::rr::rdata::opt::{EdnsCode, EdnsOption};
            let n = r.range(0, 12) as usize;
            e.options_mut().insert(EdnsOption::Unknown(u16::from(EdnsCode::Cookie) + 100, r.bytes(n)));
        }
        msg.set_edns(e.clone());
        // what emit_message_parts will write: Record::from(&edns) after set_rcode_high
        e.set_rcode_high(rcode.high());
        let rec = Record::from(&e);
        let rdata_bytes = match &rec.data {
            RData::OPT(o) => o.to_bytes().unwrap(),
            _ => unreachable!(),
        };
        edns_rec = Some(GRec {
            name: GName(vec![]),
            rtype: 41,
            class: u16::from(rec.dns_class),
            ttl: rec.ttl,
            parts: if rdata_bytes.is_empty() { vec![] } else { vec![GPart::Bytes(rdata_bytes)] },
            rec,
        });
    }
    let mut sig_rec = None;
    if r.chance(1, 4) {
        let key = gen_name(r);
        let alg = r.pick(&[TsigAlgorithm::HmacSha256, TsigAlgorithm::HmacSha512]).clone();
        let mac = { let n = r.range(0, 64) as usize; r.bytes(n) };
        let time = r.next() & 0xffff_ffff_ffff;
        let fudge = 300u16;
        let other = { let n = r.range(0, 6) as usize; r.bytes(n) };
        let tsig = TSIG::new(alg.clone(), time, fudge, mac.clone(), id, None, other.clone());
        let rec = Record::from_rdata(key.to_name(), 0, tsig).with_dns_class_any();
        let alg_name = alg.to_name();
        let alg_g = GName(alg_name.iter().map(|l| l.to_vec()).collect());
        let mut b = vec![];
        b.extend_from_slice(&((time >> 32) as u16).to_be_bytes());
        b.extend_from_slice(&(time as u32).to_be_bytes());
        b.extend_from_slice(&fudge.to_be_bytes());
        b.extend_from_slice(&(mac.len() as u16).to_be_bytes());
        b.extend_from_slice(&mac);
        b.extend_from_slice(&id.to_be_bytes());
        b.extend_from_slice(&0u16.to_be_bytes());
        b.extend_from_slice(&(other.len() as u16).to_be_bytes());
        b.extend_from_slice(&other);
        msg.set_signature(Box::new(rec.clone()));
        sig_rec = Some(GRec {
            name: key,
            rtype: 250,
            class: 255,
            ttl: 0,
            parts: vec![GPart::Name(false, alg_g), GPart::Bytes(b)],
            rec: rec.into_record_of_rdata(),
        });
    }
    let h = &msg.metadata;
    let mut flags1 = if h.message_type == MessageType::Response { 0x80u8 } else { 0 };
    flags1 |= u8::from(h.op_code) << 3;
    flags1 |= if h.authoritative { 4 } else { 0 };
    flags1 |= if h.recursion_desired { 1 } else { 0 };
    let mut flags2 = if h.recursion_available { 0x80u8 } else { 0 };
    flags2 |= if h.authentic_data { 0x20 } else { 0 };
    flags2 |= if h.checking_disabled { 0x10 } else { 0 };
    flags2 |= rcode.low();
    GMsg { msg, id, flags1, tc, flags2, queries, answers, auth, add, edns: edns_rec, sig: sig_rec }
}

trait AnyClass {
    fn with_dns_class_any(self) -> Self;
}
impl AnyClass for Record<TSIG> {
    fn with_dns_class_any(mut self) -> Self {
        self.dns_class = DNSClass::ANY;
        self
    }
}

fn rec_coq(g: &GRec) -> String {
    let parts = coq_list(g.parts.iter().map(|p| match p {
        GPart::Bytes(b) => format!("PBytes (unpack {})", coq_pb(b)),
        GPart::Name(c, n) => format!("PName {} {}", if *c { "Compressed" } else { "Uncompressed" }, n.coq()),
    }));
    format!("mkRec {} {} {} {} {}", g.name.coq(), g.rtype, g.class, g.ttl, parts)
}

fn msg_coq(m: &GMsg) -> String {
    let opt = |o: &Option<GRec>| match o {
        Some(g) => format!("(Some ({}))", rec_coq(g)),
        None => "None".to_string(),
    };
    format!(
        "(mkMsg {} {} {} {} {} {} {} {} {} {})",
        m.id,
        m.flags1,
        if m.tc { "true" } else { "false" },
        m.flags2,
        coq_list(m.queries.iter().map(|(n, t, c)| format!("mkQ {} {} {}", n.coq(), t, c))),
        coq_list(m.answers.iter().map(|g| format!("({})", rec_coq(g)))),
        coq_list(m.auth.iter().map(|g| format!("({})", rec_coq(g)))),
        coq_list(m.add.iter().map(|g| format!("({})", rec_coq(g)))),
        opt(&m.edns),
        opt(&m.sig)
    )
}

fn msg_text(m: &GMsg) -> String {
    let sect = |v: &Vec<GRec>| v.iter().map(|g| format!("{}/{}", g.name.text(), g.rtype)).collect::<Vec<_>>().join(",");
    format!(
        "id={} q=[{}] an=[{}] ns=[{}] ar=[{}] edns={} tsig={} tc={}",
        m.id,
        m.queries.iter().map(|(n, t, _)| format!("{}/{}", n.text(), t)).collect::<Vec<_>>().join(","),
        sect(&m.answers),
        sect(&m.auth),
        sect(&m.add),
        m.edns.is_some(),
        m.sig.is_some(),
        m.tc
    )
}

fn encode_impl(msg: &Message, limit: u16) -> Result<Result<Vec<u8>, u8>, String> {
    let msg = msg.clone();
    guard(move || {
        let mut bytes = Vec::with_capacity(512);
        let res = {
            let mut enc = BinEncoder::new(&mut bytes);
            enc.set_max_size(limit);
            msg.emit(&mut enc)
        };
        match res {
            Ok(()) => Ok(bytes),
            Err(e) => Err(match e {
                ProtoError::MaxBufferSizeExceeded(_) | ProtoError::NotAllRecordsWritten { .. } => 1,
                ProtoError::CharacterDataTooLong { .. } => 4,
                ProtoError::Message(_) => 5,
                ProtoError::Decode(d) => {
                    let s = format!("{d:?}");
                    if s.contains("LabelBytesTooLong") {
                        2
                    } else if s.contains("DomainNameTooLong") {
                        3
                    } else {
                        9
                    }
                }
                _ => 9,
            }),
        }
    })
}

fn same_rec(a: &Record, b: &Record) -> bool {
    a.name == b.name && a.name.to_ascii() == b.name.to_ascii() && a.record_type() == b.record_type() && a.dns_class == b.dns_class && a.ttl == b.ttl && a.data == b.data
}

/// the property, evaluated on the implementation's own output
fn oracle(m: &GMsg, limit: u16, out: &Result<Vec<u8>, u8>) -> Option<String> {
    let bytes = match out {
        Err(_) => return None, // "encoding either fails or ..."
        Ok(b) => b,
    };
    if bytes.len() > limit as usize {
        return Some(format!("{} bytes produced under limit {}", bytes.len(), limit));
    }
    let mut dec = BinDecoder::new(bytes);
    let d = match Message::read(&mut dec) {
        Ok(d) => d,
        Err(e) => return Some(format!("output does not decode: {e}")),
    };
    let left = dec.len();
    if left != 0 {
        return Some(format!("{left} bytes left over after decoding the {}-byte output (limit {limit})", bytes.len()));
    }
    let hdr = Header::read(&mut BinDecoder::new(bytes)).unwrap();
    let pairs: [(&str, &[Record], &Vec<GRec>); 3] = [("answers", &d.answers, &m.answers), ("authorities", &d.authorities, &m.auth), ("additionals", &d.additionals, &m.add)];
    let mut dropped = false;
    for (what, got, orig) in pairs {
        if got.len() > orig.len() || !got.iter().zip(orig.iter()).all(|(a, b)| same_rec(a, &b.rec)) {
            return Some(format!("{what} of the decoded output is not a prefix of the original section"));
        }
        dropped |= got.len() < orig.len();
    }
    if hdr.counts.answers as usize != d.answers.len() || hdr.counts.authorities as usize != d.authorities.len() {
        return Some("header counts differ from records present".into());
    }
    let extra = d.edns.is_some() as usize + d.signature.is_some() as usize;
    if hdr.counts.additionals as usize != d.additionals.len() + extra {
        return Some("additional count differs from records present".into());
    }
    if d.queries.len() != m.queries.len() {
        return Some("question section changed".into());
    }
    if m.edns.is_some() && d.edns.is_none() {
        dropped = true;
    }
    if m.sig.is_some() && d.signature.is_none() {
        dropped = true;
    }
    if d.edns.is_some() && m.edns.is_none() || d.signature.is_some() && m.sig.is_none() {
        return Some("output has an OPT/TSIG the original lacks".into());
    }
    let want_tc = m.tc || dropped;
    if d.metadata.truncation != want_tc {
        return Some(format!("TC is {} but records dropped = {dropped}, original TC = {}", d.metadata.truncation, m.tc));
    }
    None
}

fn case(seed: u64, index: u64) -> CaseOut {
    let mut r = Rng::for_case(seed, index);
    let big = r.chance(1, 6);
    let huge = r.chance(1, 50);
    let m = gen_msg(&mut r, big, huge);
    let full = encode_impl(&m.msg, u16::MAX).ok().and_then(|x| x.ok()).map(|b| b.len()).unwrap_or(600);
    let limit: u16 = if huge && r.chance(2, 3) { *r.pick(&[u16::MAX, 16384, 16500, 17000]) } else { match r.below(10) {
        0 => 12,
        1 => *r.pick(&[13u16, 16, 28, 511, 512, 513]),
        2 => full.saturating_sub(1).max(12) as u16,
        3 => full.max(12) as u16,
        4 => (full + 1).max(12) as u16,
        5 => u16::MAX,
        _ => r.range(12, (full as u64 + 4).min(65535)) as u16,
    } };
    let out = encode_impl(&m.msg, limit);
    let text_in = format!("limit={limit} full={full} {}", msg_text(&m));
    let (coq, otext, fail, mut kind) = match &out {
        Ok(o) => {
            let (tag, pb) = match o {
                Ok(b) => (0u8, coq_pb(b)),
                Err(c) => (*c, coq_pb(&[])),
            };
            let kind = match o {
                Ok(b) if b.len() < full => "truncated",
                Ok(_) => "complete",
                Err(_) => "error",
            };
            (
                format!("CEnc {limit} {} {tag} {pb}", msg_coq(&m)),
                match o {
                    Ok(b) => format!("ok {}B {}", b.len(), hex(&b[..b.len().min(48)])),
                    Err(c) => format!("err {c}"),
                },
                oracle(&m, limit, o),
                kind,
            )
        }
        Err(p) => (format!("CEnc {limit} {} 99 (PB 0 [])", msg_coq(&m)), format!("PANIC {p}"), Some(format!("encoder panicked: {p}")), "panic"),
    };
    if huge && kind != "panic" {
        kind = if kind == "truncated" { "huge-truncated" } else if kind == "complete" { "huge-complete" } else { "huge-error" };
    }
    CaseOut {
        index,
        coq,
        text: format!("seed={seed} index={index} {text_in} => {otext}"),
        key: format!("{text_in} {}", msg_coq(&m).len()),
        nontrivial: kind == "truncated" || (kind == "complete" && !m.answers.is_empty()),
        kind: kind.to_string(),
        oracle_fail: fail,
        known: None,
    }
}

fn srv_case(seed: u64, index: u64, ctx: &hickory_server::server::VerifContext<hickory_server::zone_handler::Catalog>, rt: &tokio::runtime::Runtime) -> CaseOut {
    let mut r = Rng::for_case(seed, index ^ 0x5eed_0000_0000);
    let n = *r.pick(srv::SIZES);
    let txt = r.chance(1, 2);
    let name = format!("{}{n}.big.test.", if txt { "t" } else { "a" });
    let adv = *r.pick(&[None, Some(0u16), Some(100), Some(511), Some(512), Some(513), Some(1232), Some(4096), Some(65535)]);
    let tcp = r.chance(1, 3);
    let rtype = if txt { RecordType::TXT } else { RecordType::A };
    let reply = { let ctx = std::panic::AssertUnwindSafe(ctx); let rt = std::panic::AssertUnwindSafe(rt); let name = name.clone(); guard(move || srv::ask(&ctx, &rt, &name, rtype, adv, tcp, index as u16)) };
    let limit: usize = if tcp { 65535 } else { adv.map(|p| p.max(512) as usize).unwrap_or(512) };
    let text_in = format!("server {name} {rtype} adv={adv:?} {}", if tcp { "tcp" } else { "udp" });
    let (len, fail, otext) = match &reply {
        Ok(Some(b)) => {
            let mut fail = None;
            if b.len() > limit {
                fail = Some(format!("{} reply of {} bytes exceeds max(512, advertised {:?}) = {limit}", if tcp { "TCP" } else { "UDP" }, b.len(), adv));
            } else {
                let mut dec = BinDecoder::new(b);
                match Message::read(&mut dec) {
                    Err(e) => fail = Some(format!("reply does not decode: {e}")),
                    Ok(d) => {
                        if dec.len() != 0 {
                            fail = Some(format!("{} bytes left over in the reply", dec.len()));
                        } else if d.answers.len() < n.min(if txt { 300 } else { n }) && !d.metadata.truncation {
                            fail = Some(format!("{} of {} answers present but TC clear", d.answers.len(), n));
                        } else if d.answers.len() > n {
                            fail = Some("more answers than the zone holds".to_string());
                        }
                    }
                }
            }
            (b.len(), fail, format!("reply {}B", b.len()))
        }
        Ok(None) => (0, Some("no reply to a valid query".to_string()), "no reply".to_string()),
        Err(p) => (0, Some(format!("server panicked: {p}")), format!("PANIC {p}")),
    };
    CaseOut {
        index,
        coq: format!("CSrv {} {} {len}", if tcp { "true" } else { "false" }, match adv { Some(p) => format!("(Some {p})"), None => "None".into() }),
        text: format!("seed={seed} index={index} {text_in} => {otext}"),
        key: text_in,
        nontrivial: len > 512 || n >= 27,
        kind: format!("server-{}", if tcp { "tcp" } else { "udp" }),
        oracle_fail: fail,
        known: None,
    }
}

/// indices >= SRV_BASE are server cases
const SRV_BASE: u64 = 1 << 40;

fn main() {
    if std::env::var("VPH_LOUD").is_err() {
        quiet_panics();
    }
    let args = parse_args();
    let _ = Name::from_str("x.").unwrap();
    let rt = tokio::runtime::Builder::new_current_thread().enable_all().build().unwrap();
    let ctx = hickory_server::server::VerifContext::new(srv::catalog(), [], []);
    if let Some((seed, index)) = args.replay {
        let c = if index >= SRV_BASE { srv_case(seed, index, &ctx, &rt) } else { case(seed, index) };
        println!("{}", c.text);
        println!("COQ {}", c.coq);
        if let Some(f) = c.oracle_fail {
            println!("ORACLE-FAIL {f}");
        }
        return;
    }
    let mut cases: Vec<CaseOut> = (0..args.n).map(|i| case(args.seed, i)).collect();
    for i in 0..args.n / 4 {
        cases.push(srv_case(args.seed, SRV_BASE + i, &ctx, &rt));
    }
    emit(
        "C03",
        "C03",
        &args,
        &cases,
        "random messages (0-2 questions; A/AAAA/TXT/NS/CNAME/PTR/MX/SOA/SRV/NULL records over names sharing suffixes, mixed case, arbitrary-byte labels; EDNS with options; TSIG) x limits {12, small constants, full-1, full, full+1, 65535, uniform in [12, full+4]}; non-trivial = output truncated, or complete with at least one answer; distinct by (message, limit); server cases: queries for RRsets of 1..1200 A / TXT records through the real request front door (VerifContext hook -> Catalog -> in-memory zone) over UDP/TCP with advertised payload in {none,0,100,511,512,513,1232,4096,65535}",
        serde_json::json!({}),
    );
}
