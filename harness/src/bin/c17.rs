//! C17 — drives the real `TcpStream` state machine over a scripted socket.
//! Case = (kind, messages, socket script). Observation = items yielded + how the stream
//! ended (read side), bytes handed to the socket (write side).

use std::collections::VecDeque;
use std::io;
use std::net::SocketAddr;
use std::pin::Pin;
use std::sync::{Arc, Mutex};
use std::task::{Context, Poll};

use futures_io::{AsyncRead, AsyncWrite};
use futures_util::stream::Stream;
use futures_util::task::noop_waker;
use hickory_net::proto::op::SerialMessage;
use hickory_net::runtime::{DnsTcpStream, TokioTime};
use hickory_net::tcp::{TcpClientStream, TcpStream};
use hickory_net::NetError;
use hickory_net::xfer::DnsStreamHandle;
use hickory_server::server::TimeoutStream;
use std::time::Duration;
use vph::*;

#[derive(Clone, Debug)]
enum REv {
    Pending,
    Data(Vec<u8>),
    Eof,
    Err,
}
#[derive(Clone, Debug)]
enum WEv {
    Pend,
    Acc(usize),
    Err,
}

#[derive(Clone, Debug)]
enum FEv {
    Ok,
    Pend,
    Err,
}

#[derive(Default)]
struct Shared {
    rscript: VecDeque<REv>,
    wscript: VecDeque<WEv>,
    /// None: poll_flush is always ready (the read-only / write-only families)
    fscript: Option<VecDeque<FEv>>,
    written: Vec<u8>,
    /// length of `written` at the last successful poll_flush
    flushed: usize,
    /// bytes of a new frame were handed to the socket while an earlier, completely written frame had not been
    /// flushed (only tracked when a flush script is present)
    unflushed_frame: bool,
    starved: bool,
    read_calls: usize,
    write_calls: usize,
}

struct Sock(Arc<Mutex<Shared>>);

impl AsyncRead for Sock {
    fn poll_read(self: Pin<&mut Self>, _cx: &mut Context<'_>, buf: &mut [u8]) -> Poll<io::Result<usize>> {
        let mut s = self.0.lock().unwrap();
        s.read_calls += 1;
        match s.rscript.pop_front() {
            None => {
                s.starved = true;
                Poll::Pending
            }
            Some(REv::Pending) => Poll::Pending,
            Some(REv::Eof) => {
                s.rscript.push_front(REv::Eof);
                Poll::Ready(Ok(0))
            }
            Some(REv::Err) => Poll::Ready(Err(io::Error::new(io::ErrorKind::ConnectionReset, "scripted"))),
            Some(REv::Data(ch)) => {
                let n = buf.len().min(ch.len());
                buf[..n].copy_from_slice(&ch[..n]);
                if n < ch.len() {
                    s.rscript.push_front(REv::Data(ch[n..].to_vec()));
                } else if n == 0 {
                    // empty buffer or empty chunk: nothing consumed
                    if !ch.is_empty() {
                        s.rscript.push_front(REv::Data(ch));
                    } else {
                        s.rscript.push_front(REv::Data(vec![]));
                    }
                }
                Poll::Ready(Ok(n))
            }
        }
    }
}

/// the bytes written so far end exactly at the end of a length-prefixed frame
fn at_frame_end(w: &[u8]) -> bool {
    let mut i = 0usize;
    while i + 2 <= w.len() {
        let l = u16::from_be_bytes([w[i], w[i + 1]]) as usize;
        i += 2 + l;
        if i == w.len() {
            return true;
        }
    }
    false
}

impl Sock {
    fn write_some(&self, offered: &[u8]) -> Poll<io::Result<usize>> {
        let mut s = self.0.lock().unwrap();
        s.write_calls += 1;
        match s.wscript.pop_front() {
            None => {
                s.starved = true;
                Poll::Pending
            }
            Some(WEv::Pend) => Poll::Pending,
            Some(WEv::Err) => Poll::Ready(Err(io::Error::new(io::ErrorKind::ConnectionReset, "scripted-w"))),
            Some(WEv::Acc(n)) => {
                let n = n.min(offered.len());
                if n > 0 && s.fscript.is_some() && s.flushed < s.written.len() && at_frame_end(&s.written) {
                    s.unflushed_frame = true;
                }
                s.written.extend_from_slice(&offered[..n]);
                Poll::Ready(Ok(n))
            }
        }
    }
}

impl AsyncWrite for Sock {
    fn poll_write(self: Pin<&mut Self>, _cx: &mut Context<'_>, buf: &[u8]) -> Poll<io::Result<usize>> {
        self.write_some(buf)
    }
    fn poll_write_vectored(
        self: Pin<&mut Self>,
        _cx: &mut Context<'_>,
        bufs: &[io::IoSlice<'_>],
    ) -> Poll<io::Result<usize>> {
        let all: Vec<u8> = bufs.iter().flat_map(|b| b.iter().copied()).collect();
        self.write_some(&all)
    }
    fn poll_flush(self: Pin<&mut Self>, _cx: &mut Context<'_>) -> Poll<io::Result<()>> {
        let mut s = self.0.lock().unwrap();
        let ev = match s.fscript.as_mut() {
            None => return Poll::Ready(Ok(())),
            Some(q) => q.pop_front(),
        };
        match ev {
            None => {
                s.starved = true;
                Poll::Pending
            }
            Some(FEv::Ok) => {
                s.flushed = s.written.len();
                Poll::Ready(Ok(()))
            }
            Some(FEv::Pend) => Poll::Pending,
            Some(FEv::Err) => Poll::Ready(Err(io::Error::new(io::ErrorKind::ConnectionAborted, "scripted-f"))),
        }
    }
    fn poll_close(self: Pin<&mut Self>, _cx: &mut Context<'_>) -> Poll<io::Result<()>> {
        Poll::Ready(Ok(()))
    }
}

impl DnsTcpStream for Sock {
    type Time = TokioTime;
}

/// (items: (tag, bytes)), fin (0 clean, 1 failed, 2 starved), written
struct Obs {
    items: Vec<(u8, Vec<u8>)>,
    fin: u8,
    written: Vec<u8>,
    polls: usize,
    unflushed_frame: bool,
}

fn run_impl(msgs_out: &[Vec<u8>], rscript: &[REv], wscript: &[WEv]) -> Result<Obs, String> {
    let rscript = rscript.to_vec();
    let wscript = wscript.to_vec();
    let msgs_out = msgs_out.to_vec();
    guard(move || {
        let shared = Arc::new(Mutex::new(Shared {
            rscript: rscript.into(),
            wscript: wscript.into(),
            ..Default::default()
        }));
        let peer: SocketAddr = "192.0.2.1:53".parse().unwrap();
        let (mut stream, mut handle) = TcpStream::from_stream(Sock(shared.clone()), peer);
        for m in &msgs_out {
            handle.send(SerialMessage::new(m.clone(), peer)).unwrap();
        }
        let waker = noop_waker();
        let mut cx = Context::from_waker(&waker);
        let mut items = vec![];
        let mut fin = 2u8;
        let mut polls = 0usize;
        loop {
            polls += 1;
            if polls > 100_000 {
                panic!("poll budget exceeded (spin)");
            }
            match Pin::new(&mut stream).poll_next(&mut cx) {
                Poll::Ready(Some(Ok(m))) => items.push((0u8, m.bytes().to_vec())),
                Poll::Ready(Some(Err(e))) => {
                    let tag = match (e.kind(), e.to_string().as_str()) {
                        (io::ErrorKind::BrokenPipe, "closed while reading length") => 1,
                        (io::ErrorKind::BrokenPipe, "closed while reading message") => 2,
                        _ => 3,
                    };
                    items.push((tag, vec![]));
                    fin = 1;
                    break;
                }
                Poll::Ready(None) => {
                    fin = 0;
                    break;
                }
                Poll::Pending => {
                    if shared.lock().unwrap().starved {
                        break;
                    }
                }
            }
        }
        let written = shared.lock().unwrap().written.clone();
        let unflushed_frame = shared.lock().unwrap().unflushed_frame;
        Obs { items, fin, written, polls, unflushed_frame }
    })
}

fn frame(m: &[u8]) -> Vec<u8> {
    let mut v = (m.len() as u16).to_be_bytes().to_vec();
    v.extend_from_slice(m);
    v
}

fn gen_msgs(r: &mut Rng) -> Vec<Vec<u8>> {
    let k = r.range(1, 3) as usize;
    (0..k)
        .map(|_| {
            let len = if r.chance(1, 2) {
                *r.pick(&[1usize, 2, 3, 255, 256, 300])
            } else {
                r.range(1, 40) as usize
            };
            r.bytes(len)
        })
        .collect()
}

/// split `bytes` into chunks; `style` picks the size distribution
fn chunk(r: &mut Rng, bytes: &[u8]) -> Vec<Vec<u8>> {
    let style = r.below(4);
    let mut out = vec![];
    let mut i = 0;
    while i < bytes.len() {
        let rem = bytes.len() - i;
        let n = match style {
            0 => 1,
            1 => r.range(1, 3) as usize,
            2 => r.range(1, 64) as usize,
            _ => r.range(1, rem as u64) as usize,
        }
        .min(rem);
        out.push(bytes[i..i + n].to_vec());
        i += n;
    }
    out
}

fn rscript_text(s: &[REv]) -> String {
    s.iter()
        .map(|e| match e {
            REv::Pending => "P".to_string(),
            REv::Data(d) => format!("D{}", hex(d)),
            REv::Eof => "EOF".to_string(),
            REv::Err => "ERR".to_string(),
        })
        .collect::<Vec<_>>()
        .join(",")
}
fn rscript_coq(s: &[REv]) -> String {
    coq_list(s.iter().map(|e| match e {
        REv::Pending => "HPending".to_string(),
        REv::Data(d) => format!("HData {}", coq_pb(d)),
        REv::Eof => "HEof".to_string(),
        REv::Err => "HErr".to_string(),
    }))
}
fn wscript_text(s: &[WEv]) -> String {
    s.iter()
        .map(|e| match e {
            WEv::Pend => "P".to_string(),
            WEv::Acc(n) => format!("A{n}"),
            WEv::Err => "ERR".to_string(),
        })
        .collect::<Vec<_>>()
        .join(",")
}
fn wscript_coq(s: &[WEv]) -> String {
    coq_list(s.iter().map(|e| match e {
        WEv::Pend => "WPend".to_string(),
        WEv::Acc(n) => format!("WAcc {n}"),
        WEv::Err => "WErr".to_string(),
    }))
}

fn interleave_pending(r: &mut Rng, chunks: Vec<Vec<u8>>) -> Vec<REv> {
    let p = *r.pick(&[0u64, 1, 3]);
    let mut s = vec![];
    for c in chunks {
        while p > 0 && r.chance(p, 6) {
            s.push(REv::Pending);
        }
        s.push(REv::Data(c));
    }
    while p > 0 && r.chance(p, 6) {
        s.push(REv::Pending);
    }
    s
}

/// all compositions of n (as lists of part sizes), in a fixed order; index selects one
fn composition(n: usize, mut index: u64) -> Vec<usize> {
    // bit i of index set => cut after position i+1
    let mut parts = vec![];
    let mut cur = 1;
    for _ in 1..n {
        if index & 1 == 1 {
            parts.push(cur);
            cur = 1;
        } else {
            cur += 1;
        }
        index >>= 1;
    }
    parts.push(cur);
    parts
}

fn read_case(seed: u64, index: u64, r: &mut Rng, exhaustive: Option<(Vec<Vec<u8>>, u64)>) -> CaseOut {
    // what the byte stream denotes
    let (msgs, mut stream, kind): (Vec<Vec<u8>>, Vec<u8>, &str);
    let mut expect_items: Vec<(u8, Vec<u8>)>;
    let mut expect_fin = 0u8;
    let mut chunks: Vec<Vec<u8>>;
    if let Some((m, comp)) = exhaustive {
        msgs = m;
        stream = msgs.iter().flat_map(|m| frame(m)).collect();
        expect_items = msgs.iter().map(|m| (0, m.clone())).collect();
        kind = "read-allsplits";
        let parts = composition(stream.len(), comp);
        chunks = vec![];
        let mut i = 0;
        for p in parts {
            chunks.push(stream[i..i + p].to_vec());
            i += p;
        }
    } else {
        msgs = gen_msgs(r);
        stream = msgs.iter().flat_map(|m| frame(m)).collect();
        expect_items = msgs.iter().map(|m| (0, m.clone())).collect();
        match r.below(10) {
            0..=4 => kind = "read-wellformed",
            5 | 6 => {
                // close inside the last frame
                let last = frame(msgs.last().unwrap());
                let keep = r.range(1, last.len() as u64 - 1) as usize;
                stream.truncate(stream.len() - last.len() + keep);
                expect_items.pop();
                expect_items.push((if keep < 2 { 1 } else { 2 }, vec![]));
                expect_fin = 1;
                kind = "read-close-inside";
            }
            7 => {
                // zero-length frame after the messages
                stream.extend_from_slice(&[0, 0]);
                let extra = r.range(0, 4) as usize;
                stream.extend(r.bytes(extra));
                expect_items.push((2, vec![]));
                expect_fin = 1;
                kind = "read-zero-frame";
            }
            _ => {
                // arbitrary bytes: no independent expectation beyond the model
                let glen = r.range(0, 40) as usize;
                stream = r.bytes(glen);
                expect_items.clear();
                expect_fin = 255;
                kind = "read-garbage";
            }
        }
        chunks = chunk(r, &stream);
    }
    let mut script = interleave_pending(r, std::mem::take(&mut chunks));
    let ending = if kind == "read-allsplits" { 0 } else { r.below(12) };
    match ending {
        0..=8 => script.push(REv::Eof),
        9 => {
            script.push(REv::Err);
            if expect_fin != 255 {
                // items before the error are unchanged when the whole stream was delivered;
                // the error itself replaces the EOF outcome
                if expect_fin == 1 && kind != "read-zero-frame" {
                    expect_items.pop();
                }
                if kind == "read-zero-frame" {
                    // the zero frame fails before the socket error is seen only if data follows;
                    // leave to the model
                    expect_fin = 255;
                } else {
                    expect_items.push((3, vec![]));
                    expect_fin = 1;
                }
            }
        }
        10 => {
            script.push(REv::Data(vec![]));
        }
        _ => {
            // script just stops: starved
            if expect_fin != 255 {
                if kind == "read-zero-frame" {
                    expect_fin = 255;
                } else {
                    if expect_fin == 1 {
                        expect_items.pop();
                    }
                    expect_fin = 2;
                }
            }
        }
    }
    let obs = run_impl(&[], &script, &[]);
    let text_in = format!("R msgs={} script={}", msgs.iter().map(|m| hex(m)).collect::<Vec<_>>().join("|"), rscript_text(&script));
    let (coq, obs_text, oracle_fail) = match &obs {
        Ok(o) => {
            let items = coq_list(o.items.iter().map(|(t, b)| format!("({t}, {})", coq_pb(b))));
            let coq = format!("CRead {} {} {}", rscript_coq(&script), items, o.fin);
            let otext = format!(
                "items={} fin={}",
                o.items.iter().map(|(t, b)| format!("{t}:{}", hex(b))).collect::<Vec<_>>().join("|"),
                o.fin
            );
            let fail = if expect_fin != 255 && (o.items != expect_items || o.fin != expect_fin) {
                Some(format!(
                    "stream {} delivered as {}: expected items={:?} fin={}, implementation gave {}",
                    kind,
                    rscript_text(&script),
                    expect_items.iter().map(|(t, b)| format!("{t}:{}", hex(b))).collect::<Vec<_>>(),
                    expect_fin,
                    otext
                ))
            } else {
                None
            };
            (coq, otext, fail)
        }
        Err(p) => (
            format!("CRead {} [(9, (PB 0 []))] 9", rscript_coq(&script)),
            format!("PANIC {p}"),
            Some(format!("implementation panicked: {p}")),
        ),
    };
    CaseOut {
        index,
        coq,
        text: format!("seed={seed} index={index} {kind} {text_in} => {obs_text}"),
        key: text_in,
        nontrivial: script.iter().filter(|e| matches!(e, REv::Data(_))).count() >= 2,
        kind: kind.to_string(),
        oracle_fail,
        known: None,
    }
}

fn write_case(seed: u64, index: u64, r: &mut Rng) -> CaseOut {
    let msgs = gen_msgs(r);
    let stream: Vec<u8> = msgs.iter().flat_map(|m| frame(m)).collect();
    let style = r.below(4);
    let mut script = vec![];
    let mut budget = 0usize; // number of accepting calls
    let want = match r.below(6) {
        0 => r.range(0, stream.len() as u64) as usize, // not enough
        _ => stream.len() + 2,
    };
    let mut has_err = false;
    while budget < want {
        if r.chance(1, 5) {
            script.push(WEv::Pend);
            continue;
        }
        if r.chance(1, 200) {
            script.push(WEv::Err);
            has_err = true;
            break;
        }
        let n = match style {
            0 => 1,
            1 => r.range(1, 3) as usize,
            2 => r.range(1, 64) as usize,
            _ => r.range(1, 400) as usize,
        };
        script.push(WEv::Acc(n));
        budget += 1;
    }
    let kind = if has_err {
        "write-error"
    } else if budget >= stream.len() {
        "write-complete"
    } else {
        "write-partial"
    };
    let obs = run_impl(&msgs, &[], &script);
    let text_in = format!(
        "W msgs={} script={}",
        msgs.iter().map(|m| hex(m)).collect::<Vec<_>>().join("|"),
        wscript_text(&script)
    );
    let (coq, obs_text, oracle_fail) = match &obs {
        Ok(o) => {
            let failed = if o.fin == 1 { 1 } else { 0 };
            let coq = format!(
                "CWrite {} {} {} {}",
                coq_list(msgs.iter().map(|m| coq_pb(m))),
                wscript_coq(&script),
                coq_pb(&o.written),
                failed
            );
            let otext = format!("written={} failed={}", hex(&o.written), failed);
            let mut fail = None;
            if !stream.starts_with(&o.written) {
                fail = Some(format!("bytes on the wire are not a prefix of the framed messages: {otext}"));
            } else if kind == "write-complete" && o.written != stream {
                fail = Some(format!("{} accepting calls for {} bytes but only {} written", budget, stream.len(), o.written.len()));
            } else if !has_err && failed == 1 {
                fail = Some("stream failed without a socket error".to_string());
            }
            (coq, otext, fail)
        }
        Err(p) => (
            format!("CWrite {} {} (PB 0 []) 9", coq_list(msgs.iter().map(|m| coq_pb(m))), wscript_coq(&script)),
            format!("PANIC {p}"),
            Some(format!("implementation panicked: {p}")),
        ),
    };
    CaseOut {
        index,
        coq,
        text: format!("seed={seed} index={index} {kind} {text_in} => {obs_text}"),
        key: text_in,
        nontrivial: script.iter().filter(|e| matches!(e, WEv::Acc(_))).count() >= 2,
        kind: kind.to_string(),
        oracle_fail,
        known: None,
    }
}

// ---------------------------------------------------------------------------------
// Combined family: ONE TcpStream (optionally wrapped in TcpClientStream) polled a fixed
// number of times; before poll i the batch arr[i] is pushed into the outbound queue;
// write / flush / read results come from three scripts.
// ---------------------------------------------------------------------------------

fn classify(e: &io::Error) -> u8 {
    match (e.kind(), e.to_string().as_str()) {
        (io::ErrorKind::BrokenPipe, "closed while reading length") => 1,
        (io::ErrorKind::BrokenPipe, "closed while reading message") => 2,
        (io::ErrorKind::InvalidData, _) => 4,
        (_, "scripted-w") => 5,
        (_, "scripted-f") => 6,
        _ => 3,
    }
}

type Batch = Vec<(bool, Vec<u8>)>;

fn run_comb(arr: &[Batch], ws: &[WEv], fs: &[FEv], rs: &[REv], client: bool) -> Result<Obs, String> {
    let (arr, ws, fs, rs) = (arr.to_vec(), ws.to_vec(), fs.to_vec(), rs.to_vec());
    guard(move || {
        let shared = Arc::new(Mutex::new(Shared {
            rscript: rs.into(),
            wscript: ws.into(),
            fscript: Some(fs.into()),
            ..Default::default()
        }));
        let peer: SocketAddr = "192.0.2.1:53".parse().unwrap();
        let other: SocketAddr = "198.51.100.7:53".parse().unwrap();
        let (stream, mut handle) = TcpStream::from_stream(Sock(shared.clone()), peer);
        let mut handle_other = handle.with_remote_addr(other);
        let waker = noop_waker();
        let mut cx = Context::from_waker(&waker);
        // Ok(bytes, source address is the peer) / Err(class)
        let mut poll_one: Box<dyn FnMut(&mut Context<'_>) -> Poll<Option<Result<(Vec<u8>, bool), u8>>>> = if client {
            let mut s = TcpClientStream::from_stream(stream);
            Box::new(move |cx| match Pin::new(&mut s).poll_next(cx) {
                Poll::Pending => Poll::Pending,
                Poll::Ready(None) => Poll::Ready(None),
                Poll::Ready(Some(Ok(m))) => Poll::Ready(Some(Ok((m.bytes().to_vec(), m.addr() == peer)))),
                Poll::Ready(Some(Err(NetError::Io(e)))) => Poll::Ready(Some(Err(classify(&e)))),
                Poll::Ready(Some(Err(_))) => Poll::Ready(Some(Err(9))),
            })
        } else {
            let mut s = stream;
            Box::new(move |cx| match Pin::new(&mut s).poll_next(cx) {
                Poll::Pending => Poll::Pending,
                Poll::Ready(None) => Poll::Ready(None),
                Poll::Ready(Some(Ok(m))) => Poll::Ready(Some(Ok((m.bytes().to_vec(), m.addr() == peer)))),
                Poll::Ready(Some(Err(e))) => Poll::Ready(Some(Err(classify(&e)))),
            })
        };
        let mut items = vec![];
        let mut fin = 2u8;
        let mut polls = 0usize;
        for batch in &arr {
            for (ok, m) in batch {
                let h = if *ok { &mut handle } else { &mut handle_other };
                h.send(SerialMessage::new(m.clone(), peer)).unwrap();
            }
            polls += 1;
            match poll_one(&mut cx) {
                Poll::Ready(Some(Ok((m, from_peer)))) => {
                    if !from_peer {
                        panic!("message source address is not the peer");
                    }
                    items.push((0u8, m))
                }
                Poll::Ready(Some(Err(t))) => {
                    items.push((t, vec![]));
                    if t <= 3 {
                        fin = 1;
                        break;
                    }
                }
                Poll::Ready(None) => {
                    fin = 0;
                    break;
                }
                Poll::Pending => {}
            }
        }
        let written = shared.lock().unwrap().written.clone();
        let unflushed_frame = shared.lock().unwrap().unflushed_frame;
        Obs { items, fin, written, polls, unflushed_frame }
    })
}

fn comb_case(seed: u64, index: u64, r: &mut Rng, client: bool) -> CaseOut {
    // outbound messages
    let n_out = r.below(4) as usize;
    let mut out_msgs: Vec<(bool, Vec<u8>)> = vec![];
    let mismatch_on = r.chance(1, 3);
    for _ in 0..n_out {
        let len = match r.below(8) {
            0 => *r.pick(&[0usize, 1, 2, 255, 256]),
            _ => r.range(1, 24) as usize,
        };
        out_msgs.push((!(mismatch_on && r.chance(1, 3)), r.bytes(len)));
    }
    let expected_wire: Vec<u8> = out_msgs.iter().filter(|(ok, _)| *ok).flat_map(|(_, m)| frame(m)).collect();
    // inbound stream
    let in_msgs: Vec<Vec<u8>> = if r.chance(1, 5) { vec![] } else { gen_msgs(r).into_iter().map(|m| if m.len() > 60 { m[..60].to_vec() } else { m }).collect() };
    let mut in_stream: Vec<u8> = in_msgs.iter().flat_map(|m| frame(m)).collect();
    let mut in_cut = false;
    if !in_stream.is_empty() && r.chance(1, 6) {
        let keep = r.range(0, in_stream.len() as u64 - 1) as usize;
        in_stream.truncate(keep);
        in_cut = true;
    }
    let chunks = chunk(r, &in_stream);
    let mut rs = interleave_pending(r, chunks);
    match r.below(10) {
        0..=6 => rs.push(REv::Eof),
        7 => rs.push(REv::Err),
        _ => {}
    }
    // write script
    let wstyle = r.below(4);
    let wp = *r.pick(&[0u64, 1, 2]);
    let mut ws = vec![];
    let w_calls = match r.below(5) {
        0 => r.range(0, expected_wire.len() as u64 + 1) as usize,
        _ => expected_wire.len() + 2,
    };
    let mut acc = 0;
    while acc < w_calls {
        if wp > 0 && r.chance(wp, 6) {
            ws.push(WEv::Pend);
            continue;
        }
        if r.chance(1, 60) {
            ws.push(WEv::Err);
            continue;
        }
        let n = match wstyle {
            0 => 1,
            1 => r.range(1, 3) as usize,
            2 => r.range(1, 64) as usize,
            _ => r.range(0, 400) as usize,
        };
        ws.push(WEv::Acc(n));
        acc += 1;
    }
    // flush script
    let fp = *r.pick(&[0u64, 2, 3]);
    let mut fs = vec![];
    let f_calls = if r.chance(1, 6) { r.below(n_out as u64 + 1) as usize } else { n_out + 1 };
    let mut oks = 0;
    while oks < f_calls {
        if fp > 0 && r.chance(fp, 6) {
            fs.push(FEv::Pend);
        } else if r.chance(1, 25) {
            fs.push(FEv::Err);
        } else {
            fs.push(FEv::Ok);
            oks += 1;
        }
    }
    // polls and arrival times
    let events = rs.len() + ws.len() + fs.len();
    let n_polls = match r.below(4) {
        0 => r.range(1, events as u64 + 2) as usize,
        _ => events + 3,
    }
    .min(120);
    let mut arr: Vec<Batch> = vec![vec![]; n_polls];
    let late = r.chance(1, 2);
    for m in out_msgs.iter() {
        let at = if late { r.below(n_polls as u64) as usize } else { r.below(3u64.min(n_polls as u64)) as usize };
        arr[at].push(m.clone());
    }
    // queue order = arrival order
    let queued: Vec<(bool, Vec<u8>)> = arr.iter().flatten().cloned().collect();
    let expected_wire: Vec<u8> = queued.iter().filter(|(ok, _)| *ok).flat_map(|(_, m)| frame(m)).collect();
    let n_mismatch = queued.iter().filter(|(ok, _)| !*ok).count();

    let has_wpend = ws.iter().any(|e| matches!(e, WEv::Pend));
    let has_werr = ws.iter().any(|e| matches!(e, WEv::Err));
    let has_fpend = fs.iter().any(|e| matches!(e, FEv::Pend));
    let has_ferr = fs.iter().any(|e| matches!(e, FEv::Err));
    let base = if n_mismatch > 0 {
        "mismatch"
    } else if has_ferr {
        "flush-err"
    } else if has_werr {
        "write-err"
    } else if has_fpend {
        "flush-pending"
    } else if has_wpend {
        "write-pending"
    } else if queued.is_empty() {
        "read-only"
    } else {
        "plain"
    };
    let kind = format!("{}-{}", if client { "client" } else { "comb" }, base);

    let obs = run_comb(&arr, &ws, &fs, &rs, client);
    let arr_text = arr
        .iter()
        .map(|b| b.iter().map(|(ok, m)| format!("{}{}", if *ok { "" } else { "!" }, hex(m))).collect::<Vec<_>>().join("+"))
        .collect::<Vec<_>>()
        .join("/");
    let ftext = fs.iter().map(|e| match e { FEv::Ok => "O", FEv::Pend => "P", FEv::Err => "E" }).collect::<String>();
    let text_in = format!(
        "C client={} arrivals={} w={} f={} r={}",
        client as u8,
        arr_text,
        wscript_text(&ws),
        ftext,
        rscript_text(&rs)
    );
    let arr_coq = coq_list(arr.iter().map(|b| coq_list(b.iter().map(|(ok, m)| format!("({}, {})", if *ok { "true" } else { "false" }, coq_pb(m))))));
    let fs_coq = coq_list(fs.iter().map(|e| match e { FEv::Ok => "FOk", FEv::Pend => "FPend", FEv::Err => "FErr" }.to_string()));
    let (coq, obs_text, oracle_fail) = match &obs {
        Ok(o) => {
            let items = coq_list(o.items.iter().map(|(t, b)| format!("({t}, {})", coq_pb(b))));
            let coq = format!(
                "CComb {} {} {} {} {} {} {}",
                arr_coq,
                wscript_coq(&ws),
                fs_coq,
                rscript_coq(&rs),
                items,
                o.fin,
                coq_pb(&o.written)
            );
            let otext = format!(
                "items={} fin={} written={} polls={}",
                o.items.iter().map(|(t, b)| format!("{t}:{}", hex(b))).collect::<Vec<_>>().join("|"),
                o.fin,
                hex(&o.written),
                o.polls
            );
            // the property, directly on the implementation
            let got_msgs: Vec<&Vec<u8>> = o.items.iter().filter(|(t, _)| *t == 0).map(|(_, b)| b).collect();
            let n_mm = o.items.iter().filter(|(t, _)| *t == 4).count();
            let mut fail = None;
            if !expected_wire.starts_with(&o.written) {
                fail = Some(format!("bytes on the wire are not a prefix of the framed matching messages in queue order: {otext}"));
            } else if got_msgs.len() > in_msgs.len() || got_msgs.iter().zip(in_msgs.iter()).any(|(a, b)| *a != b) {
                fail = Some(format!("delivered messages are not a prefix of the messages in the inbound byte stream: {otext}"));
            } else if o.fin == 0 && !in_cut && got_msgs.len() != in_msgs.len() {
                fail = Some(format!("clean end but only {} of {} inbound messages delivered", got_msgs.len(), in_msgs.len()));
            } else if o.fin == 0 && in_cut && in_stream.len() != in_msgs.iter().take(got_msgs.len()).map(|m| m.len() + 2).sum::<usize>() {
                fail = Some("clean end inside a frame".to_string());
            } else if o.unflushed_frame {
                fail = Some(format!("a new frame was handed to the socket before the previous, completely written frame had been flushed: {otext}"));
            } else if n_mm > n_mismatch {
                fail = Some(format!("{n_mm} mismatched-peer errors for {n_mismatch} mismatched messages"));
            }
            (coq, otext, fail)
        }
        Err(p) => (
            format!("CComb {} {} {} {} [(9, (PB 0 []))] 9 (PB 0 [])", arr_coq, wscript_coq(&ws), fs_coq, rscript_coq(&rs)),
            format!("PANIC {p}"),
            Some(format!("implementation panicked: {p}")),
        ),
    };
    CaseOut {
        index,
        coq,
        text: format!("seed={seed} index={index} {kind} {text_in} => {obs_text}"),
        key: text_in,
        nontrivial: !queued.is_empty() && rs.iter().filter(|e| matches!(e, REv::Data(_))).count() >= 1,
        kind,
        oracle_fail,
        known: None,
    }
}

// ---------------------------------------------------------------------------------
// TimeoutStream family: the real hickory_server::server::TimeoutStream over a scripted
// inner stream, under a paused tokio clock (current-thread runtime).  Before poll i the
// clock advances by dt_i milliseconds.
// ---------------------------------------------------------------------------------

#[derive(Clone, Debug)]
enum IEv {
    Pend,
    Item(bool, u64),
    End,
}

struct Inner(VecDeque<IEv>);

impl Stream for Inner {
    type Item = io::Result<u64>;
    fn poll_next(mut self: Pin<&mut Self>, _cx: &mut Context<'_>) -> Poll<Option<Self::Item>> {
        match self.0.pop_front() {
            None | Some(IEv::Pend) => Poll::Pending,
            Some(IEv::Item(true, id)) => Poll::Ready(Some(Ok(id))),
            Some(IEv::Item(false, id)) => Poll::Ready(Some(Err(io::Error::new(io::ErrorKind::Other, id.to_string())))),
            Some(IEv::End) => Poll::Ready(None),
        }
    }
}

/// items: (0, id) ok item, (1, id) inner error item, (2, 0) timeout error; fin 0 end, 1 timed out, 2 script used up
fn run_timeout(d_ms: u64, script: &[(u64, IEv)]) -> Result<(Vec<(u8, u64)>, u8), String> {
    let script = script.to_vec();
    guard(move || {
        let rt = tokio::runtime::Builder::new_current_thread().enable_time().start_paused(true).build().unwrap();
        rt.block_on(async move {
            let inner = Inner(script.iter().map(|(_, e)| e.clone()).collect());
            let mut ts = TimeoutStream::new(inner, Duration::from_millis(d_ms));
            let mut items = vec![];
            let mut fin = 2u8;
            for (dt, _) in &script {
                if *dt > 0 {
                    tokio::time::advance(Duration::from_millis(*dt)).await;
                }
                let r = futures_util::future::poll_fn(|cx| Poll::Ready(Pin::new(&mut ts).poll_next(cx))).await;
                match r {
                    Poll::Pending => {}
                    Poll::Ready(None) => {
                        fin = 0;
                        break;
                    }
                    Poll::Ready(Some(Ok(id))) => items.push((0u8, id)),
                    Poll::Ready(Some(Err(e))) => {
                        if e.kind() == io::ErrorKind::TimedOut {
                            items.push((2, 0));
                            fin = 1;
                            break;
                        }
                        items.push((1, e.to_string().parse().unwrap()));
                    }
                }
            }
            (items, fin)
        })
    })
}

fn timeout_case(seed: u64, index: u64, r: &mut Rng) -> CaseOut {
    let d = *r.pick(&[0u64, 1, 5, 10, 10, 100]);
    let n = r.range(1, 10) as usize;
    let quiet_bias = r.chance(1, 2);
    let mut script = vec![];
    let mut next_id = 1u64;
    for _ in 0..n {
        let dt = if quiet_bias && d > 1 {
            r.below((d / 3).max(1))
        } else {
            match r.below(6) {
                0 => 0,
                1 => 1,
                2 => d.saturating_sub(1),
                3 => d,
                4 => d + 1,
                _ => r.below(2 * d + 2),
            }
        };
        let e = match r.below(10) {
            0..=4 => IEv::Pend,
            5..=8 => {
                next_id += 1;
                IEv::Item(r.chance(4, 5), next_id)
            }
            _ => IEv::End,
        };
        let end = matches!(e, IEv::End);
        script.push((dt, e));
        if end {
            break;
        }
    }
    // independent expectation: time since the timer was armed, in the property's own terms
    let mut acc: Option<u64> = None;
    let mut exp_items: Vec<(u8, u64)> = vec![];
    let mut exp_fin = 2u8;
    for (dt, e) in &script {
        let a = match acc {
            None => 0,
            Some(a) => a + dt,
        };
        match e {
            IEv::Pend => {
                if d > 0 && a >= d {
                    exp_items.push((2, 0));
                    exp_fin = 1;
                    break;
                }
                acc = Some(a);
            }
            IEv::Item(ok, id) => {
                exp_items.push((if *ok { 0 } else { 1 }, *id));
                acc = Some(0);
            }
            IEv::End => {
                exp_fin = 0;
                break;
            }
        }
    }
    let kind = if d == 0 {
        "timeout-zero-duration"
    } else if exp_fin == 1 {
        "timeout-expires"
    } else {
        "timeout-quiet"
    };
    let text_in = format!(
        "T d={} script={}",
        d,
        script
            .iter()
            .map(|(dt, e)| format!(
                "+{}:{}",
                dt,
                match e {
                    IEv::Pend => "P".to_string(),
                    IEv::Item(ok, id) => format!("{}{}", if *ok { "ok" } else { "err" }, id),
                    IEv::End => "END".to_string(),
                }
            ))
            .collect::<Vec<_>>()
            .join(",")
    );
    let script_coq = coq_list(script.iter().map(|(dt, e)| {
        format!(
            "({}, {})",
            dt,
            match e {
                IEv::Pend => "IPend".to_string(),
                IEv::Item(ok, id) => format!("IItem {} {}", ok, id),
                IEv::End => "IEnd".to_string(),
            }
        )
    }));
    let obs = run_timeout(d, &script);
    let (coq, obs_text, oracle_fail) = match &obs {
        Ok((items, fin)) => {
            let coq = format!(
                "CTimeout {} {} {} {}",
                d,
                script_coq,
                coq_list(items.iter().map(|(t, id)| format!("({t}, {id})"))),
                fin
            );
            let otext = format!("items={:?} fin={}", items, fin);
            let fail = if *items != exp_items || *fin != exp_fin {
                Some(format!("TimeoutStream: expected items={:?} fin={}, implementation gave {}", exp_items, exp_fin, otext))
            } else {
                None
            };
            (coq, otext, fail)
        }
        Err(p) => (
            format!("CTimeout {} {} [(9, 9)] 9", d, script_coq),
            format!("PANIC {p}"),
            Some(format!("implementation panicked: {p}")),
        ),
    };
    CaseOut {
        index,
        coq,
        text: format!("seed={seed} index={index} {kind} {text_in} => {obs_text}"),
        key: text_in,
        nontrivial: script.len() >= 2,
        kind: kind.to_string(),
        oracle_fail,
        known: None,
    }
}

/// index space: [0, EXH) = all compositions of fixed small streams; then random cases,
/// even = read, odd = write
const EXH_STREAMS: &[&[&[u8]]] = &[&[&[0xaa]], &[&[1, 2, 3]], &[&[9], &[8, 7]], &[&[5], &[6], &[7]], &[&[1, 2, 3, 4, 5, 6, 7, 8, 9, 10, 11]]];

fn exh_count() -> u64 {
    EXH_STREAMS
        .iter()
        .map(|ms| {
            let n: usize = ms.iter().map(|m| m.len() + 2).sum();
            1u64 << (n - 1)
        })
        .sum()
}

fn case(seed: u64, index: u64, exhaustive_on: bool) -> CaseOut {
    let mut r = Rng::for_case(seed, index);
    if exhaustive_on {
        let mut i = index;
        for ms in EXH_STREAMS {
            let n: usize = ms.iter().map(|m| m.len() + 2).sum();
            let c = 1u64 << (n - 1);
            if i < c {
                let msgs = ms.iter().map(|m| m.to_vec()).collect();
                return read_case(seed, index, &mut r, Some((msgs, i)));
            }
            i -= c;
        }
    }
    match index % 5 {
        0 => read_case(seed, index, &mut r, None),
        1 => write_case(seed, index, &mut r),
        2 => comb_case(seed, index, &mut r, false),
        3 => comb_case(seed, index, &mut r, true),
        _ => timeout_case(seed, index, &mut r),
    }
}

fn main() {
    quiet_panics();
    let args = parse_args();
    let thorough = args.tier == "thorough";
    if let Some((seed, index)) = args.replay {
        let c = case(seed, index, thorough || args.extra.contains_key("exh"));
        println!("{}", c.text);
        println!("COQ {}", c.coq);
        if let Some(f) = c.oracle_fail {
            println!("ORACLE-FAIL {f}");
        }
        return;
    }
    let mut cases = vec![];
    // thorough: every composition of the small streams first (index < exh_count)
    let start = if thorough { 0 } else { exh_count() };
    // quick: a slice of the exhaustive family too
    if !thorough {
        let total = exh_count();
        let step = (total / 400).max(1);
        let mut i = args.seed % step;
        while i < total {
            cases.push(case(args.seed, i, true));
            i += step;
        }
    }
    for index in start..start + args.n + if thorough { exh_count() } else { 0 } {
        cases.push(case(args.seed, index, true));
    }
    emit(
        "C17",
        "C17",
        &args,
        &cases,
        "read cases: 1..3 messages (lengths from {1,2,3,255,256,300} or 1..40) framed, optionally cut inside a frame / followed by a zero-length frame / replaced by garbage, chunked by 4 size distributions with Pending steps, ended by EOF / error / empty read / starvation; plus all 2^(n-1) compositions of 5 fixed small streams (sampled in quick, complete in thorough); write cases: same messages, scripts of WAcc n / Pending / error; combined cases (comb-* on TcpStream, client-* through TcpClientStream): 0..3 outbound messages (lengths 0..256, destination matching the peer or not) arriving in scripted batches before each poll, write script (WAcc n incl. 0 / Pending / error), flush script (Ok / Pending / error), read script as in the read cases, a fixed number of polls; timeout cases: the real TimeoutStream (duration 0/1/5/10/100 ms) over a scripted inner stream (Pending / Ok item / Err item / end) under a paused tokio clock advanced by scripted amounts before each poll. Non-trivial = at least two data-carrying socket calls; distinct by (messages, script).",
        serde_json::json!({"exhaustive_family_size": exh_count()}),
    );
}
