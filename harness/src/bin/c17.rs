//! C17 — drives the real `TcpStream` state machine over a scripted socket.
//! Case = (kind, messages, socket script). Observation = items yielded + how the stream
//! ended (read side), bytes handed to the socket (write side).

use std::collections::VecDeque;
use std::io;
use std::net::SocketAddr;
use std::pin::Pin;
use std::sync::{Arc, Mutex};
use std::task::{Context, Poll};

use futures_io::{AsyncRead, AsyncWrite};
use futures_util::stream::Stream;
use futures_util::task::noop_waker;
use hickory_net::proto::op::SerialMessage;
use hickory_net::runtime::{DnsTcpStream, TokioTime};
use hickory_net::tcp::TcpStream;
use hickory_net::xfer::DnsStreamHandle;
use vph::*;

#[derive(Clone, Debug)]
enum REv {
    Pending,
    Data(Vec<u8>),
    Eof,
    Err,
}
#[derive(Clone, Debug)]
enum WEv {
    Pend,
    Acc(usize),
    Err,
}

#[derive(Default)]
struct Shared {
    rscript: VecDeque<REv>,
    wscript: VecDeque<WEv>,
    written: Vec<u8>,
    starved: bool,
    read_calls: usize,
    write_calls: usize,
}

struct Sock(Arc<Mutex<Shared>>);

impl AsyncRead for Sock {
    fn poll_read(self: Pin<&mut Self>, _cx: &mut Context<'_>, buf: &mut [u8]) -> Poll<io::Result<usize>> {
        let mut s = self.0.lock().unwrap();
        s.read_calls += 1;
        match s.rscript.pop_front() {
            None => {
                s.starved = true;
                Poll::Pending
            }
            Some(REv::Pending) => Poll::Pending,
            Some(REv::Eof) => {
                s.rscript.push_front(REv::Eof);
                Poll::Ready(Ok(0))
            }
            Some(REv::Err) => Poll::Ready(Err(io::Error::new(io::ErrorKind::ConnectionReset, "scripted"))),
            Some(REv::Data(ch)) => {
                let n = buf.len().min(ch.len());
                buf[..n].copy_from_slice(&ch[..n]);
                if n < ch.len() {
                    s.rscript.push_front(REv::Data(ch[n..].to_vec()));
                } else if n == 0 {
                    // empty buffer or empty chunk: nothing consumed
                    if !ch.is_empty() {
                        s.rscript.push_front(REv::Data(ch));
                    } else {
                        s.rscript.push_front(REv::Data(vec![]));
                    }
                }
                Poll::Ready(Ok(n))
            }
        }
    }
}

impl Sock {
    fn write_some(&self, offered: &[u8]) -> Poll<io::Result<usize>> {
        let mut s = self.0.lock().unwrap();
        s.write_calls += 1;
        match s.wscript.pop_front() {
            None => {
                s.starved = true;
                Poll::Pending
            }
            Some(WEv::Pend) => Poll::Pending,
            Some(WEv::Err) => Poll::Ready(Err(io::Error::new(io::ErrorKind::ConnectionReset, "scripted"))),
            Some(WEv::Acc(n)) => {
                let n = n.min(offered.len());
                s.written.extend_from_slice(&offered[..n]);
                Poll::Ready(Ok(n))
            }
        }
    }
}

impl AsyncWrite for Sock {
    fn poll_write(self: Pin<&mut Self>, _cx: &mut Context<'_>, buf: &[u8]) -> Poll<io::Result<usize>> {
        self.write_some(buf)
    }
    fn poll_write_vectored(
        self: Pin<&mut Self>,
        _cx: &mut Context<'_>,
        bufs: &[io::IoSlice<'_>],
    ) -> Poll<io::Result<usize>> {
        let all: Vec<u8> = bufs.iter().flat_map(|b| b.iter().copied()).collect();
        self.write_some(&all)
    }
    fn poll_flush(self: Pin<&mut Self>, _cx: &mut Context<'_>) -> Poll<io::Result<()>> {
        Poll::Ready(Ok(()))
    }
    fn poll_close(self: Pin<&mut Self>, _cx: &mut Context<'_>) -> Poll<io::Result<()>> {
        Poll::Ready(Ok(()))
    }
}

impl DnsTcpStream for Sock {
    type Time = TokioTime;
}

/// (items: (tag, bytes)), fin (0 clean, 1 failed, 2 starved), written
struct Obs {
    items: Vec<(u8, Vec<u8>)>,
    fin: u8,
    written: Vec<u8>,
    polls: usize,
}

fn run_impl(msgs_out: &[Vec<u8>], rscript: &[REv], wscript: &[WEv]) -> Result<Obs, String> {
    let rscript = rscript.to_vec();
    let wscript = wscript.to_vec();
    let msgs_out = msgs_out.to_vec();
    guard(move || {
        let shared = Arc::new(Mutex::new(Shared {
            rscript: rscript.into(),
            wscript: wscript.into(),
            ..Default::default()
        }));
        let peer: SocketAddr = "192.0.2.1:53".parse().unwrap();
        let (mut stream, mut handle) = TcpStream::from_stream(Sock(shared.clone()), peer);
        for m in &msgs_out {
            handle.send(SerialMessage::new(m.clone(), peer)).unwrap();
        }
        let waker = noop_waker();
        let mut cx = Context::from_waker(&waker);
        let mut items = vec![];
        let mut fin = 2u8;
        let mut polls = 0usize;
        loop {
            polls += 1;
            if polls > 100_000 {
                panic!("poll budget exceeded (spin)");
            }
            match Pin::new(&mut stream).poll_next(&mut cx) {
                Poll::Ready(Some(Ok(m))) => items.push((0u8, m.bytes().to_vec())),
                Poll::Ready(Some(Err(e))) => {
                    let tag = match (e.kind(), e.to_string().as_str()) {
                        (io::ErrorKind::BrokenPipe, "closed while reading length") => 1,
                        (io::ErrorKind::BrokenPipe, "closed while reading message") => 2,
                        _ => 3,
                    };
                    items.push((tag, vec![]));
                    fin = 1;
                    break;
                }
                Poll::Ready(None) => {
                    fin = 0;
                    break;
                }
                Poll::Pending => {
                    if shared.lock().unwrap().starved {
                        break;
                    }
                }
            }
        }
        let written = shared.lock().unwrap().written.clone();
        Obs { items, fin, written, polls }
    })
}

fn frame(m: &[u8]) -> Vec<u8> {
    let mut v = (m.len() as u16).to_be_bytes().to_vec();
    v.extend_from_slice(m);
    v
}

fn gen_msgs(r: &mut Rng) -> Vec<Vec<u8>> {
    let k = r.range(1, 3) as usize;
    (0..k)
        .map(|_| {
            let len = if r.chance(1, 2) {
                *r.pick(&[1usize, 2, 3, 255, 256, 300])
            } else {
                r.range(1, 40) as usize
            };
            r.bytes(len)
        })
        .collect()
}

/// split `bytes` into chunks; `style` picks the size distribution
fn chunk(r: &mut Rng, bytes: &[u8]) -> Vec<Vec<u8>> {
    let style = r.below(4);
    let mut out = vec![];
    let mut i = 0;
    while i < bytes.len() {
        let rem = bytes.len() - i;
        let n = match style {
            0 => 1,
            1 => r.range(1, 3) as usize,
            2 => r.range(1, 64) as usize,
            _ => r.range(1, rem as u64) as usize,
        }
        .min(rem);
        out.push(bytes[i..i + n].to_vec());
        i += n;
    }
    out
}

fn rscript_text(s: &[REv]) -> String {
    s.iter()
        .map(|e| match e {
            REv::Pending => "P".to_string(),
            REv::Data(d) => format!("D{}", hex(d)),
            REv::Eof => "EOF".to_string(),
            REv::Err => "ERR".to_string(),
        })
        .collect::<Vec<_>>()
        .join(",")
}
fn rscript_coq(s: &[REv]) -> String {
    coq_list(s.iter().map(|e| match e {
        REv::Pending => "HPending".to_string(),
        REv::Data(d) => format!("HData {}", coq_pb(d)),
        REv::Eof => "HEof".to_string(),
        REv::Err => "HErr".to_string(),
    }))
}
fn wscript_text(s: &[WEv]) -> String {
    s.iter()
        .map(|e| match e {
            WEv::Pend => "P".to_string(),
            WEv::Acc(n) => format!("A{n}"),
            WEv::Err => "ERR".to_string(),
        })
        .collect::<Vec<_>>()
        .join(",")
}
fn wscript_coq(s: &[WEv]) -> String {
    coq_list(s.iter().map(|e| match e {
        WEv::Pend => "WPend".to_string(),
        WEv::Acc(n) => format!("WAcc {n}"),
        WEv::Err => "WErr".to_string(),
    }))
}

fn interleave_pending(r: &mut Rng, chunks: Vec<Vec<u8>>) -> Vec<REv> {
    let p = *r.pick(&[0u64, 1, 3]);
    let mut s = vec![];
    for c in chunks {
        while p > 0 && r.chance(p, 6) {
            s.push(REv::Pending);
        }
        s.push(REv::Data(c));
    }
    while p > 0 && r.chance(p, 6) {
        s.push(REv::Pending);
    }
    s
}

/// all compositions of n (as lists of part sizes), in a fixed order; index selects one
fn composition(n: usize, mut index: u64) -> Vec<usize> {
    // bit i of index set => cut after position i+1
    let mut parts = vec![];
    let mut cur = 1;
    for _ in 1..n {
        if index & 1 == 1 {
            parts.push(cur);
            cur = 1;
        } else {
            cur += 1;
        }
        index >>= 1;
    }
    parts.push(cur);
    parts
}

fn read_case(seed: u64, index: u64, r: &mut Rng, exhaustive: Option<(Vec<Vec<u8>>, u64)>) -> CaseOut {
    // what the byte stream denotes
    let (msgs, mut stream, kind): (Vec<Vec<u8>>, Vec<u8>, &str);
    let mut expect_items: Vec<(u8, Vec<u8>)>;
    let mut expect_fin = 0u8;
    let mut chunks: Vec<Vec<u8>>;
    if let Some((m, comp)) = exhaustive {
        msgs = m;
        stream = msgs.iter().flat_map(|m| frame(m)).collect();
        expect_items = msgs.iter().map(|m| (0, m.clone())).collect();
        kind = "read-allsplits";
        let parts = composition(stream.len(), comp);
        chunks = vec![];
        let mut i = 0;
        for p in parts {
            chunks.push(stream[i..i + p].to_vec());
            i += p;
        }
    } else {
        msgs = gen_msgs(r);
        stream = msgs.iter().flat_map(|m| frame(m)).collect();
        expect_items = msgs.iter().map(|m| (0, m.clone())).collect();
        match r.below(10) {
            0..=4 => kind = "read-wellformed",
            5 | 6 => {
                // close inside the last frame
                let last = frame(msgs.last().unwrap());
                let keep = r.range(1, last.len() as u64 - 1) as usize;
                stream.truncate(stream.len() - last.len() + keep);
                expect_items.pop();
                expect_items.push((if keep < 2 { 1 } else { 2 }, vec![]));
                expect_fin = 1;
                kind = "read-close-inside";
            }
            7 => {
                // zero-length frame after the messages
                stream.extend_from_slice(&[0, 0]);
                let extra = r.range(0, 4) as usize;
                stream.extend(r.bytes(extra));
                expect_items.push((2, vec![]));
                expect_fin = 1;
                kind = "read-zero-frame";
            }
            _ => {
                // arbitrary bytes: no independent expectation beyond the model
                let glen = r.range(0, 40) as usize;
                stream = r.bytes(glen);
                expect_items.clear();
                expect_fin = 255;
                kind = "read-garbage";
            }
        }
        chunks = chunk(r, &stream);
    }
    let mut script = interleave_pending(r, std::mem::take(&mut chunks));
    let ending = if kind == "read-allsplits" { 0 } else { r.below(12) };
    match ending {
        0..=8 => script.push(REv::Eof),
        9 => {
            script.push(REv::Err);
            if expect_fin != 255 {
                // items before the error are unchanged when the whole stream was delivered;
                // the error itself replaces the EOF outcome
                if expect_fin == 1 && kind != "read-zero-frame" {
                    expect_items.pop();
                }
                if kind == "read-zero-frame" {
                    // the zero frame fails before the socket error is seen only if data follows;
                    // leave to the model
                    expect_fin = 255;
                } else {
                    expect_items.push((3, vec![]));
                    expect_fin = 1;
                }
            }
        }
        10 => {
            script.push(REv::Data(vec![]));
        }
        _ => {
            // script just stops: starved
            if expect_fin != 255 {
                if kind == "read-zero-frame" {
                    expect_fin = 255;
                } else {
                    if expect_fin == 1 {
                        expect_items.pop();
                    }
                    expect_fin = 2;
                }
            }
        }
    }
    let obs = run_impl(&[], &script, &[]);
    let text_in = format!("R msgs={} script={}", msgs.iter().map(|m| hex(m)).collect::<Vec<_>>().join("|"), rscript_text(&script));
    let (coq, obs_text, oracle_fail) = match &obs {
        Ok(o) => {
            let items = coq_list(o.items.iter().map(|(t, b)| format!("({t}, {})", coq_pb(b))));
            let coq = format!("CRead {} {} {}", rscript_coq(&script), items, o.fin);
            let otext = format!(
                "items={} fin={}",
                o.items.iter().map(|(t, b)| format!("{t}:{}", hex(b))).collect::<Vec<_>>().join("|"),
                o.fin
            );
            let fail = if expect_fin != 255 && (o.items != expect_items || o.fin != expect_fin) {
                Some(format!(
                    "stream {} delivered as {}: expected items={:?} fin={}, implementation gave {}",
                    kind,
                    rscript_text(&script),
                    expect_items.iter().map(|(t, b)| format!("{t}:{}", hex(b))).collect::<Vec<_>>(),
                    expect_fin,
                    otext
                ))
            } else {
                None
            };
            (coq, otext, fail)
        }
        Err(p) => (
            format!("CRead {} [(9, (PB 0 []))] 9", rscript_coq(&script)),
            format!("PANIC {p}"),
            Some(format!("implementation panicked: {p}")),
        ),
    };
    CaseOut {
        index,
        coq,
        text: format!("seed={seed} index={index} {kind} {text_in} => {obs_text}"),
        key: text_in,
        nontrivial: script.iter().filter(|e| matches!(e, REv::Data(_))).count() >= 2,
        kind: kind.to_string(),
        oracle_fail,
        known: None,
    }
}

fn write_case(seed: u64, index: u64, r: &mut Rng) -> CaseOut {
    let msgs = gen_msgs(r);
    let stream: Vec<u8> = msgs.iter().flat_map(|m| frame(m)).collect();
    let style = r.below(4);
    let mut script = vec![];
    let mut budget = 0usize; // number of accepting calls
    let want = match r.below(6) {
        0 => r.range(0, stream.len() as u64) as usize, // not enough
        _ => stream.len() + 2,
    };
    let mut has_err = false;
    while budget < want {
        if r.chance(1, 5) {
            script.push(WEv::Pend);
            continue;
        }
        if r.chance(1, 200) {
            script.push(WEv::Err);
            has_err = true;
            break;
        }
        let n = match style {
            0 => 1,
            1 => r.range(1, 3) as usize,
            2 => r.range(1, 64) as usize,
            _ => r.range(1, 400) as usize,
        };
        script.push(WEv::Acc(n));
        budget += 1;
    }
    let kind = if has_err {
        "write-error"
    } else if budget >= stream.len() {
        "write-complete"
    } else {
        "write-partial"
    };
    let obs = run_impl(&msgs, &[], &script);
    let text_in = format!(
        "W msgs={} script={}",
        msgs.iter().map(|m| hex(m)).collect::<Vec<_>>().join("|"),
        wscript_text(&script)
    );
    let (coq, obs_text, oracle_fail) = match &obs {
        Ok(o) => {
            let failed = if o.fin == 1 { 1 } else { 0 };
            let coq = format!(
                "CWrite {} {} {} {}",
                coq_list(msgs.iter().map(|m| coq_pb(m))),
                wscript_coq(&script),
                coq_pb(&o.written),
                failed
            );
            let otext = format!("written={} failed={}", hex(&o.written), failed);
            let mut fail = None;
            if !stream.starts_with(&o.written) {
                fail = Some(format!("bytes on the wire are not a prefix of the framed messages: {otext}"));
            } else if kind == "write-complete" && o.written != stream {
                fail = Some(format!("{} accepting calls for {} bytes but only {} written", budget, stream.len(), o.written.len()));
            } else if !has_err && failed == 1 {
                fail = Some("stream failed without a socket error".to_string());
            }
            (coq, otext, fail)
        }
        Err(p) => (
            format!("CWrite {} {} (PB 0 []) 9", coq_list(msgs.iter().map(|m| coq_pb(m))), wscript_coq(&script)),
            format!("PANIC {p}"),
            Some(format!("implementation panicked: {p}")),
        ),
    };
    CaseOut {
        index,
        coq,
        text: format!("seed={seed} index={index} {kind} {text_in} => {obs_text}"),
        key: text_in,
        nontrivial: script.iter().filter(|e| matches!(e, WEv::Acc(_))).count() >= 2,
        kind: kind.to_string(),
        oracle_fail,
        known: None,
    }
}

/// index space: [0, EXH) = all compositions of fixed small streams; then random cases,
/// even = read, odd = write
const EXH_STREAMS: &[&[&[u8]]] = &[&[&[0xaa]], &[&[1, 2, 3]], &[&[9], &[8, 7]], &[&[5], &[6], &[7]], &[&[1, 2, 3, 4, 5, 6, 7, 8, 9, 10, 11]]];

fn exh_count() -> u64 {
    EXH_STREAMS
        .iter()
        .map(|ms| {
            let n: usize = ms.iter().map(|m| m.len() + 2).sum();
            1u64 << (n - 1)
        })
        .sum()
}

fn case(seed: u64, index: u64, exhaustive_on: bool) -> CaseOut {
    let mut r = Rng::for_case(seed, index);
    if exhaustive_on {
        let mut i = index;
        for ms in EXH_STREAMS {
            let n: usize = ms.iter().map(|m| m.len() + 2).sum();
            let c = 1u64 << (n - 1);
            if i < c {
                let msgs = ms.iter().map(|m| m.to_vec()).collect();
                return read_case(seed, index, &mut r, Some((msgs, i)));
            }
            i -= c;
        }
    }
    if index % 2 == 0 {
        read_case(seed, index, &mut r, None)
    } else {
        write_case(seed, index, &mut r)
    }
}

fn main() {
    quiet_panics();
    let args = parse_args();
    let thorough = args.tier == "thorough";
    if let Some((seed, index)) = args.replay {
        let c = case(seed, index, thorough || args.extra.contains_key("exh"));
        println!("{}", c.text);
        println!("COQ {}", c.coq);
        if let Some(f) = c.oracle_fail {
            println!("ORACLE-FAIL {f}");
        }
        return;
    }
    let mut cases = vec![];
    // thorough: every composition of the small streams first (index < exh_count)
    let start = if thorough { 0 } else { exh_count() };
    // quick: a slice of the exhaustive family too
    if !thorough {
        let total = exh_count();
        let step = (total / 400).max(1);
        let mut i = args.seed % step;
        while i < total {
            cases.push(case(args.seed, i, true));
            i += step;
        }
    }
    for index in start..start + args.n + if thorough { exh_count() } else { 0 } {
        cases.push(case(args.seed, index, true));
    }
    emit(
        "C17",
        "C17",
        &args,
        &cases,
        "read cases: 1..3 messages (lengths from {1,2,3,255,256,300} or 1..40) framed, optionally cut inside a frame / followed by a zero-length frame / replaced by garbage, chunked by 4 size distributions with Pending steps, ended by EOF / error / empty read / starvation; plus all 2^(n-1) compositions of 5 fixed small streams (sampled in quick, complete in thorough); write cases: same messages, scripts of WAcc n / Pending / error. Non-trivial = at least two data-carrying socket calls; distinct by (messages, script).",
        serde_json::json!({"exhaustive_family_size": exh_count()}),
    );
}
