//! C14 — journal-backed zone: a history of UPDATE messages runs against a real
//! SqliteZoneHandler with a real SQLite journal; the journal is then cut after every row
//! (a crash: each INSERT is its own commit) and a fresh handler recovers from the prefix.
//! Observation: the journal rows, the live (rcode, serial, zone) after every message, and per
//! cut: recovery ok?, serial, zone; plus a continuation history on one recovered handler.
//! Every 8th case uses a journal FILE, cuts it with `DELETE FROM records WHERE rowid > k` on a
//! copy and reopens it through SqliteZoneHandler::try_from_config; the others use `:memory:`
//! journals filled with the first k rows and recover_with_journal.

#[path = "../c12_shared.rs"]
mod shared;
use std::path::{Path, PathBuf};

use futures_executor::block_on;
use hickory_proto::rr::{Record, RecordType};
use hickory_server::store::sqlite::{Journal, SqliteConfig, SqliteZoneHandler};
use hickory_server::zone_handler::{AxfrPolicy, ZoneHandler, ZoneType};
use shared::*;
use vph::*;

fn mrr_of_record(r: &Record) -> MRr {
    MRr { name: id_of_name(&r.name), class: u16::from(r.dns_class), ttl: r.ttl, rtype: u16::from(r.record_type()), data: data_of_rdata(&r.data) }
}

fn journal_rows(h: &SqliteZoneHandler) -> Vec<Record> {
    let guard = block_on(h.journal());
    guard.as_ref().map(|j| j.iter().collect()).unwrap_or_default()
}

/// live handler over `init` with a fresh journal (memory or file), initial dump persisted
fn live_handler(init: &[MRr], file: Option<&Path>) -> SqliteZoneHandler {
    let mut h = new_handler(init);
    let journal = match file {
        Some(p) => Journal::from_file(p).expect("journal file"),
        None => Journal::from_file(Path::new(":memory:")).expect("journal"),
    };
    block_on(h.set_journal(journal));
    block_on(h.persist_to_journal()).expect("persist");
    h
}

/// recover from the first k rows; Err = recovery failed
fn recover_mem(rows: &[Record], k: usize) -> Result<SqliteZoneHandler, String> {
    let journal = Journal::from_file(Path::new(":memory:")).map_err(|e| e.to_string())?;
    for r in &rows[..k] {
        journal.insert_record(0, r).map_err(|e| e.to_string())?;
    }
    let mut h = SqliteZoneHandler::new(empty_in_memory(), AxfrPolicy::Deny, true, false);
    let res = std::panic::catch_unwind(std::panic::AssertUnwindSafe(|| block_on(h.recover_with_journal(&journal))));
    match res {
        Ok(Ok(())) => {}
        Ok(Err(e)) => return Err(e.to_string()),
        Err(_) => return Err("panic during recovery".into()),
    }
    block_on(h.set_journal(journal));
    h.set_tsig_signers(vec![signer()]);
    Ok(h)
}

/// copy the journal file, delete rows > k, reopen through try_from_config
fn recover_file(live: &Path, k: usize, scratch: &Path) -> Result<SqliteZoneHandler, String> {
    let copy = scratch.join(format!("cut{k}.jrnl"));
    let _ = std::fs::remove_file(&copy);
    std::fs::copy(live, &copy).map_err(|e| e.to_string())?;
    {
        let j = Journal::from_file(&copy).map_err(|e| e.to_string())?;
        j.conn().execute("DELETE FROM records WHERE rowid > ?1", [k as i64]).map_err(|e| e.to_string())?;
    }
    let cfg = SqliteConfig { zone_path: PathBuf::from("/nonexistent.zone"), journal_path: copy.clone(), allow_update: true, tsig_keys: vec![] };
    let res = std::panic::catch_unwind(std::panic::AssertUnwindSafe(|| {
        block_on(SqliteZoneHandler::try_from_config(name_of(&origin_id()), ZoneType::Primary, AxfrPolicy::Deny, false, None, &cfg, None))
    }));
    let out = match res {
        Ok(Ok(mut h)) => {
            h.set_tsig_signers(vec![signer()]);
            Ok(h)
        }
        Ok(Err(e)) => Err(e),
        Err(_) => Err("panic during recovery".into()),
    };
    out
}

struct Live {
    rcode: u16,
    serial: u32,
    dump: Dump,
    rows_after: usize,
}

struct Cut {
    k: usize,
    ok: bool,
    serial: u32,
    dump: Dump,
}

fn case(seed: u64, index: u64) -> CaseOut {
    let mut r = Rng::for_case(seed, index);
    let hist = if index < FIXED { fixed_history(index) } else { gen_history(&mut r, 5) };
    let use_file = index % 8 == 0;
    let scratch = std::env::temp_dir().join(format!("c14-{}-{}-{}", std::process::id(), seed, index));
    if use_file {
        let _ = std::fs::remove_dir_all(&scratch);
        std::fs::create_dir_all(&scratch).unwrap();
    }
    let live_path = scratch.join("live.jrnl");
    let ovf = overflow_panics();

    // ---- the live run
    let h = live_handler(&hist.init, if use_file { Some(&live_path) } else { None });
    let d0 = dump(&h);
    // the model is built from the records in dump order (= the order of the initial journal rows)
    let init_model: Vec<MRr> = d0
        .iter()
        .flat_map(|(n, t, recs)| recs.iter().map(move |(d, ttl)| MRr { name: n.clone(), class: C_IN, ttl: *ttl, rtype: *t, data: d.clone() }))
        .collect();
    let n0 = journal_rows(&h).len();
    let mut lives = vec![];
    for (i, m) in hist.msgs.iter().enumerate() {
        let rcode = do_update(&h, m, 100 + i as u16);
        lives.push(Live { rcode, serial: block_on(h.serial()), dump: dump(&h), rows_after: journal_rows(&h).len() });
    }
    let rows = journal_rows(&h);
    let mrows: Vec<MRr> = rows.iter().map(mrr_of_record).collect();
    drop(h);

    // boundaries: after the initial dump and after every message that did not panic
    let mut boundaries: Vec<(usize, usize)> = vec![(n0, 0)]; // (row count, number of whole messages)
    for (i, l) in lives.iter().enumerate() {
        if l.rcode != 99 {
            boundaries.push((l.rows_after, i + 1));
        } else {
            break;
        }
    }
    let state_at = |nmsg: usize| -> (&Dump, u32) {
        if nmsg == 0 {
            (&d0, dump_serial(&d0))
        } else {
            (&lives[nmsg - 1].dump, lives[nmsg - 1].serial)
        }
    };

    // ---- cuts: every boundary, plus up to 4 others
    let mut ks: Vec<usize> = boundaries.iter().map(|b| b.0).collect();
    for _ in 0..4 {
        ks.push(r.below(rows.len() as u64 + 1) as usize);
    }
    ks.sort();
    ks.dedup();
    let mut cuts = vec![];
    let mut oracle_fail: Option<String> = None;
    let mut known: Option<String> = None;
    let mut note = |why: String, k: Option<&str>, oracle_fail: &mut Option<String>, known: &mut Option<String>| {
        if oracle_fail.is_none() || (known.is_some() && k.is_none()) {
            *oracle_fail = Some(why);
            *known = k.map(|s| s.to_string());
        }
    };
    for &k in &ks {
        let rec = if use_file { recover_file(&live_path, k, &scratch) } else { recover_mem(&rows, k) };
        match rec {
            Err(e) => {
                cuts.push(Cut { k, ok: false, serial: 0, dump: vec![] });
                note(format!("recovery from the first {k} of {} journal rows failed: {e}", rows.len()), None, &mut oracle_fail, &mut known);
            }
            Ok(hr) => {
                let d = dump(&hr);
                let s = block_on(hr.serial());
                // the property: the recovered zone is the zone at a boundary between whole messages
                let here = boundaries.iter().filter(|b| b.0 == k).map(|b| b.1).last();
                let matches_some = boundaries.iter().any(|b| b.0 <= k && rzone_of(state_at(b.1).0) == rzone_of(&d) && state_at(b.1).1 == s);
                match here {
                    Some(nmsg) => {
                        let (ld, ls) = state_at(nmsg);
                        if rzone_of(ld) != rzone_of(&d) || *ld != d && rzone_of(ld) != rzone_of(&d) {
                            note(format!("cut after {k} rows = after {nmsg} whole messages: recovered zone {} differs from the zone the server held {}", txt_dump(&d), txt_dump(ld)), None, &mut oracle_fail, &mut known);
                        } else if ls != s {
                            let kn: Option<&str> = None; // C14-serial-wrap-replay is repaired (fix 118f816)
                            note(format!("cut after {k} rows = after {nmsg} whole messages: recovered serial {s}, the server had answered with {ls}"), kn, &mut oracle_fail, &mut known);
                        }
                    }
                    None => {
                        if !matches_some {
                            let kn = if k < n0 { "C14-cut-inside-initial-dump" } else { "C14-cut-inside-message" };
                            note(format!("cut after {k} rows (inside {}): recovered zone/serial {} / {s} is not the state at any whole-message boundary", if k < n0 { "the initial dump" } else { "a message" }, txt_dump(&d)), Some(kn), &mut oracle_fail, &mut known);
                        }
                    }
                }
                cuts.push(Cut { k, ok: true, serial: s, dump: d });
            }
        }
    }

    // ---- continuation after recovery at one cut: must behave as if no restart had happened
    let cont: Vec<MMsg> = {
        let mut known_rrs = hist.init.clone();
        for m in &hist.msgs {
            known_rrs.extend(m.upd.iter().filter(|u| u.class == C_IN && u.rtype != T_SOA).cloned());
        }
        (0..r.range(1, 2))
            .map(|_| {
                let nupd = r.range(1, 2);
                MMsg { auth: true, pre: if r.chance(1, 3) { vec![normalise(gen_prereq(&mut r, &known_rrs, false))] } else { vec![] }, upd: (0..nupd).map(|_| normalise(gen_update(&mut r, &known_rrs, 0, false))).collect() }
            })
            .collect()
    };
    let bi = r.below(boundaries.len() as u64) as usize;
    let (kc, nmsg) = if r.chance(3, 4) { boundaries[bi] } else { (*r.pick(&ks), usize::MAX) };
    let mut cont_obs: Vec<(u16, u32, Dump)> = vec![];
    let rec = if use_file { recover_file(&live_path, kc, &scratch) } else { recover_mem(&rows, kc) };
    if let Ok(hr) = rec {
        for (i, m) in cont.iter().enumerate() {
            let rc = do_update(&hr, m, 200 + i as u16);
            cont_obs.push((rc, block_on(hr.serial()), dump(&hr)));
        }
        if nmsg != usize::MAX {
            // the uninterrupted run: same history prefix, then the same continuation
            let hu = live_handler(&hist.init, None);
            for (i, m) in hist.msgs[..nmsg].iter().enumerate() {
                do_update(&hu, m, 100 + i as u16);
            }
            for (i, m) in cont.iter().enumerate() {
                let rc = do_update(&hu, m, 200 + i as u16);
                let (s, d) = (block_on(hu.serial()), dump(&hu));
                let o = &cont_obs[i];
                if (rc, s, rzone_of(&d)) != (o.0, o.1, rzone_of(&o.2)) {
                    let kn: Option<&str> = None; // C14-serial-wrap-replay is repaired (fix 118f816)
                    note(
                        format!("after recovery at row {kc} (= {nmsg} whole messages) message {} answered rc{}/s{} zone {}; without the restart rc{rc}/s{s} zone {}", txt_msg(m), o.0, o.1, txt_dump(&o.2), txt_dump(&d)),
                        kn,
                        &mut oracle_fail,
                        &mut known,
                    );
                    break;
                }
            }
        }
    }
    if use_file {
        let _ = std::fs::remove_dir_all(&scratch);
    }

    // ---- packed case
    let mut e = Enc::default();
    e.num(ovf as u64);
    e.name(&origin_id());
    e.rrs(&init_model);
    e.msgs(&hist.msgs);
    e.dump(&d0);
    e.num(n0 as u64);
    e.rrs(&mrows);
    // live observations; dumps are numbered 0 = d0, i = after message i
    e.num(lives.len() as u64);
    let mut prev = &d0;
    for l in &lives {
        e.num(l.rcode as u64);
        e.num(l.serial as u64);
        e.num(l.rows_after as u64);
        e.opt_dump(&l.dump, prev);
        prev = &l.dump;
    }
    // cuts: k, ok, serial, then 0 + dump, or 1 + i = same as live dump number i
    e.num(cuts.len() as u64);
    for c in &cuts {
        e.num(c.k as u64);
        e.num(c.ok as u64);
        e.num(c.serial as u64);
        let same = std::iter::once(&d0).chain(lives.iter().map(|l| &l.dump)).position(|d| *d == c.dump);
        match same {
            Some(i) => e.num(1 + i as u64),
            None => {
                e.num(0);
                e.dump(&c.dump);
            }
        }
    }
    // continuation
    e.num(kc as u64);
    e.msgs(&cont[..cont_obs.len()]);
    e.num(cont_obs.len() as u64);
    for (rc, s, d) in &cont_obs {
        e.num(*rc as u64);
        e.num(*s as u64);
        e.dump(d);
    }
    let coq = format!("CPacked {}", coq_pb(&e.0));
    let key = format!(
        "init[{}] {} | cont@{kc} {}",
        hist.init.iter().map(txt_rr).collect::<Vec<_>>().join(" "),
        hist.msgs.iter().map(txt_msg).collect::<Vec<_>>().join(" ; "),
        cont.iter().map(txt_msg).collect::<Vec<_>>().join(" ; ")
    );
    let out = format!(
        "rows={} n0={n0} live={} cuts={} cont={}",
        rows.len(),
        lives.iter().map(|l| format!("rc{}/s{}/r{}", l.rcode, l.serial, l.rows_after)).collect::<Vec<_>>().join(","),
        cuts.iter().map(|c| format!("{}:{}s{}", c.k, if c.ok { "ok" } else { "ERR" }, c.serial)).collect::<Vec<_>>().join(","),
        cont_obs.iter().map(|c| format!("rc{}/s{}", c.0, c.1)).collect::<Vec<_>>().join(",")
    );
    let kind = format!("{}{}", hist.kind, if use_file { "+file" } else { "" });
    CaseOut {
        index,
        coq,
        text: format!("seed={seed} index={index} {kind} {key} => {out}"),
        key,
        nontrivial: lives.iter().filter(|l| l.rcode == 0 && l.rows_after > n0).count() >= 1 && cuts.len() >= 3,
        kind,
        oracle_fail,
        known,
    }
}

fn main() {
    quiet_panics();
    let args = parse_args();
    let _ = RecordType::A;
    if let Some((seed, index)) = args.replay {
        let c = case(seed, index);
        println!("{}", c.text);
        println!("COQ {}", c.coq);
        if let Some(f) = c.oracle_fail {
            if let Some(k) = c.known {
                println!("KNOWN {k} {f}");
            } else {
                println!("ORACLE-FAIL {f}");
            }
        }
        return;
    }
    if std::env::var("VPH_SHARD").is_err() {
        std::env::set_var("VPH_SHARD", ((args.n as usize + FIXED as usize) / 16 + 1).max(30).to_string());
    }
    let cases: Vec<CaseOut> = (0..args.n + FIXED).map(|i| case(args.seed, i)).collect();
    if args.extra.contains_key("probe") {
        let mut hist: std::collections::BTreeMap<String, (u64, String)> = Default::default();
        for c in &cases {
            if let Some(f) = &c.oracle_fail {
                let why: String = f.chars().filter(|c| !c.is_ascii_digit()).take(80).collect();
                let e = hist.entry(format!("{:?} {}", c.known, why)).or_insert((0, format!("{} || {}", f, c.text)));
                e.0 += 1;
            }
        }
        for (k, (n, ex)) in hist {
            println!("{n:6} {k}\n        e.g. {}", &ex[..ex.len().min(1500)]);
        }
        return;
    }
    emit(
        "C14",
        "C14",
        &args,
        &cases,
        "histories as in C12 (1..5 messages, same generators and fixed witnesses) against a handler with a real SQLite journal (initial dump persisted); the journal is cut after k rows for every whole-message boundary k and up to 4 other k (inside the initial dump / inside a message / before the post-update SOA row) and a fresh handler recovers from the prefix (every 8th case: journal file, DELETE rows, SqliteZoneHandler::try_from_config; otherwise :memory: journals and recover_with_journal); then 1..2 further messages run on one recovered handler and, for boundary cuts, on an uninterrupted twin. Non-trivial = some accepted message wrote rows and at least 3 cuts; distinct by (initial zone, messages, continuation).",
        serde_json::json!({"overflow_checks": overflow_panics()}),
    );
}
