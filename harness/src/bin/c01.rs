//! C01 — wire decoding is total.
//!
//! Case = (entry point, skip, bytes).  The real decoder is run on the bytes through every
//! public entry point that accepts network bytes (Message::from_vec, the server path
//! Request::from_bytes, Record::read, Name::read, RData::read for every record type) inside
//! catch_unwind on a watched worker thread.  Observation = Ok(canonical dump of the decoded
//! value, bytes consumed) or Err(class of DecodeError); the same case is re-run on the
//! Gallina model inside Coq.  Direct oracle (independent of the model): no panic, returns
//! within a time budget linear in the input length, every decoded name <= 255 octets on the
//! wire with labels of 1..=63 octets.

use std::net::SocketAddr;
use std::sync::mpsc;
use std::time::{Duration, Instant};

use hickory_proto::dnssec::rdata::DNSSECRData;
use hickory_proto::dnssec::PublicKey;
use hickory_proto::op::{Edns, Message, Metadata, MessageType, Query};
use hickory_proto::rr::rdata::opt::EdnsOption;
use hickory_proto::rr::rdata::svcb::{SvcParamValue, SVCB};
use hickory_proto::rr::rdata::TSIG;
use hickory_proto::rr::{Name, RData, Record, RecordType};
use hickory_proto::serialize::binary::{BinDecodable, BinDecoder, DecodeError};
use hickory_proto::ProtoError;
use hickory_server::net::xfer::Protocol;
use hickory_server::server::Request;
use vph::*;

// ----------------------------------------------------------------------------- entries

#[derive(Clone, Copy, Debug, PartialEq)]
enum Entry {
    Message,
    Request,
    Record,
    Name,
    RData(u16),
}

impl Entry {
    fn coq(&self) -> String {
        match self {
            Entry::Message => "EMessage".into(),
            Entry::Request => "ERequest".into(),
            Entry::Record => "ERecord".into(),
            Entry::Name => "EName".into(),
            Entry::RData(t) => format!("(ERData {t})"),
        }
    }
    fn text(&self) -> String {
        match self {
            Entry::Message => "message".into(),
            Entry::Request => "request".into(),
            Entry::Record => "record".into(),
            Entry::Name => "name".into(),
            Entry::RData(t) => format!("rdata:{t}"),
        }
    }
}

// ----------------------------------------------------------------------------- dumps

fn d16(out: &mut Vec<u8>, v: u16) {
    out.extend_from_slice(&v.to_be_bytes());
}
fn d32(out: &mut Vec<u8>, v: u32) {
    out.extend_from_slice(&v.to_be_bytes());
}
fn dbytes(out: &mut Vec<u8>, b: &[u8]) {
    d32(out, b.len() as u32);
    out.extend_from_slice(b);
}
fn dbool(out: &mut Vec<u8>, b: bool) {
    out.push(b as u8);
}

/// collects every decoded name for the bounds oracle
struct Ctx {
    out: Vec<u8>,
    names: Vec<Name>,
}

impl Ctx {
    fn new() -> Self {
        Ctx { out: vec![], names: vec![] }
    }
    fn name(&mut self, n: &Name) {
        for l in n.iter() {
            self.out.push(l.len() as u8);
            self.out.extend_from_slice(l);
        }
        self.out.push(0);
        self.names.push(n.clone());
    }
    fn type_set(&mut self, it: impl Iterator<Item = RecordType>) {
        let mut v: Vec<u16> = it.map(u16::from).collect();
        v.sort();
        v.dedup();
        for t in v {
            d16(&mut self.out, t);
        }
    }
    fn query(&mut self, q: &Query) {
        self.name(&q.name);
        d16(&mut self.out, q.query_type.into());
        d16(&mut self.out, q.query_class.into());
    }
    fn meta(&mut self, m: &Metadata) {
        d16(&mut self.out, m.id);
        dbool(&mut self.out, m.message_type == MessageType::Response);
        self.out.push(u8::from(m.op_code));
        dbool(&mut self.out, m.authoritative);
        dbool(&mut self.out, m.truncation);
        dbool(&mut self.out, m.recursion_desired);
        dbool(&mut self.out, m.recursion_available);
        dbool(&mut self.out, m.authentic_data);
        dbool(&mut self.out, m.checking_disabled);
        d16(&mut self.out, u16::from(m.response_code));
    }
    fn svcb(&mut self, s: &SVCB) {
        d16(&mut self.out, s.svc_priority);
        self.name(&s.target_name);
        d16(&mut self.out, s.svc_params.len() as u16);
        for (k, v) in &s.svc_params {
            d16(&mut self.out, u16::from(*k));
            let mut val = vec![];
            match v {
                SvcParamValue::Mandatory(m) => {
                    for k in &m.0 {
                        d16(&mut val, u16::from(*k));
                    }
                }
                SvcParamValue::Alpn(a) => {
                    for s in &a.0 {
                        dbytes(&mut val, s.as_bytes());
                    }
                }
                SvcParamValue::NoDefaultAlpn => {}
                SvcParamValue::Port(p) => d16(&mut val, *p),
                SvcParamValue::Ipv4Hint(h) => {
                    for a in &h.0 {
                        val.extend_from_slice(&a.0.octets());
                    }
                }
                SvcParamValue::EchConfigList(e) => val.extend_from_slice(&e.0),
                SvcParamValue::Ipv6Hint(h) => {
                    for a in &h.0 {
                        val.extend_from_slice(&a.0.octets());
                    }
                }
                SvcParamValue::Unknown(u) => val.extend_from_slice(&u.0),
            }
            dbytes(&mut self.out, &val);
        }
    }
    fn tsig(&mut self, t: &TSIG) {
        // the algorithm name is decoded (collected by the model too) but not dumped
        d16(&mut self.out, (t.time >> 32) as u16);
        d32(&mut self.out, t.time as u32);
        d16(&mut self.out, t.fudge);
        dbytes(&mut self.out, &t.mac);
        d16(&mut self.out, t.oid);
        d16(&mut self.out, t.error.map(u16::from).unwrap_or(0));
        dbytes(&mut self.out, &t.other);
    }
    fn opt(&mut self, o: &hickory_proto::rr::rdata::OPT) {
        d16(&mut self.out, o.options.len() as u16);
        for (code, opt) in &o.options {
            d16(&mut self.out, u16::from(*code));
            match opt {
                EdnsOption::Subnet(s) => {
                    let (fam, oct): (u16, Vec<u8>) = match s.addr() {
                        std::net::IpAddr::V4(a) => (1, a.octets().to_vec()),
                        std::net::IpAddr::V6(a) => (2, a.octets().to_vec()),
                    };
                    d16(&mut self.out, fam);
                    self.out.push(s.source_prefix());
                    self.out.push(s.scope_prefix());
                    self.out.extend_from_slice(&oct);
                }
                EdnsOption::DAU(_) => {}
                EdnsOption::NSID(p) => dbytes(&mut self.out, p.as_ref()),
                EdnsOption::Unknown(_, d) => dbytes(&mut self.out, d),
                _ => self.out.extend_from_slice(b"?unhandled-edns-option"),
            }
        }
    }
    fn rdata(&mut self, d: &RData) {
        match d {
            RData::A(a) => self.out.extend_from_slice(&a.0.octets()),
            RData::AAAA(a) => self.out.extend_from_slice(&a.0.octets()),
            RData::ANAME(n) => self.name(&n.0),
            RData::CNAME(n) => self.name(&n.0),
            RData::NS(n) => self.name(&n.0),
            RData::PTR(n) => self.name(&n.0),
            RData::CAA(c) => {
                self.out.push(c.flags());
                dbytes(&mut self.out, c.tag.as_bytes());
                dbytes(&mut self.out, &c.value);
            }
            RData::CERT(c) => {
                d16(&mut self.out, u16::from(c.cert_type));
                d16(&mut self.out, c.key_tag);
                self.out.push(u8::from(c.algorithm));
                dbytes(&mut self.out, &c.cert_data);
            }
            RData::CSYNC(c) => {
                d32(&mut self.out, c.soa_serial);
                d16(&mut self.out, c.flags());
                self.type_set(c.type_bit_maps.iter());
            }
            RData::HINFO(h) => {
                dbytes(&mut self.out, &h.cpu);
                dbytes(&mut self.out, &h.os);
            }
            RData::HTTPS(h) => self.svcb(&h.0),
            RData::SVCB(s) => self.svcb(s),
            RData::MX(m) => {
                d16(&mut self.out, m.preference);
                self.name(&m.exchange);
            }
            RData::NAPTR(n) => {
                d16(&mut self.out, n.order);
                d16(&mut self.out, n.preference);
                dbytes(&mut self.out, &n.flags);
                dbytes(&mut self.out, &n.services);
                dbytes(&mut self.out, &n.regexp);
                self.name(&n.replacement);
            }
            RData::NULL(n) => dbytes(&mut self.out, &n.anything),
            RData::OPENPGPKEY(k) => dbytes(&mut self.out, &k.public_key),
            RData::OPT(o) => self.opt(o),
            RData::SMIMEA(s) => {
                self.out.push(u8::from(s.0.cert_usage));
                self.out.push(u8::from(s.0.selector));
                self.out.push(u8::from(s.0.matching));
                dbytes(&mut self.out, &s.0.cert_data);
            }
            RData::TLSA(s) => {
                self.out.push(u8::from(s.cert_usage));
                self.out.push(u8::from(s.selector));
                self.out.push(u8::from(s.matching));
                dbytes(&mut self.out, &s.cert_data);
            }
            RData::SOA(s) => {
                self.name(&s.mname);
                self.name(&s.rname);
                d32(&mut self.out, s.serial);
                d32(&mut self.out, s.refresh as u32);
                d32(&mut self.out, s.retry as u32);
                d32(&mut self.out, s.expire as u32);
                d32(&mut self.out, s.minimum);
            }
            RData::SRV(s) => {
                d16(&mut self.out, s.priority);
                d16(&mut self.out, s.weight);
                d16(&mut self.out, s.port);
                self.name(&s.target);
            }
            RData::SSHFP(s) => {
                self.out.push(u8::from(s.algorithm));
                self.out.push(u8::from(s.fingerprint_type));
                dbytes(&mut self.out, &s.fingerprint);
            }
            RData::TSIG(t) => {
                self.names.push(t.algorithm.to_name());
                self.tsig(t)
            }
            RData::TXT(t) => {
                d16(&mut self.out, t.txt_data.len() as u16);
                for s in t.txt_data.iter() {
                    dbytes(&mut self.out, s);
                }
            }
            RData::DNSSEC(d) => match d {
                DNSSECRData::DNSKEY(k) => {
                    d16(&mut self.out, k.flags());
                    self.out.push(u8::from(k.public_key().algorithm()));
                    dbytes(&mut self.out, k.public_key().public_bytes());
                }
                DNSSECRData::CDNSKEY(k) => {
                    d16(&mut self.out, k.flags());
                    match k.public_key() {
                        None => self.out.push(0),
                        Some(pk) => {
                            self.out.push(u8::from(pk.algorithm()));
                            dbytes(&mut self.out, pk.public_bytes());
                        }
                    }
                }
                DNSSECRData::DS(d) => {
                    d16(&mut self.out, d.key_tag());
                    self.out.push(u8::from(d.algorithm()));
                    self.out.push(u8::from(d.digest_type()));
                    dbytes(&mut self.out, d.digest());
                }
                DNSSECRData::CDS(d) => {
                    d16(&mut self.out, d.key_tag());
                    self.out.push(d.algorithm().map(u8::from).unwrap_or(0));
                    self.out.push(u8::from(d.digest_type()));
                    dbytes(&mut self.out, d.digest());
                }
                DNSSECRData::KEY(k) => {
                    self.out.push(u8::from(k.protocol()));
                    self.out.push(u8::from(k.algorithm()));
                    dbytes(&mut self.out, k.public_key());
                }
                DNSSECRData::NSEC(n) => {
                    self.name(n.next_domain_name());
                    self.type_set(n.type_bit_maps());
                }
                DNSSECRData::NSEC3(n) => {
                    self.out.push(n.flags());
                    d16(&mut self.out, n.iterations());
                    dbytes(&mut self.out, n.salt());
                    dbytes(&mut self.out, n.next_hashed_owner_name());
                    self.type_set(n.type_bit_maps());
                }
                DNSSECRData::NSEC3PARAM(n) => {
                    self.out.push(n.flags());
                    d16(&mut self.out, n.iterations());
                    dbytes(&mut self.out, n.salt());
                }
                DNSSECRData::RRSIG(r) => self.sig(r),
                DNSSECRData::SIG(s) => self.sig(s),
                _ => self.out.extend_from_slice(b"?unhandled-dnssec-rdata"),
            },
            RData::Unknown { rdata, .. } => dbytes(&mut self.out, &rdata.anything),
            #[allow(deprecated)]
            RData::ZERO => {}
            RData::Update0(_) => self.out.extend_from_slice(b"?update0-inside-rdata"),
            _ => self.out.extend_from_slice(b"?unhandled-rdata"),
        }
    }
    fn sig(&mut self, s: &hickory_proto::dnssec::rdata::SIG) {
        let i = s.input();
        d16(&mut self.out, u16::from(i.type_covered));
        self.out.push(u8::from(i.algorithm));
        self.out.push(i.num_labels);
        d32(&mut self.out, i.original_ttl);
        d32(&mut self.out, i.sig_expiration.get());
        d32(&mut self.out, i.sig_inception.get());
        d16(&mut self.out, i.key_tag);
        self.name(&i.signer_name);
        dbytes(&mut self.out, s.sig());
    }
    fn record(&mut self, r: &Record) {
        self.name(&r.name);
        d16(&mut self.out, u16::from(r.record_type()));
        d16(&mut self.out, u16::from(r.dns_class));
        d32(&mut self.out, r.ttl);
        match &r.data {
            RData::Update0(_) => self.out.push(0),
            d => {
                self.out.push(1);
                self.rdata(d);
            }
        }
    }
    fn records(&mut self, rs: &[Record]) {
        d16(&mut self.out, rs.len() as u16);
        for r in rs {
            self.record(r);
        }
    }
    fn edns(&mut self, e: &Option<Edns>) {
        match e {
            None => self.out.push(0),
            Some(e) => {
                self.out.push(1);
                self.out.push(e.rcode_high());
                self.out.push(e.version());
                d16(&mut self.out, u16::from(*e.flags()));
                d16(&mut self.out, e.max_payload());
                self.opt(e.options());
            }
        }
    }
    fn signature(&mut self, s: &Option<Box<Record<TSIG>>>) {
        match s {
            None => self.out.push(0),
            Some(r) => {
                self.out.push(1);
                self.name(&r.name);
                d16(&mut self.out, 250);
                d16(&mut self.out, u16::from(r.dns_class));
                d32(&mut self.out, r.ttl);
                self.out.push(1);
                self.names.push(r.data.algorithm.to_name());
                self.tsig(&r.data);
            }
        }
    }
}

// ----------------------------------------------------------------------------- running the implementation

#[derive(Clone, Debug, PartialEq)]
enum Obs {
    /// dump, bytes consumed (Name / Record entries; 0 elsewhere)
    Ok(Vec<u8>, usize),
    Err(&'static str),
}

struct Outcome {
    obs: Obs,
    /// violations of the name bounds found by walking the decoded value
    bad_names: Vec<String>,
    nanos: u128,
    n_names: usize,
}

fn err_class(e: &DecodeError) -> &'static str {
    use DecodeError::*;
    match e {
        InsufficientBytes => "EInsufficient",
        PointerNotPriorToLabel { .. } => "EPtrNotPrior",
        LabelOverlapsWithOther { .. } => "EOverlap",
        UnrecognizedLabelCode(_) => "EUnrecLabel",
        LabelBytesTooLong(_) => "ELabelTooLong",
        DomainNameTooLong(_) => "ENameTooLong",
        IncorrectRDataLengthRead { .. } => "ERdLen",
        EdnsNameNotRoot(_) => "EEdnsNotRoot",
        InvalidEmptyRecord => "EEmptyRecord",
        RecordAfterSig => "ERecordAfterSig",
        RecordNotInAdditionalSection(_) => "ENotInAdditional",
        DuplicateEdns => "EDupEdns",
        BadQueryCount(_) => "EBadQueryCount",
        UnknownRecordTypeValue(_) => "EUnknownType",
        InvalidPreviousIndex => "EPrevIndex",
        _ => "EOther",
    }
}

fn proto_err_class(e: &ProtoError) -> &'static str {
    match e {
        ProtoError::Decode(d) => err_class(d),
        _ => "EOther",
    }
}

fn check_names(names: &[Name]) -> Vec<String> {
    let mut bad = vec![];
    for n in names {
        let mut wire = 1usize;
        for l in n.iter() {
            if l.is_empty() || l.len() > 63 {
                bad.push(format!("label of {} octets in decoded name {}", l.len(), n));
            }
            wire += 1 + l.len();
        }
        if wire > 255 {
            bad.push(format!("decoded name of {wire} octets"));
        }
    }
    bad
}

/// runs one entry point of the real decoder (panics propagate to the caller's catch_unwind)
fn run_entry(entry: Entry, skip: usize, bytes: &[u8]) -> Outcome {
    let mut ctx = Ctx::new();
    let t0 = Instant::now();
    let obs: Obs;
    let nanos;
    match entry {
        Entry::Message => {
            let r = Message::from_vec(bytes);
            nanos = t0.elapsed().as_nanos();
            obs = match r {
                Ok(m) => {
                    ctx.meta(&m.metadata);
                    d16(&mut ctx.out, m.queries.len() as u16);
                    for q in &m.queries {
                        ctx.query(q);
                    }
                    ctx.records(&m.answers);
                    ctx.records(&m.authorities);
                    ctx.records(&m.additionals);
                    ctx.edns(&m.edns);
                    ctx.signature(&m.signature);
                    Obs::Ok(std::mem::take(&mut ctx.out), 0)
                }
                Err(e) => Obs::Err(err_class(&e)),
            };
        }
        Entry::Request => {
            let src: SocketAddr = "192.0.2.7:5353".parse().unwrap();
            let r = Request::from_bytes(bytes.to_vec(), src, Protocol::Udp);
            nanos = t0.elapsed().as_nanos();
            obs = match r {
                Ok(req) => {
                    let m: &hickory_proto::op::MessageRequest = &req;
                    ctx.meta(&m.metadata);
                    d16(&mut ctx.out, 1);
                    ctx.query(m.queries.original());
                    dbytes(&mut ctx.out, m.queries.as_bytes());
                    ctx.records(&m.answers);
                    ctx.records(&m.authorities);
                    ctx.records(&m.additionals);
                    ctx.edns(&m.edns);
                    ctx.signature(&m.signature);
                    Obs::Ok(std::mem::take(&mut ctx.out), 0)
                }
                Err(e) => Obs::Err(proto_err_class(&e)),
            };
        }
        Entry::Record => {
            let mut d = BinDecoder::new(bytes);
            let _ = d.read_slice(skip);
            let r = Record::read(&mut d);
            nanos = t0.elapsed().as_nanos();
            obs = match r {
                Ok(rec) => {
                    ctx.record(&rec);
                    Obs::Ok(std::mem::take(&mut ctx.out), d.index())
                }
                Err(e) => Obs::Err(err_class(&e)),
            };
        }
        Entry::Name => {
            let mut d = BinDecoder::new(bytes);
            let _ = d.read_slice(skip);
            let r = Name::read(&mut d);
            nanos = t0.elapsed().as_nanos();
            obs = match r {
                Ok(n) => {
                    ctx.name(&n);
                    Obs::Ok(std::mem::take(&mut ctx.out), d.index())
                }
                Err(e) => Obs::Err(err_class(&e)),
            };
        }
        Entry::RData(t) => {
            let mut d = BinDecoder::new(bytes);
            let _ = d.read_slice(skip);
            let r = RData::read(d, RecordType::from(t));
            nanos = t0.elapsed().as_nanos();
            obs = match r {
                Ok(rd) => {
                    ctx.rdata(&rd);
                    Obs::Ok(std::mem::take(&mut ctx.out), 0)
                }
                Err(e) => Obs::Err(err_class(&e)),
            };
        }
    }
    Outcome { obs, bad_names: check_names(&ctx.names), nanos, n_names: ctx.names.len() }
}

enum Ran {
    Done(Outcome),
    Panicked(String),
    Hung,
}

/// Worker thread so that a decoder that does not return is detected instead of hanging the
/// harness; a hung worker is abandoned (the process exits at the end of main).
struct Worker {
    tx: mpsc::Sender<(Entry, usize, Vec<u8>)>,
    rx: mpsc::Receiver<Result<Outcome, String>>,
}

impl Worker {
    fn spawn() -> Self {
        let (tx, jrx) = mpsc::channel::<(Entry, usize, Vec<u8>)>();
        let (rtx, rx) = mpsc::channel();
        std::thread::Builder::new()
            .stack_size(64 << 20)
            .spawn(move || {
                while let Ok((e, skip, bytes)) = jrx.recv() {
                    let r = guard(move || run_entry(e, skip, &bytes));
                    if rtx.send(r).is_err() {
                        break;
                    }
                }
            })
            .unwrap();
        Worker { tx, rx }
    }
}

const HANG_SECS: u64 = 20;

struct Runner {
    w: Worker,
    hangs: usize,
}

impl Runner {
    fn new() -> Self {
        Runner { w: Worker::spawn(), hangs: 0 }
    }
    fn run(&mut self, e: Entry, skip: usize, bytes: &[u8]) -> Ran {
        self.w.tx.send((e, skip, bytes.to_vec())).unwrap();
        match self.w.rx.recv_timeout(Duration::from_secs(HANG_SECS)) {
            Ok(Ok(o)) => Ran::Done(o),
            Ok(Err(p)) => Ran::Panicked(p),
            Err(_) => {
                self.hangs += 1;
                self.w = Worker::spawn();
                Ran::Hung
            }
        }
    }
}

/// wall-clock budget: generous (debug build, loaded machine) but linear in the input length
fn budget_nanos(len: usize) -> u128 {
    150_000_000 + 12_000 * len as u128
}

// ----------------------------------------------------------------------------- wire builder

#[derive(Default, Clone)]
struct Wire {
    b: Vec<u8>,
    /// offsets where a name (or a suffix of one) starts: targets for compression pointers
    name_offs: Vec<usize>,
}

impl Wire {
    fn u8(&mut self, v: u8) {
        self.b.push(v)
    }
    fn u16(&mut self, v: u16) {
        self.b.extend_from_slice(&v.to_be_bytes())
    }
    fn u32(&mut self, v: u32) {
        self.b.extend_from_slice(&v.to_be_bytes())
    }
    fn bytes(&mut self, v: &[u8]) {
        self.b.extend_from_slice(v)
    }
    fn chardata(&mut self, v: &[u8]) {
        self.u8(v.len() as u8);
        self.bytes(v)
    }
    /// a name: 0..=4 fresh labels, then the root or a pointer to an earlier name
    fn name(&mut self, r: &mut Rng) {
        let nl = match r.below(8) {
            0 => 0,
            1..=4 => r.range(1, 2),
            5 | 6 => r.range(1, 4),
            _ => r.range(3, 8),
        };
        let mut mine = vec![];
        for _ in 0..nl {
            if self.b.len() < 0x3FFF {
                mine.push(self.b.len());
            }
            let len = match r.below(10) {
                0 => 63,
                1 => 1,
                _ => r.range(1, 12) as usize,
            };
            self.u8(len as u8);
            for _ in 0..len {
                let c = if r.chance(1, 12) { r.next() as u8 } else { b'a' + r.below(26) as u8 };
                self.u8(c);
            }
        }
        if !self.name_offs.is_empty() && r.chance(1, 2) {
            let t = *r.pick(&self.name_offs);
            self.u16(0xC000 | t as u16);
        } else {
            if self.b.len() < 0x3FFF && r.chance(1, 4) {
                mine.push(self.b.len());
            }
            self.u8(0);
        }
        self.name_offs.extend(mine);
    }
}

const TYPES: &[u16] = &[
    1, 28, 2, 5, 12, 65305, 257, 37, 62, 13, 64, 65, 15, 35, 10, 61, 41, 53, 52, 6, 33, 44, 250, 16,
    48, 60, 43, 59, 25, 47, 50, 51, 46, 24, 0, 255, 251, 252, 99, 65280,
];

fn type_bitmap(r: &mut Rng, w: &mut Wire) {
    let mut window = r.below(3) as u8;
    for _ in 0..r.range(0, 3) {
        let len = match r.below(12) {
            0 => 32,
            1 => 0,
            2 => 33,
            _ => r.range(1, 6) as u8,
        };
        w.u8(window);
        w.u8(len);
        for _ in 0..len.min(40) {
            w.u8(if r.chance(1, 3) { r.next() as u8 } else { 1 << r.below(8) });
        }
        window = window.wrapping_add(r.range(1, 90) as u8);
    }
}

/// well-formed RDATA for record type `t` (names may be compressed against `w.name_offs`)
fn rdata(r: &mut Rng, w: &mut Wire, t: u16) {
    match t {
        1 => w.bytes(&r.bytes(4)),
        28 => w.bytes(&r.bytes(16)),
        2 | 5 | 12 | 65305 => w.name(r),
        257 => {
            w.u8(if r.chance(1, 2) { 128 } else { r.next() as u8 });
            let tag: &[u8] = *r.pick(&[b"issue".as_slice(), b"issuewild", b"iodef", b"x", b"abcdefghijklmno", b"Tag9"]);
            w.chardata(tag);
            let n = r.range(0, 20) as usize;
            w.bytes(&r.bytes(n));
        }
        37 => {
            w.u16(r.next() as u16);
            w.u16(r.next() as u16);
            w.u8(r.next() as u8);
            let n = r.range(1, 20) as usize;
            w.bytes(&r.bytes(n));
        }
        62 => {
            w.u32(r.next() as u32);
            w.u16(if r.chance(3, 4) { r.below(4) as u16 } else { r.next() as u16 });
            type_bitmap(r, w);
        }
        13 => {
            let n = r.range(0, 10) as usize;
            w.chardata(&r.bytes(n));
            let n = r.range(0, 10) as usize;
            w.chardata(&r.bytes(n));
        }
        64 | 65 => {
            w.u16(r.below(3) as u16);
            w.name(r);
            let mut key = 0u16;
            for _ in 0..r.range(0, 4) {
                key = match r.below(6) {
                    0 => key,
                    1 => r.next() as u16,
                    2 => 65280 + r.below(256) as u16,
                    _ => key + r.range(0, 2) as u16,
                };
                let mut v = Wire::default();
                match key {
                    0 => {
                        for _ in 0..r.range(0, 3) {
                            v.u16(r.below(8) as u16)
                        }
                    }
                    1 => {
                        for _ in 0..r.range(0, 3) {
                            if r.chance(1, 5) {
                                let n = r.range(0, 6) as usize;
                                v.chardata(&r.bytes(n))
                            } else {
                                v.chardata(*r.pick(&[b"h2".as_slice(), b"h3", b"http/1.1", "\u{e9}\u{20ac}".as_bytes(), "\u{1F600}".as_bytes()]))
                            }
                        }
                    }
                    2 => {
                        if r.chance(1, 5) {
                            v.u8(1)
                        }
                    }
                    3 => {
                        let n = *r.pick(&[2usize, 2, 2, 1, 3]);
                        v.bytes(&r.bytes(n))
                    }
                    4 => {
                        let n = *r.pick(&[4usize, 8, 4, 3, 0]);
                        v.bytes(&r.bytes(n))
                    }
                    6 => {
                        let n = *r.pick(&[16usize, 32, 16, 15, 0]);
                        v.bytes(&r.bytes(n))
                    }
                    _ => {
                        let n = r.range(0, 9) as usize;
                        v.bytes(&r.bytes(n))
                    }
                }
                w.u16(key);
                w.u16(v.b.len() as u16);
                w.bytes(&v.b);
                key = key.wrapping_add(1);
            }
        }
        15 => {
            w.u16(r.next() as u16);
            w.name(r);
        }
        35 => {
            w.u16(r.next() as u16);
            w.u16(r.next() as u16);
            w.chardata(*r.pick(&[b"".as_slice(), b"a", b"U", b"s9", b"a-b"]));
            w.chardata(b"E2U+sip");
            let n = r.range(0, 10) as usize;
            w.chardata(&r.bytes(n));
            w.name(r);
        }
        41 => {
            for _ in 0..r.range(0, 3) {
                let code = *r.pick(&[3u16, 5, 8, 8, 10, 12, 65001]);
                w.u16(code);
                let mut v = Wire::default();
                if code == 8 {
                    let fam = *r.pick(&[1u16, 2, 1, 2, 3]);
                    v.u16(fam);
                    let sp = match r.below(5) {
                        0 => r.next() as u8,
                        _ => r.below(if fam == 1 { 34 } else { 130 }) as u8,
                    };
                    v.u8(sp);
                    v.u8(r.below(33) as u8);
                    let al = (sp as usize + 7) / 8;
                    let al = if r.chance(1, 6) { al.saturating_sub(1) } else { al };
                    v.bytes(&r.bytes(al));
                } else {
                    let n = r.range(0, 12) as usize;
                    v.bytes(&r.bytes(n));
                }
                w.u16(v.b.len() as u16);
                w.bytes(&v.b);
            }
        }
        53 | 52 => {
            w.bytes(&r.bytes(3));
            let n = r.range(0, 20) as usize;
            w.bytes(&r.bytes(n));
        }
        6 => {
            w.name(r);
            w.name(r);
            w.bytes(&r.bytes(20));
        }
        33 => {
            w.bytes(&r.bytes(6));
            w.name(r);
        }
        44 => {
            w.bytes(&r.bytes(2));
            let n = r.range(0, 20) as usize;
            w.bytes(&r.bytes(n));
        }
        250 => {
            if r.chance(2, 3) {
                for l in [b"hmac-sha256".as_slice()] {
                    w.chardata(l);
                }
                w.u8(0);
            } else {
                w.name(r);
            }
            w.u16(0);
            w.u32(r.next() as u32);
            w.u16(300);
            let ms = *r.pick(&[0usize, 16, 32, 32]);
            w.u16(ms as u16);
            w.bytes(&r.bytes(ms));
            w.u16(r.next() as u16);
            w.u16(*r.pick(&[0u16, 16, 17, 18, 22, 99]));
            let ol = *r.pick(&[0usize, 0, 6]);
            w.u16(ol as u16);
            w.bytes(&r.bytes(ol));
        }
        16 => {
            for _ in 0..r.range(0, 3) {
                let n = r.range(0, 12) as usize;
                w.chardata(&r.bytes(n));
            }
        }
        48 | 60 => {
            w.u16(*r.pick(&[256u16, 257, 384, 0]));
            w.u8(if r.chance(9, 10) { 3 } else { r.next() as u8 });
            w.u8(*r.pick(&[8u8, 13, 15, 0, 253]));
            let n = r.range(0, 40) as usize;
            w.bytes(&r.bytes(n));
        }
        43 | 59 => {
            w.u16(r.next() as u16);
            w.u8(*r.pick(&[8u8, 13, 0]));
            w.u8(*r.pick(&[1u8, 2, 4, 9]));
            let n = r.range(0, 40) as usize;
            w.bytes(&r.bytes(n));
        }
        25 => {
            w.u16(if r.chance(3, 4) { (r.next() as u16) & !0x2CF0 & !0x1000 } else { r.next() as u16 });
            w.u8(r.below(6) as u8);
            w.u8(*r.pick(&[8u8, 13, 0]));
            let n = r.range(0, 20) as usize;
            w.bytes(&r.bytes(n));
        }
        47 => {
            w.name(r);
            type_bitmap(r, w);
        }
        50 | 51 => {
            w.u8(if r.chance(9, 10) { 1 } else { r.next() as u8 });
            w.u8(if r.chance(9, 10) { r.below(2) as u8 } else { r.next() as u8 });
            w.u16(r.below(20) as u16);
            let sl = r.range(0, 8) as usize;
            w.u8(sl as u8);
            w.bytes(&r.bytes(sl));
            if t == 50 {
                let hl = *r.pick(&[20usize, 20, 0, 32]);
                w.u8(hl as u8);
                w.bytes(&r.bytes(hl));
                type_bitmap(r, w);
            }
        }
        46 | 24 => {
            w.u16(*r.pick(TYPES));
            w.u8(*r.pick(&[8u8, 13, 15]));
            w.u8(r.below(5) as u8);
            w.bytes(&r.bytes(12));
            w.u16(r.next() as u16);
            w.name(r);
            let n = r.range(0, 64) as usize;
            w.bytes(&r.bytes(n));
        }
        0 => {}
        _ => {
            let n = r.range(1, 24) as usize;
            w.bytes(&r.bytes(n));
        }
    }
}

fn record(r: &mut Rng, w: &mut Wire, t: u16, update: bool) {
    if t == 41 && r.chance(9, 10) {
        w.u8(0);
    } else {
        w.name(r);
    }
    w.u16(t);
    w.u16(if t == 41 { *r.pick(&[512u16, 1232, 4096, 0, 100]) } else { *r.pick(&[1u16, 1, 1, 3, 254, 255]) });
    w.u32(if t == 41 { *r.pick(&[0u32, 0x8000, 0x0100_0000, 0x2A01_8000]) } else { r.below(100_000) as u32 });
    if update && r.chance(1, 3) {
        w.u16(0);
        return;
    }
    let at = w.b.len();
    w.u16(0);
    let start = w.b.len();
    rdata(r, w, t);
    let len = (w.b.len() - start) as u16;
    w.b[at..at + 2].copy_from_slice(&len.to_be_bytes());
}

/// a well-formed message (a few deliberately odd choices); returns the wire
fn message(r: &mut Rng, request_like: bool) -> Vec<u8> {
    let mut w = Wire::default();
    let update = r.chance(1, 6);
    let nq = if request_like || r.chance(4, 5) { 1 } else { r.range(0, 3) };
    let (nan, nns, nar) = match r.below(6) {
        0 => (0, 0, 0),
        1 => (0, 0, 1),
        _ => (r.range(0, 4), r.range(0, 2), r.range(0, 3)),
    };
    w.u16(r.next() as u16);
    let op: u8 = if update { 5 } else { *r.pick(&[0u8, 0, 0, 2, 4, 1, 15]) };
    w.u8(((r.below(2) as u8) << 7) | (op << 3) | (r.below(8) as u8));
    w.u8(if r.chance(3, 4) { (r.below(2) as u8) << 7 | r.below(6) as u8 } else { r.next() as u8 });
    w.u16(nq as u16);
    w.u16(nan as u16);
    w.u16(nns as u16);
    w.u16(nar as u16);
    for _ in 0..nq {
        w.name(r);
        w.u16(*r.pick(TYPES));
        w.u16(*r.pick(&[1u16, 1, 255, 3]));
    }
    for _ in 0..nan + nns {
        let t = loop {
            let t = *r.pick(TYPES);
            if matches!(t, 41 | 250 | 24 | 255 | 251 | 252 | 0) && !r.chance(1, 25) {
                continue;
            }
            break t;
        };
        record(r, &mut w, t, update);
    }
    let mut had_opt = false;
    for i in 0..nar {
        let t = match r.below(8) {
            0 | 1 if !had_opt || r.chance(1, 10) => {
                had_opt = true;
                41
            }
            2 if i + 1 == nar || r.chance(1, 8) => 250,
            3 => 24,
            _ => *r.pick(TYPES),
        };
        record(r, &mut w, t, update);
    }
    w.b
}

fn mutate(r: &mut Rng, mut b: Vec<u8>) -> Vec<u8> {
    if b.is_empty() {
        return b;
    }
    for _ in 0..r.range(1, 3) {
        let n = b.len() as u64;
        match r.below(9) {
            0 => {
                let i = r.below(n) as usize;
                b[i] ^= 1 << r.below(8);
            }
            1 => {
                let i = r.below(n) as usize;
                b[i] = r.next() as u8;
            }
            2 => {
                let k = r.range(0, n - 1) as usize;
                b.truncate(k);
            }
            3 => {
                let i = r.below(n) as usize;
                b[i] = *r.pick(&[0u8, 0xC0, 0xC0, 63, 64, 0x80, 255, 1]);
            }
            4 => {
                // header counts
                if b.len() >= 12 {
                    let i = 4 + 2 * r.below(4) as usize + 1;
                    b[i] = b[i].wrapping_add(*r.pick(&[1u8, 255, 2, 7]));
                }
            }
            5 => {
                let i = r.below(n) as usize;
                b.insert(i, r.next() as u8);
            }
            6 => {
                let i = r.below(n) as usize;
                b.remove(i);
            }
            7 => {
                let k = r.range(1, 6) as usize;
                b.extend(r.bytes(k));
            }
            _ => {
                // point something at a nearby offset
                if b.len() >= 2 {
                    let i = r.below(n - 1) as usize;
                    let t = (i as i64 + r.range(0, 8) as i64 - 6).clamp(0, 0x3FFF) as u16;
                    b[i] = 0xC0 | (t >> 8) as u8;
                    b[i + 1] = t as u8;
                }
            }
        }
        if b.is_empty() {
            break;
        }
    }
    b
}

// ----------------------------------------------------------------------------- case families

struct Input {
    kind: &'static str,
    entry: Entry,
    skip: usize,
    bytes: Vec<u8>,
    /// same-shape input without the pointer chain, for the relative time oracle
    control: Option<Vec<u8>>,
}

fn label_run(n: usize, len: usize, fill: u8) -> Vec<u8> {
    let mut v = vec![];
    for _ in 0..n {
        v.push(len as u8);
        v.extend(std::iter::repeat(fill).take(len));
    }
    v
}

/// hand-built pointer gadgets and boundary names; `k` selects one
fn gadget(r: &mut Rng, k: u64) -> Input {
    let mut b: Vec<u8>;
    let mut skip = 0usize;
    let kind;
    match k % 14 {
        0 => {
            kind = "ptr-self";
            b = vec![0xC0, 0x00];
        }
        1 => {
            kind = "ptr-forward";
            b = vec![0xC0, 0x04, 0, 0, 1, b'a', 0];
        }
        2 => {
            // pointer to name_start-1 / name_start
            kind = "ptr-edge";
            let pre = r.range(1, 6) as usize;
            b = vec![0u8; pre];
            b[pre - 1] = 0;
            skip = pre;
            let t = if r.chance(1, 2) { pre - 1 } else { pre };
            b.extend_from_slice(&[0xC0 | (t >> 8) as u8, t as u8]);
        }
        3 => {
            // chain of h hops ending at a name
            kind = "ptr-chain";
            let h = *r.pick(&[1usize, 2, 3, 10, 100, 126, 127, 128, 500]);
            b = vec![1, b'x', 0];
            for i in 0..h {
                let t = if i == 0 { 0 } else { 3 + 2 * (i - 1) };
                b.extend_from_slice(&[0xC0 | (t >> 8) as u8, t as u8]);
            }
            skip = b.len() - 2;
        }
        4 => {
            // pointer into the middle of a label / overlapping: label runs into name_start
            kind = "ptr-overlap";
            b = vec![5, b'a', b'b', 0xC0, 0x00, 0];
            skip = 3;
            if r.chance(1, 2) {
                b = vec![3, b'a', b'b', 1, 0xC0, 0x00];
                skip = 4;
            }
        }
        5 => {
            // name of exactly 255 / 256 octets on the wire, flat
            kind = "name-255";
            let total = *r.pick(&[254usize, 255, 256]);
            // total = sum(1+len) + 1
            b = label_run(3, 63, b'a'); // 192
            let rest = total - 1 - 192; // 61..63 -> one label of rest-1
            b.push((rest - 1) as u8);
            b.extend(std::iter::repeat(b'b').take(rest - 1));
            b.push(0);
        }
        6 => {
            // the same length limit reached through pointers
            kind = "name-255-ptr";
            b = label_run(2, 63, b'a');
            b.push(0); // name A at 0: 129 octets
            let at = b.len();
            let extra = *r.pick(&[123usize, 124, 125, 126]);
            // second name: labels totalling `extra` then pointer to 0
            let l1 = 63.min(extra - 1);
            b.push(l1 as u8);
            b.extend(std::iter::repeat(b'c').take(l1));
            let left = extra - 1 - l1;
            if left >= 2 {
                b.push((left - 1) as u8);
                b.extend(std::iter::repeat(b'd').take(left - 1));
            }
            b.extend_from_slice(&[0xC0, 0x00]);
            skip = at;
        }
        7 => {
            kind = "label-63-64";
            let l = *r.pick(&[62usize, 63, 64, 65, 127, 128, 191]);
            b = vec![l as u8];
            b.extend(std::iter::repeat(b'q').take(l.min(70)));
            b.push(0);
        }
        8 => {
            // 127 one-octet labels (254+1) and 128
            kind = "labels-127";
            let n = *r.pick(&[126usize, 127, 128]);
            b = label_run(n, 1, b'z');
            b.push(0);
        }
        9 => {
            kind = "ptr-into-header";
            b = message(r, true);
            let t = r.below(12) as u16;
            b.extend_from_slice(&[0xC0, t as u8]);
            skip = b.len() - 2;
        }
        10 => {
            kind = "ptr-max-offset";
            let n = *r.pick(&[0x3FFEusize, 0x3FFF, 0x4000, 0x4001]);
            b = vec![0u8; n + 1];
            b[n.min(0x3FFF)] = 0;
            b.extend_from_slice(&[0xFF, 0xFF]);
            skip = b.len() - 2;
        }
        11 => {
            kind = "truncated-name";
            b = vec![3, b'a', b'b'];
            if r.chance(1, 2) {
                b = vec![0xC0];
            }
        }
        12 => {
            kind = "reserved-label-bits";
            b = vec![*r.pick(&[0x40u8, 0x41, 0x7F, 0x80, 0xBF]), 0, 0];
        }
        _ => {
            // pointer chain where each target is a label + pointer (compressed suffixes)
            kind = "ptr-suffixes";
            let n = r.range(2, 60) as usize;
            b = vec![1, b'r', 0];
            let mut last = 0usize;
            for i in 0..n {
                let at = b.len();
                b.push(1);
                b.push(b'a' + (i % 26) as u8);
                b.extend_from_slice(&[0xC0 | (last >> 8) as u8, last as u8]);
                last = at;
            }
            skip = last;
        }
    }
    Input { kind, entry: Entry::Name, skip, bytes: b, control: None }
}

/// F1 family: a pointer chain inside an opaque RDATA, then many records whose owner is a
/// pointer to the end of the chain (UPDATE opcode so that RDLENGTH 0 is accepted).
fn f1_message(hops: usize, recs: usize) -> Vec<u8> {
    let mut w = Wire::default();
    w.u16(0x1234);
    w.u8(5 << 3);
    w.u8(0);
    w.u16(0);
    w.u16(0);
    w.u16((recs + 1) as u16);
    w.u16(0);
    // record 0: root owner, NULL, rdata = [0] + chain of pointers each to the previous
    w.u8(0);
    w.u16(10);
    w.u16(1);
    w.u32(0);
    w.u16((1 + 2 * hops) as u16);
    let base = w.b.len();
    w.u8(0);
    for i in 0..hops {
        let t = if i == 0 { base } else { base + 1 + 2 * (i - 1) };
        w.u16(0xC000 | t as u16);
    }
    let end = base + 1 + 2 * (hops - 1);
    for _ in 0..recs {
        w.u16(0xC000 | end as u16);
        w.u16(1);
        w.u16(254);
        w.u32(0);
        w.u16(0);
    }
    w.b
}

const CRASHERS: &[&[u8]] = &[
    &[160, 160, 0, 13, 0, 0, 0, 1, 0, 0, 0, 0, 0, 0, 0, 0, 1, 0, 0, 0, 1, 0, 1, 0],
    &[
        0, 0, 132, 0, 0, 0, 0, 1, 0, 0, 0, 1, 36, 49, 101, 48, 101, 101, 51, 100, 51, 45, 100, 52, 50, 52, 45, 52,
        102, 55, 56, 45, 57, 101, 52, 99, 45, 99, 51, 56, 51, 51, 55, 55, 56, 48, 102, 50, 98, 5, 108, 111, 99, 97,
        108, 0, 0, 1, 128, 1, 0, 0, 0, 120, 0, 4, 192, 168, 1, 17, 36, 49, 101, 48, 101, 101, 51, 100, 51, 45, 100,
        52, 50, 52, 45, 52, 102, 55, 56, 45, 57, 101, 52, 99, 45, 99, 51, 56, 51, 51, 55, 55, 56, 48, 102, 50, 98, 5,
        108, 111, 99, 97, 108, 0, 0, 47, 128, 1, 0, 0, 0, 120, 0, 5, 192, 70, 0, 1, 64,
    ],
];

/// number of "big" cases (long inputs, F1 family) at the front of the index space
fn n_big(thorough: bool) -> u64 {
    if thorough {
        60
    } else {
        12
    }
}

fn big_input(seed: u64, index: u64, thorough: bool) -> Input {
    let mut r = Rng::for_case(seed, index);
    match index % 6 {
        0 => {
            // F1 witness: too many pointer hops (31 M) to re-run inside Coq: oracle-only
            let (h, n) = (8000, 3900);
            Input { kind: "f1-chain", entry: Entry::Message, skip: 0, bytes: f1_message(h, n), control: Some(f1_message(1, n)) }
        }
        1 => {
            // the same shape at a size the model evaluates in a few seconds (hops counted by `show`)
            let (h, n) = (r.range(300, 700) as usize, r.range(200, 400) as usize);
            Input { kind: "f1-mid", entry: Entry::Message, skip: 0, bytes: f1_message(h, n), control: None }
        }
        2 => {
            let n = *r.pick(&[65535usize, 65535, 16384, 40000]);
            Input { kind: "random-64k", entry: *r.pick(&[Entry::Message, Entry::Request, Entry::Record, Entry::Name]), skip: 0, bytes: r.bytes(n), control: None }
        }
        3 => {
            // many concatenated well-formed records after a header that counts them
            let mut w = Wire::default();
            let n = if thorough { 2500 } else { 600 };
            w.u16(7);
            w.u8(0x84);
            w.u8(0);
            w.u16(0);
            w.u16(n as u16);
            w.u16(0);
            w.u16(0);
            for _ in 0..n {
                let t = loop {
                    let t = *r.pick(TYPES);
                    if !matches!(t, 41 | 250 | 24 | 255 | 251 | 252 | 0) {
                        break t;
                    }
                };
                record(&mut r, &mut w, t, false);
                if w.b.len() > 65000 {
                    break;
                }
            }
            Input { kind: "many-records", entry: Entry::Message, skip: 0, bytes: w.b, control: None }
        }
        4 => {
            // one TXT / NULL / NSEC record with a huge RDATA
            let t = *r.pick(&[16u16, 10, 47, 41, 64]);
            let n = 60000usize;
            let mut body = vec![];
            match t {
                16 => {
                    while body.len() + 256 < n {
                        body.push(255);
                        body.extend(r.bytes(255));
                    }
                }
                47 => {
                    body.push(0);
                    let mut win = 0u8;
                    while body.len() + 34 < n && win < 255 {
                        body.push(win);
                        body.push(32);
                        body.extend(r.bytes(32));
                        win += 1;
                    }
                }
                41 => {
                    while body.len() + 300 < n {
                        body.extend_from_slice(&[0xFD, 0xE9, 0x01, 0x00]);
                        body.extend(r.bytes(256));
                    }
                }
                64 => {
                    body.extend_from_slice(&[0, 1, 0]);
                    let mut key = 7u16;
                    while body.len() + 300 < n {
                        body.extend_from_slice(&key.to_be_bytes());
                        body.extend_from_slice(&[0x01, 0x00]);
                        body.extend(r.bytes(256));
                        key += 1;
                    }
                }
                _ => body = r.bytes(n),
            }
            Input { kind: "huge-rdata", entry: Entry::RData(t), skip: 0, bytes: body, control: None }
        }
        _ => {
            // 16k-deep suffix chain then a name pointing at its end: most hops a single name can take
            let hops = if thorough { 8100 } else { 2000 };
            let mut b = vec![0u8];
            for i in 0..hops {
                let t = if i == 0 { 0 } else { 1 + 2 * (i - 1) };
                b.extend_from_slice(&[0xC0 | (t >> 8) as u8, t as u8]);
            }
            let skip = b.len() - 2;
            Input { kind: "long-chain-name", entry: Entry::Name, skip, bytes: b, control: None }
        }
    }
}

fn small_input(seed: u64, index: u64) -> Input {
    let mut r = Rng::for_case(seed, index);
    let fam = index % 16;
    match fam {
        0 | 1 => {
            let b = message(&mut r, fam == 1);
            Input { kind: "msg-valid", entry: if fam == 1 { Entry::Request } else { Entry::Message }, skip: 0, bytes: b, control: None }
        }
        2 | 3 | 4 => {
            let b = message(&mut r, fam == 4);
            let b = mutate(&mut r, b);
            Input { kind: "msg-mutated", entry: if fam == 4 { Entry::Request } else { Entry::Message }, skip: 0, bytes: b, control: None }
        }
        5 => {
            // truncation at every prefix length is covered over the index space
            let rl = r.chance(1, 2);
            let b = message(&mut r, rl);
            let k = r.below(b.len() as u64 + 1) as usize;
            Input { kind: "msg-truncated", entry: if r.chance(1, 2) { Entry::Message } else { Entry::Request }, skip: 0, bytes: b[..k].to_vec(), control: None }
        }
        6 | 7 => gadget(&mut r, index / 16),
        8 => {
            let n = *r.pick(&[0usize, 1, 2, 11, 12, 13, 17, 30, 64, 511, 512, 513]);
            let e = *r.pick(&[Entry::Message, Entry::Request, Entry::Record, Entry::Name]);
            Input { kind: "random", entry: e, skip: 0, bytes: r.bytes(n), control: None }
        }
        9 | 10 | 11 => {
            // RDATA only, every type in turn; prefix with names so that pointers have targets
            let t = if r.chance(1, 30) { r.next() as u16 } else { TYPES[((index / 16) % TYPES.len() as u64) as usize] };
            let mut w = Wire::default();
            for _ in 0..r.range(0, 2) {
                w.name(&mut r);
            }
            let skip = w.b.len();
            rdata(&mut r, &mut w, t);
            let mut b = w.b;
            let kind;
            if fam == 9 {
                kind = "rdata-valid";
            } else if fam == 10 {
                kind = "rdata-mutated";
                let tail = mutate(&mut r, b[skip..].to_vec());
                b.truncate(skip);
                b.extend(tail);
            } else {
                kind = "rdata-random";
                b.truncate(skip);
                let n = r.range(0, 40) as usize;
                b.extend(r.bytes(n));
            }
            Input { kind, entry: Entry::RData(t), skip, bytes: b, control: None }
        }
        12 | 13 => {
            let mut w = Wire::default();
            for _ in 0..r.range(0, 2) {
                w.name(&mut r);
            }
            let skip = w.b.len();
            let t = *r.pick(TYPES);
            let upd = r.chance(1, 5);
            record(&mut r, &mut w, t, upd);
            let extra = r.range(0, 3) as usize;
            w.bytes(&r.bytes(extra));
            let mut b = w.b;
            let kind = if fam == 12 {
                "record-valid"
            } else {
                let tail = mutate(&mut r, b[skip..].to_vec());
                b.truncate(skip);
                b.extend(tail);
                "record-mutated"
            };
            Input { kind, entry: Entry::Record, skip, bytes: b, control: None }
        }
        14 => {
            if r.chance(1, 3) {
                // pointer graph: 2-byte pointer cells that target any cell (an earlier one, themselves, a
                // later one) or any offset, a few labels in between; the read starts at the last cell, so
                // self-pointers and cycles are also reached THROUGH another pointer (seeded C01-m1)
                let n = r.range(2, 6) as usize;
                let mut b: Vec<u8> = Vec::new();
                let mut cells = Vec::new();
                for _ in 0..n {
                    if r.chance(1, 2) {
                        let l = r.range(1, 3) as usize;
                        b.push(l as u8);
                        b.extend(r.bytes(l));
                        if r.chance(1, 2) {
                            b.push(0);
                        }
                    }
                    cells.push(b.len());
                    b.extend([0xC0, 0]);
                }
                for i in 0..n {
                    let c = cells[i];
                    let mut t = if r.chance(1, 3) { c } else { cells[r.below(n as u64) as usize] };
                    if r.chance(1, 4) {
                        t = r.below(b.len() as u64) as usize;
                    }
                    b[c] = 0xC0 | (t >> 8) as u8;
                    b[c + 1] = t as u8;
                }
                let skip = cells[n - 1];
                return Input { kind: "ptr-graph", entry: Entry::Name, skip, bytes: b, control: None };
            }
            // names: built then mutated
            let mut w = Wire::default();
            for _ in 0..r.range(0, 3) {
                w.name(&mut r);
            }
            let skip = w.b.len();
            w.name(&mut r);
            let mut b = w.b;
            if r.chance(1, 2) {
                b = mutate(&mut r, b);
            }
            let skip = skip.min(b.len());
            Input { kind: "name-built", entry: Entry::Name, skip, bytes: b, control: None }
        }
        _ => {
            let k = (index / 16) as usize;
            if k < CRASHERS.len() * 2 {
                Input { kind: "regression", entry: if k % 2 == 0 { Entry::Message } else { Entry::Request }, skip: 0, bytes: CRASHERS[k / 2].to_vec(), control: None }
            } else {
                // small F1-shaped messages (chain + pointing owners), exact in the model
                let b = f1_message(r.range(1, 40) as usize, r.range(1, 12) as usize);
                Input { kind: "f1-small", entry: Entry::Message, skip: 0, bytes: b, control: None }
            }
        }
    }
}

fn input_for(seed: u64, index: u64, thorough: bool) -> Input {
    let nb = n_big(thorough);
    if index < nb {
        big_input(seed, index, thorough)
    } else {
        small_input(seed, index - nb)
    }
}

// ----------------------------------------------------------------------------- one case

/// does the input contain a pointer chain longer than 127 hops reachable by some name?
/// (class of the known finding F1: computed on the input alone, by following pointers from
/// every offset that carries a pointer)
fn max_chain(bytes: &[u8]) -> usize {
    let n = bytes.len().min(0x4000 + 2);
    let mut depth = vec![0usize; n + 1];
    let mut best = 0;
    for i in 0..n.saturating_sub(1) {
        if bytes[i] & 0xC0 == 0xC0 {
            let t = (((bytes[i] & 0x3F) as usize) << 8) | bytes[i + 1] as usize;
            if t < i {
                depth[i] = 1 + if t < n { depth[t] } else { 0 };
                best = best.max(depth[i]);
            }
        }
    }
    best
}

fn make_case(run: &mut Runner, seed: u64, index: u64, thorough: bool) -> CaseOut {
    let inp = input_for(seed, index, thorough);
    let skip = inp.skip.min(inp.bytes.len());
    let mut oracle_fail = None;
    let mut known = None;
    let obs_coq;
    let obs_text;
    let mut timing = String::new();
    match run.run(inp.entry, skip, &inp.bytes) {
        Ran::Hung => {
            oracle_fail = Some(format!("decoder did not return within {HANG_SECS} s"));
            obs_coq = "OPanic".to_string();
            obs_text = "HANG".to_string();
        }
        Ran::Panicked(p) => {
            oracle_fail = Some(format!("decoder panicked: {p}"));
            obs_coq = "OPanic".to_string();
            obs_text = format!("PANIC {p}");
        }
        Ran::Done(o) => {
            if let Some(b) = o.bad_names.first() {
                oracle_fail = Some(format!("name bound violated: {b}"));
            }
            let mut nanos = o.nanos;
            let budget = budget_nanos(inp.bytes.len());
            if nanos > budget {
                // re-measure (scheduling noise) and keep the best of three
                for _ in 0..2 {
                    if let Ran::Done(o2) = run.run(inp.entry, skip, &inp.bytes) {
                        nanos = nanos.min(o2.nanos);
                    }
                }
            }
            if nanos > budget && oracle_fail.is_none() {
                oracle_fail = Some(format!(
                    "decode time {} ms for {} bytes exceeds the linear budget {} ms",
                    nanos / 1_000_000,
                    inp.bytes.len(),
                    budget / 1_000_000
                ));
                if max_chain(&inp.bytes) > 127 {
                    known = Some("C01-F1-pointer-chain-time".to_string());
                }
            }
            if inp.bytes.len() > 4096 {
                timing = format!(" t={}us", nanos / 1000);
            }
            if let Some(ctl) = &inp.control {
                // relative oracle: the same records without the chain
                let mut tc = u128::MAX;
                for _ in 0..3 {
                    if let Ran::Done(o2) = run.run(inp.entry, 0, ctl) {
                        tc = tc.min(o2.nanos);
                    }
                }
                timing += &format!(" control({}B)={}us", ctl.len(), tc / 1000);
                if nanos > 50 * tc + 5_000_000 {
                    // re-measure (cold caches, scheduling noise) and keep the best of three
                    for _ in 0..2 {
                        if let Ran::Done(o2) = run.run(inp.entry, skip, &inp.bytes) {
                            nanos = nanos.min(o2.nanos);
                        }
                    }
                }
                if nanos > 50 * tc + 5_000_000 && oracle_fail.is_none() {
                    oracle_fail = Some(format!(
                        "decode time {} us for {} bytes vs {} us for the same {} records without the pointer chain ({} B): time is not proportional to input length",
                        nanos / 1000, inp.bytes.len(), tc / 1000, "owner", ctl.len()
                    ));
                    if max_chain(&inp.bytes) > 127 {
                        known = Some("C01-F1-pointer-chain-time".to_string());
                    }
                }
            }
            match &o.obs {
                Obs::Ok(d, _) if inp.kind == "f1-chain" => {
                    obs_coq = "OSkip".to_string();
                    obs_text = format!("Ok names={} dump=({}B) [oracle-only]", o.n_names, d.len());
                }
                Obs::Ok(d, used) => {
                    obs_coq = format!("(OOk {} {})", coq_pb(d), used);
                    obs_text = format!("Ok used={} names={} dump={}", used, o.n_names, if d.len() > 120 { format!("{}..({}B)", hex(&d[..60]), d.len()) } else { hex(d) });
                }
                Obs::Err(c) => {
                    obs_coq = format!("(OErr {c})");
                    obs_text = format!("Err {c}");
                }
            }
        }
    }
    let in_text = if inp.bytes.len() > 200 {
        format!("{}..({}B fnv={:016x})", hex(&inp.bytes[..48]), inp.bytes.len(), fnv(&hex(&inp.bytes)))
    } else {
        hex(&inp.bytes)
    };
    let key = format!("{} {} {}", inp.entry.text(), skip, hex(&inp.bytes));
    CaseOut {
        index,
        coq: format!("Case {} {} {} {}", inp.entry.coq(), skip, coq_pb(&inp.bytes), obs_coq),
        text: format!("seed={seed} index={index} {} {} skip={} in={} => {}{}", inp.kind, inp.entry.text(), skip, in_text, obs_text, timing),
        key,
        nontrivial: inp.bytes.len() > skip,
        kind: format!("{}/{}", inp.kind, match inp.entry { Entry::RData(_) => "rdata".to_string(), e => e.text() }),
        oracle_fail,
        known,
    }
}

fn main() {
    quiet_panics();
    let args = parse_args();
    let thorough = args.tier == "thorough";
    let mut run = Runner::new();
    if let Some((seed, index)) = args.replay {
        let c = make_case(&mut run, seed, index, thorough);
        println!("{}", c.text);
        println!("COQ {}", c.coq);
        if let Some(f) = &c.oracle_fail {
            println!("ORACLE-FAIL {f}");
        }
        std::process::exit(0);
    }
    if let Some(h) = args.extra.get("hex") {
        // ad-hoc: --hex <bytes> --entry message|request|record|name|<type code> [--skip N]
        let bytes = unhex(h);
        let skip: usize = args.extra.get("skip").map(|s| s.parse().unwrap()).unwrap_or(0);
        let entry = match args.extra.get("entry").map(|s| s.as_str()).unwrap_or("message") {
            "message" => Entry::Message,
            "request" => Entry::Request,
            "record" => Entry::Record,
            "name" => Entry::Name,
            t => Entry::RData(t.parse().unwrap()),
        };
        match run.run(entry, skip, &bytes) {
            Ran::Done(o) => println!("{:?} t={}ns bad_names={:?}", o.obs, o.nanos, o.bad_names),
            Ran::Panicked(p) => println!("PANIC {p}"),
            Ran::Hung => println!("HANG"),
        }
        std::process::exit(0);
    }
    let mut cases = vec![];
    let total = n_big(thorough) + args.n;
    for index in 0..total {
        cases.push(make_case(&mut run, args.seed, index, thorough));
        if run.hangs >= 2 {
            break;
        }
    }
    emit(
        "C01",
        "C01",
        &args,
        &cases,
        "entry points: Message::from_vec, Request::from_bytes (server path), Record::read, Name::read, RData::read(type) for 40 type codes incl. all DNSSEC types, unknown and meta types. Families: well-formed messages from a wire builder with compression pointers (all RDATA variants), the same mutated (bit flips, byte edits, count edits, truncation, insert/delete, injected pointers) or truncated at a random prefix, pointer gadgets (self, forward, edge, chains, overlap, into header, max offset), boundary names (63/64-octet labels, 254..256-octet names flat and through pointers, 126..128 labels), pure random of boundary lengths, RDATA-only per type (valid / mutated / random), single records, two regression crashers, F1-shaped pointer-chain messages; plus a fixed number of large inputs (64 KiB random, many records, huge RDATA, long chains). Non-trivial = at least one byte after the skip offset; distinct by (entry, skip, bytes).",
        serde_json::json!({"hangs": run.hangs}),
    );
    std::process::exit(0);
}
