//! C19 — recursor bailiwick / termination harness (first slice: world + runner + probe)
#![allow(dead_code)]
use std::collections::{BTreeMap, BTreeSet, HashMap};
use std::net::{IpAddr, Ipv4Addr, Ipv6Addr};
use std::sync::{Arc, Mutex};
use std::time::{Duration, Instant};

use hickory_net::xfer::Protocol;
use hickory_proto::op::{Message, OpCode, Query, ResponseCode};
use hickory_proto::rr::rdata::{A, AAAA, CNAME, NS, SOA, TXT};
use hickory_proto::rr::{Name, RData, Record, RecordType};
use hickory_resolver::config::ResolverOpts;
use hickory_resolver::recursor::{Recursor, RecursorError, RecursorOptions};
use hickory_resolver::TtlConfig;
use test_support::{MockHandler, MockProvider};
use vph::*;

// ---------------------------------------------------------------------------------------------
// abstract data (mirrors coq/C19/Model.v)

/// name = label ids, root first; label 0 is "*"
type Nm = Vec<u8>;

#[derive(Clone, Copy, PartialEq, Eq, Hash, PartialOrd, Ord, Debug)]
enum Ip {
    V4(u32),
    V6(u128),
}

#[derive(Clone, PartialEq, Eq, Hash, PartialOrd, Ord, Debug)]
enum Rd {
    A(u32),
    Aaaa(u128),
    Ns(Nm),
    Cname(Nm),
    Soa,
    Other(u16),
}

#[derive(Clone, PartialEq, Eq, Hash, PartialOrd, Ord, Debug)]
struct Rr {
    owner: Nm,
    rd: Rd,
}

#[derive(Clone, PartialEq, Eq, Debug, Default)]
struct Resp {
    rcode: u8,
    aa: bool,
    an: Vec<Rr>,
    au: Vec<Rr>,
    ad: Vec<Rr>,
}

type Q = (Nm, u16);

const T_A: u16 = 1;
const T_NS: u16 = 2;
const T_CNAME: u16 = 5;
const T_SOA: u16 = 6;
const T_TXT: u16 = 16;
const T_AAAA: u16 = 28;
const T_DS: u16 = 43;
const T_ANY: u16 = 255;

fn rtype(rd: &Rd) -> u16 {
    match rd {
        Rd::A(_) => T_A,
        Rd::Aaaa(_) => T_AAAA,
        Rd::Ns(_) => T_NS,
        Rd::Cname(_) => T_CNAME,
        Rd::Soa => T_SOA,
        Rd::Other(t) => *t,
    }
}

fn label_str(l: u8) -> String {
    if l == 0 {
        "*".to_string()
    } else if l <= 26 {
        ((b'a' + l - 1) as char).to_string()
    } else {
        format!("l{l}")
    }
}

fn label_id(s: &str) -> u8 {
    if s == "*" {
        0
    } else if s.len() == 1 {
        s.as_bytes()[0].to_ascii_lowercase() - b'a' + 1
    } else {
        s[1..].parse().unwrap()
    }
}

fn to_name(n: &Nm) -> Name {
    let mut s = String::new();
    for l in n.iter().rev() {
        s.push_str(&label_str(*l));
        s.push('.');
    }
    if s.is_empty() {
        s.push('.');
    }
    Name::from_ascii(&s).unwrap()
}

fn from_name(n: &Name) -> Nm {
    let mut v: Vec<u8> = n.iter().map(|l| label_id(std::str::from_utf8(l).unwrap())).collect();
    v.reverse();
    v
}

fn nm_text(n: &Nm) -> String {
    to_name(n).to_string()
}

fn to_ip(ip: Ip) -> IpAddr {
    match ip {
        Ip::V4(n) => IpAddr::V4(Ipv4Addr::from(n)),
        Ip::V6(n) => IpAddr::V6(Ipv6Addr::from(n)),
    }
}

fn from_ip(ip: IpAddr) -> Ip {
    match ip {
        IpAddr::V4(a) => Ip::V4(u32::from(a)),
        IpAddr::V6(a) => Ip::V6(u128::from(a)),
    }
}

fn to_rtype(t: u16) -> RecordType {
    RecordType::from(t)
}

fn to_record(r: &Rr) -> Record {
    let rd = match &r.rd {
        Rd::A(n) => RData::A(A(Ipv4Addr::from(*n))),
        Rd::Aaaa(n) => RData::AAAA(AAAA(Ipv6Addr::from(*n))),
        Rd::Ns(n) => RData::NS(NS(to_name(n))),
        Rd::Cname(n) => RData::CNAME(CNAME(to_name(n))),
        Rd::Soa => RData::SOA(SOA::new(Name::root(), Name::root(), 1, 3600, 3600, 3600, 3600)),
        Rd::Other(_) => RData::TXT(TXT::new(vec!["x".to_string()])),
    };
    Record::from_rdata(to_name(&r.owner), 3600, rd)
}

fn from_record(r: &Record) -> Rr {
    let rd = match &r.data {
        RData::A(A(a)) => Rd::A(u32::from(*a)),
        RData::AAAA(AAAA(a)) => Rd::Aaaa(u128::from(*a)),
        RData::NS(NS(n)) => Rd::Ns(from_name(n)),
        RData::CNAME(CNAME(n)) => Rd::Cname(from_name(n)),
        RData::SOA(_) => Rd::Soa,
        other => Rd::Other(u16::from(other.record_type())),
    };
    Rr { owner: from_name(&r.name), rd }
}

fn to_message(id: u16, q: &Query, r: &Resp) -> Message {
    let mut m = Message::response(id, OpCode::Query);
    m.add_query(q.clone());
    m.metadata.authoritative = r.aa;
    m.metadata.response_code = ResponseCode::from(0, r.rcode);
    for x in &r.an {
        m.add_answer(to_record(x));
    }
    for x in &r.au {
        m.add_authority(to_record(x));
    }
    for x in &r.ad {
        m.add_additional(to_record(x));
    }
    m
}

fn is_sub(parent: &Nm, child: &Nm) -> bool {
    child.len() >= parent.len() && child[..parent.len()] == parent[..]
}

// ---------------------------------------------------------------------------------------------
// network: any function (ip, query) -> response, with a log

trait Net: Send + Sync {
    fn answer(&self, ip: Ip, q: &Q) -> Resp;
}

struct LoggingHandler {
    net: Arc<dyn Net>,
    log: Arc<Mutex<Vec<(Ip, Q, Resp)>>>,
    cap: usize,
}

impl MockHandler for LoggingHandler {
    fn handle(&self, destination: IpAddr, _protocol: Protocol, request: Message) -> Message {
        let query = request.queries[0].clone();
        let q: Q = (from_name(&query.name), u16::from(query.query_type));
        let ip = from_ip(destination);
        let mut log = self.log.lock().unwrap();
        let resp = if log.len() >= self.cap {
            Resp { rcode: 2, ..Default::default() }
        } else {
            self.net.answer(ip, &q)
        };
        log.push((ip, q, resp.clone()));
        to_message(request.metadata.id, &query, &resp)
    }
}

// ---------------------------------------------------------------------------------------------
// configuration of the recursor under test

#[derive(Clone, Debug, Default)]
struct Cfg {
    roots: Vec<Ip>,
    rec_limit: u8,
    ns_limit: u8,
    /// (v6, base, prefix length)
    deny_server: Vec<(Ip, u8)>,
    allow_server: Vec<(Ip, u8)>,
    deny_answer: Vec<(Ip, u8)>,
    allow_answer: Vec<(Ip, u8)>,
    /// positive/negative minimum TTL of one hour configured
    min_ttl: bool,
}

fn net_str(n: &(Ip, u8)) -> String {
    format!("{}/{}", to_ip(n.0), n.1)
}

/// observation of one resolution
#[derive(Clone, Debug, PartialEq, Eq)]
struct Obs {
    /// 0 ok, 1 negative nx, 2 negative nodata, 3 forward-ns, 4 recursion limit, 5 cname limit,
    /// 6 net error, 7 message, 9 hang/other
    class: u8,
    an: Vec<Rr>,
    au: Vec<Rr>,
    ad: Vec<Rr>,
    /// contacted during this resolution
    contacted: Vec<(Ip, Q)>,
    /// number of upstream queries sent during this resolution
    nsent: usize,
    detail: String,
}

fn run_case(cfg: &Cfg, net: Arc<dyn Net>, queries: &[Q], cap: usize) -> (Vec<Obs>, Vec<(Ip, Q, Resp)>) {
    let log = Arc::new(Mutex::new(vec![]));
    let handler = LoggingHandler { net, log: log.clone(), cap };
    let rt = tokio::runtime::Builder::new_current_thread().enable_time().start_paused(true).build().unwrap();
    let mut out = vec![];
    rt.block_on(async {
        let provider = MockProvider::new(handler);
        let mut opts = RecursorOptions {
            recursion_limit: cfg.rec_limit,
            ns_recursion_limit: cfg.ns_limit,
            deny_server: cfg.deny_server.iter().map(|n| net_str(n).parse().unwrap()).collect(),
            allow_server: cfg.allow_server.iter().map(|n| net_str(n).parse().unwrap()).collect(),
            deny_answers: cfg.deny_answer.iter().map(|n| net_str(n).parse().unwrap()).collect(),
            allow_answers: cfg.allow_answer.iter().map(|n| net_str(n).parse().unwrap()).collect(),
            ..RecursorOptions::default()
        };
        if cfg.min_ttl {
            let mut ro = ResolverOpts::default();
            ro.positive_min_ttl = Some(Duration::from_secs(3600));
            ro.negative_min_ttl = Some(Duration::from_secs(3600));
            opts.cache_policy = TtlConfig::from_opts(&ro);
        }
        let roots: Vec<IpAddr> = cfg.roots.iter().map(|i| to_ip(*i)).collect();
        let recursor = match Recursor::with_options(&roots, opts, provider) {
            Ok(r) => r,
            Err(e) => {
                out.push(Obs { class: 9, an: vec![], au: vec![], ad: vec![], contacted: vec![], nsent: 0, detail: format!("build: {e}") });
                return;
            }
        };
        for q in queries {
            let before = log.lock().unwrap().len();
            let query = Query::new(to_name(&q.0), to_rtype(q.1));
            let fut = recursor.resolve(query, Instant::now(), false);
            let res = tokio::time::timeout(Duration::from_secs(600), fut).await;
            let mut obs = Obs { class: 9, an: vec![], au: vec![], ad: vec![], contacted: vec![], nsent: 0, detail: String::new() };
            match res {
                Err(_) => obs.detail = "hang (virtual 600 s)".into(),
                Ok(Ok(m)) => {
                    obs.class = 0;
                    obs.an = m.answers.iter().map(from_record).collect();
                    obs.au = m.authorities.iter().map(from_record).collect();
                    obs.ad = m.additionals.iter().map(from_record).collect();
                    obs.detail = format!("rcode={} aa={}", u16::from(m.metadata.response_code), m.metadata.authoritative);
                }
                Ok(Err(e)) => {
                    obs.detail = format!("{e}");
                    match &e {
                        RecursorError::Negative(d) => {
                            obs.class = if d.nx_domain { 1 } else { 2 };
                            if let Some(soa) = &d.soa {
                                obs.au.push(Rr { owner: from_name(&soa.name), rd: Rd::Soa });
                            }
                            if let Some(a) = &d.authorities {
                                obs.ad.extend(a.iter().map(from_record));
                            }
                        }
                        RecursorError::ForwardNS(ns) => {
                            obs.class = 3;
                            for f in ns.iter() {
                                obs.au.push(from_record(&f.ns));
                                obs.ad.extend(f.glue.iter().map(from_record));
                            }
                        }
                        RecursorError::RecursionLimitExceeded { .. } => obs.class = 4,
                        RecursorError::MaxRecordLimitExceeded { .. } => obs.class = 5,
                        RecursorError::Net(_) => obs.class = 6,
                        RecursorError::Message(_) | RecursorError::Msg(_) => obs.class = 7,
                        _ => obs.class = 8,
                    }
                }
            }
            obs.an.sort();
            obs.au.sort();
            obs.ad.sort();
            let l = log.lock().unwrap();
            let mut c: Vec<(Ip, Q)> = l[before..].iter().map(|(ip, q, _)| (*ip, q.clone())).collect();
            obs.nsent = c.len();
            c.sort();
            c.dedup();
            obs.contacted = c;
            out.push(obs);
        }
    });
    drop(rt);
    let l = log.lock().unwrap().clone();
    (out, l)
}

// ---------------------------------------------------------------------------------------------
// simulated internet: a zone tree served by authoritative servers, plus hostile servers

#[derive(Clone, Debug)]
struct Zone {
    name: Nm,
    parent: Option<usize>,
    servers: Vec<Ip>,
    /// NS names as published by the parent and at the apex
    ns: Vec<Nm>,
    /// parent adds glue for the names it can know
    glue: bool,
    recs: BTreeMap<Nm, Vec<Rd>>,
    /// CNAME fan-out width for synthetic names l<k>.<zone>
    fan: u8,
}

#[derive(Clone, Debug)]
struct World {
    seed: u64,
    zones: Vec<Zone>,
    /// hostility level per server (0 = honest)
    hostile: BTreeMap<Ip, u8>,
    evil: Ip,
    lame_code: u8,
    chain_in_answer: bool,
    poison: Vec<Rr>,
}

const EVIL_NS: [u8; 2] = [2, 5]; // e.b.

fn hash3(seed: u64, ip: Ip, q: &Q) -> u64 {
    let mut s = format!("{seed}/{ip:?}/{}/", q.1);
    for l in &q.0 {
        s.push_str(&format!("{l}."));
    }
    fnv(&s)
}

impl World {
    fn addr_of(&self, n: &Nm) -> Vec<Rd> {
        // ground truth: address records of the deepest zone containing the name
        let mut best: Option<&Zone> = None;
        for z in &self.zones {
            if is_sub(&z.name, n) && best.map_or(true, |b| z.name.len() > b.name.len()) {
                best = Some(z);
            }
        }
        best.and_then(|z| z.recs.get(n))
            .map(|v| v.iter().filter(|d| matches!(d, Rd::A(_) | Rd::Aaaa(_))).cloned().collect())
            .unwrap_or_default()
    }

    fn evil_answer(&self, q: &Q) -> Resp {
        match q.1 {
            T_A => Resp { rcode: 0, aa: true, an: vec![Rr { owner: q.0.clone(), rd: Rd::A(v4(6, 6, 6, 6)) }], au: vec![], ad: vec![] },
            _ => Resp { rcode: 0, aa: true, an: vec![], au: vec![Rr { owner: q.0.clone(), rd: Rd::Soa }], ad: vec![] },
        }
    }

    fn base_answer(&self, ip: Ip, q: &Q) -> Resp {
        if ip == self.evil {
            return self.evil_answer(q);
        }
        let (qn, qt) = (&q.0, q.1);
        let mut zi: Option<usize> = None;
        for (i, z) in self.zones.iter().enumerate() {
            if z.servers.contains(&ip) && is_sub(&z.name, qn) && zi.map_or(true, |b| z.name.len() > self.zones[b].name.len()) {
                zi = Some(i);
            }
        }
        let Some(zi) = zi else {
            return Resp { rcode: self.lame_code, ..Default::default() };
        };
        let z = &self.zones[zi];
        // delegation below this zone?
        for c in self.zones.iter().filter(|c| c.parent == Some(zi)) {
            if is_sub(&c.name, qn) && !(qt == T_DS && *qn == c.name) {
                let au: Vec<Rr> = c.ns.iter().map(|n| Rr { owner: c.name.clone(), rd: Rd::Ns(n.clone()) }).collect();
                let mut ad = vec![];
                if c.glue {
                    for n in &c.ns {
                        if is_sub(&z.name, n) {
                            for d in self.addr_of(n) {
                                ad.push(Rr { owner: n.clone(), rd: d });
                            }
                        }
                    }
                }
                return Resp { rcode: 0, aa: false, an: vec![], au, ad };
            }
        }
        let soa = Rr { owner: z.name.clone(), rd: Rd::Soa };
        // synthetic CNAME fan-out
        if z.fan > 0 && qn.len() == z.name.len() + 1 && qn[z.name.len()] > 26 && qn[z.name.len()] < 230 && qt == T_NS {
            return Resp { rcode: 0, aa: true, an: vec![], au: vec![soa], ad: vec![] };
        }
        if z.fan > 0 && qn.len() == z.name.len() + 1 && qn[z.name.len()] > 26 && qn[z.name.len()] < 230 {
            let k = qn[z.name.len()] as u32 - 26;
            let w = z.fan as u32;
            let mut an = vec![];
            for j in 1..=w {
                let t = k * w + j;
                if t + 26 <= 225 {
                    let mut tn = z.name.clone();
                    tn.push((t + 26) as u8);
                    an.push(Rr { owner: qn.clone(), rd: Rd::Cname(tn) });
                }
            }
            if an.is_empty() {
                an.push(Rr { owner: qn.clone(), rd: Rd::A(v4(20, 9, 9, 9)) });
            }
            return Resp { rcode: 0, aa: true, an, au: vec![], ad: vec![] };
        }
        let here: Vec<Rd> = z.recs.get(qn).cloned().unwrap_or_default();
        let matching: Vec<Rd> = here.iter().filter(|d| qt == T_ANY || rtype(d) == qt).cloned().collect();
        if !matching.is_empty() {
            let an: Vec<Rr> = matching.iter().map(|d| Rr { owner: qn.clone(), rd: d.clone() }).collect();
            let mut ad = vec![];
            if qt == T_NS {
                for d in &matching {
                    if let Rd::Ns(n) = d {
                        if is_sub(&z.name, n) {
                            for a in self.addr_of(n) {
                                ad.push(Rr { owner: n.clone(), rd: a });
                            }
                        }
                    }
                }
            }
            return Resp { rcode: 0, aa: true, an, au: vec![], ad };
        }
        if let Some(Rd::Cname(t)) = here.iter().find(|d| matches!(d, Rd::Cname(_))) {
            let mut an = vec![Rr { owner: qn.clone(), rd: Rd::Cname(t.clone()) }];
            if self.chain_in_answer {
                let mut cur = t.clone();
                for _ in 0..3 {
                    let Some(rs) = z.recs.get(&cur) else { break };
                    let m: Vec<&Rd> = rs.iter().filter(|d| rtype(d) == qt).collect();
                    if !m.is_empty() {
                        for d in m {
                            an.push(Rr { owner: cur.clone(), rd: d.clone() });
                        }
                        break;
                    }
                    if let Some(Rd::Cname(t2)) = rs.iter().find(|d| matches!(d, Rd::Cname(_))) {
                        an.push(Rr { owner: cur.clone(), rd: Rd::Cname(t2.clone()) });
                        cur = t2.clone();
                    } else {
                        break;
                    }
                }
            }
            return Resp { rcode: 0, aa: true, an, au: vec![], ad: vec![] };
        }
        let exists = !here.is_empty()
            || *qn == z.name
            || z.recs.keys().any(|k| is_sub(qn, k))
            || self.zones.iter().any(|c| c.parent == Some(zi) && is_sub(qn, &c.name));
        if exists {
            Resp { rcode: 0, aa: true, an: vec![], au: vec![soa], ad: vec![] }
        } else {
            Resp { rcode: 3, aa: true, an: vec![], au: vec![soa], ad: vec![] }
        }
    }
}

impl Net for World {
    fn answer(&self, ip: Ip, q: &Q) -> Resp {
        let mut r = self.base_answer(ip, q);
        let h = *self.hostile.get(&ip).unwrap_or(&0);
        if h == 0 || self.poison.is_empty() {
            return r;
        }
        let mut g = Rng::new(hash3(self.seed, ip, q));
        g.next();
        if g.below(4) >= h as u64 {
            return r;
        }
        let k = g.range(1, 3);
        for _ in 0..k {
            let mut p = g.pick(&self.poison).clone();
            // sometimes aim the record at the query name itself
            if g.chance(1, 4) {
                p.owner = q.0.clone();
            }
            match g.below(3) {
                0 => r.an.push(p),
                1 => r.au.push(p),
                _ => r.ad.push(p),
            }
        }
        if g.chance(1, 8) {
            r.rcode = *g.pick(&[0u8, 3, 3, 2, 5, 11]);
        }
        if g.chance(1, 8) {
            r.aa = !r.aa;
        }
        r
    }
}

fn cat(z: &Nm, l: &[u8]) -> Nm {
    // l is written leaf-first: cat(x.a, [n]) = n.x.a ; cat(x.a,[p,q]) = p.q.x.a
    let mut v = z.clone();
    for x in l.iter().rev() {
        v.push(*x);
    }
    v
}

const L_A: u8 = 1;
const L_B: u8 = 2;
const L_C: u8 = 3;
const L_D: u8 = 4;
const L_E: u8 = 5;
const L_K: u8 = 11;
const L_L: u8 = 12;
const L_M: u8 = 13;
const L_N: u8 = 14;
const L_P: u8 = 16;
const L_Q: u8 = 17;
const L_S: u8 = 19;
const L_T: u8 = 20;
const L_V: u8 = 22;
const L_W: u8 = 23;
const L_X: u8 = 24;
const L_Y: u8 = 25;

struct Gen {
    world: World,
    cfg: Cfg,
    queries: Vec<Q>,
    kind: &'static str,
    /// (query index, expected class, records that must be among the answers)
    expect: Vec<(usize, u8, Vec<Rr>)>,
}

fn add_rec(z: &mut Zone, n: Nm, d: Rd) {
    let e = z.recs.entry(n).or_default();
    if !e.contains(&d) {
        e.push(d);
    }
}

fn gen_case(r: &mut Rng, index: u64) -> Gen {
    let kind = match index % 16 {
        0 | 8 => "clean",
        1 | 2 | 3 | 9 | 10 | 11 | 15 => "hostile",
        4 | 12 => "loops",
        5 | 13 => "lame",
        6 | 14 => "limits",
        _ => "fan",
    };
    let clean = kind == "clean";
    let mut next_ip = 0u32;
    let mut fresh_ip = |r: &mut Rng, clean: bool| -> Ip {
        next_ip += 1;
        let net: u32 = if clean {
            20
        } else {
            match r.below(24) {
                0 | 1 => 21,
                2 => 22,
                _ => 20,
            }
        };
        let sub: u32 = if net != 20 && r.chance(1, 2) { 5 } else { 0 };
        if !clean && r.chance(1, 12) {
            Ip::V6((0x2001_0db9u128 << 96) | next_ip as u128)
        } else {
            Ip::V4((net << 24) | (sub << 16) | (1 << 8) | next_ip)
        }
    };
    // zone tree
    let mut zones: Vec<Zone> = vec![];
    let nroot = if clean { 1 } else { r.range(1, 2) };
    let root_ips: Vec<Ip> = (0..nroot).map(|i| Ip::V4(v4(20, 0, 0, 1 + i as u8))).collect();
    zones.push(Zone { name: vec![], parent: None, servers: root_ips.clone(), ns: vec![], glue: true, recs: BTreeMap::new(), fan: 0 });
    let tlds: Vec<u8> = if r.chance(1, 2) { vec![L_A, L_B] } else { vec![L_A] };
    for t in &tlds {
        let n = r.range(1, 2);
        let servers = (0..n).map(|_| fresh_ip(r, clean)).collect();
        zones.push(Zone { name: vec![*t], parent: Some(0), servers, ns: vec![], glue: true, recs: BTreeMap::new(), fan: 0 });
    }
    let ntld = zones.len();
    for zi in 1..ntld {
        for l in [L_X, L_Y] {
            if r.chance(3, 5) {
                let name = if !clean && r.chance(1, 6) { cat(&zones[zi].name, &[l, L_T]) } else { cat(&zones[zi].name, &[l]) };
                let n = r.range(1, 2);
                let servers = (0..n).map(|_| fresh_ip(r, clean)).collect();
                zones.push(Zone { name, parent: Some(zi), servers, ns: vec![], glue: true, recs: BTreeMap::new(), fan: 0 });
            }
        }
    }
    let nsld = zones.len();
    for zi in ntld..nsld {
        if r.chance(1, 3) {
            let name = cat(&zones[zi].name, &[L_S]);
            let servers = if r.chance(1, 4) { zones[zi].servers.clone() } else { vec![fresh_ip(r, clean)] };
            zones.push(Zone { name, parent: Some(zi), servers, ns: vec![], glue: true, recs: BTreeMap::new(), fan: 0 });
        }
    }
    // NS naming
    let nz = zones.len();
    for zi in 1..nz {
        let style = match kind {
            "clean" => *r.pick(&[0u64, 0, 2]),
            "hostile" => *r.pick(&[0u64, 0, 0, 0, 2, 2, 3, 5, 6]),
            "loops" => *r.pick(&[0u64, 0, 1, 3, 3, 5]),
            "lame" => *r.pick(&[0u64, 0, 2, 4, 6, 1]),
            _ => *r.pick(&[0u64, 0, 0, 2, 5]),
        };
        let zname = zones[zi].name.clone();
        let pi = zones[zi].parent.unwrap();
        let servers = zones[zi].servers.clone();
        let lame = kind == "lame" && r.chance(1, 3);
        let addr_for = |k: usize, r: &mut Rng| -> Ip {
            if lame {
                Ip::V4(v4(20, 0, 7, r.range(1, 3) as u8))
            } else {
                servers[k % servers.len()]
            }
        };
        let mut nsn: Vec<(Nm, usize)> = vec![]; // (ns name, zone that holds its address)
        match style {
            0 | 1 => {
                nsn.push((cat(&zname, &[L_N]), zi));
                if servers.len() > 1 {
                    nsn.push((cat(&zname, &[L_M]), zi));
                }
                zones[zi].glue = style == 0;
            }
            2 => {
                let pn = zones[pi].name.clone();
                nsn.push((cat(&pn, &[229 + *zname.last().unwrap()]), pi));
            }
            3 => {
                // host in some other zone (cycles possible)
                let oi = 1 + r.below((nz - 1) as u64) as usize;
                let on = zones[oi].name.clone();
                nsn.push((cat(&on, &[L_N]), oi));
                zones[zi].glue = r.chance(1, 2);
            }
            4 => {
                nsn.push((vec![9, 9], usize::MAX));
                if r.chance(1, 2) {
                    nsn.push((cat(&zname, &[L_N]), zi));
                }
            }
            5 => {
                nsn.push((zname.clone(), zi));
                zones[zi].glue = r.chance(2, 3);
            }
            _ => {
                nsn.push((cat(&zname, &[L_N]), zi));
                let oi = r.below(nz as u64) as usize;
                let on = zones[oi].name.clone();
                nsn.push((cat(&on, &[L_M, L_N]), oi));
            }
        }
        for (k, (n, holder)) in nsn.iter().enumerate() {
            zones[zi].ns.push(n.clone());
            if *holder != usize::MAX {
                let a = addr_for(k, r);
                let d = match a {
                    Ip::V4(x) => Rd::A(x),
                    Ip::V6(x) => Rd::Aaaa(x),
                };
                add_rec(&mut zones[*holder], n.clone(), d);
            }
        }
        let nsl = zones[zi].ns.clone();
        for n in nsl {
            add_rec(&mut zones[zi], zname.clone(), Rd::Ns(n));
        }
    }
    // hosts
    let mut hosts: Vec<Nm> = vec![];
    for zi in 1..nz {
        let zn = zones[zi].name.clone();
        let hip = |r: &mut Rng| -> u32 {
            let net = if clean { 20 } else { *r.pick(&[20u32, 20, 20, 22, 22]) };
            let sub = if net == 22 && r.chance(1, 2) { 5 } else { 0 };
            (net << 24) | (sub << 16) | (2 << 8) | r.range(1, 200) as u32
        };
        let w = cat(&zn, &[L_W]);
        add_rec(&mut zones[zi], w.clone(), Rd::A(hip(r)));
        hosts.push(w.clone());
        if r.chance(1, 2) {
            let v = cat(&zn, &[L_V]);
            add_rec(&mut zones[zi], v.clone(), Rd::A(hip(r)));
            add_rec(&mut zones[zi], v.clone(), Rd::Aaaa((0x2001_0db9u128 << 96) | (2 << 16) | r.range(1, 200) as u128));
            add_rec(&mut zones[zi], v.clone(), Rd::Other(T_TXT));
            hosts.push(v);
        }
        if r.chance(1, 2) {
            let c = cat(&zn, &[L_C]);
            add_rec(&mut zones[zi], c.clone(), Rd::Cname(w.clone()));
            hosts.push(c);
        }
        if !clean || r.chance(1, 3) {
            if r.chance(1, 2) {
                // CNAME into another zone
                let oi = 1 + r.below((nz - 1) as u64) as usize;
                let t = cat(&zones[oi].name.clone(), &[L_W]);
                let d = cat(&zn, &[L_D]);
                add_rec(&mut zones[zi], d.clone(), Rd::Cname(t));
                hosts.push(d);
            }
        }
        if !clean && r.chance(1, 3) {
            let e = cat(&zn, &[L_E]);
            add_rec(&mut zones[zi], e.clone(), Rd::Cname(cat(&zn, &[L_Q])));
            hosts.push(e);
        }
        if (kind == "loops" || kind == "limits") && r.chance(2, 3) {
            // loop l -> p -> l (p possibly in another zone)
            let l = cat(&zn, &[L_L]);
            let oi = 1 + r.below((nz - 1) as u64) as usize;
            let p = cat(&zones[oi].name.clone(), &[L_P]);
            add_rec(&mut zones[zi], l.clone(), Rd::Cname(p.clone()));
            add_rec(&mut zones[oi], p.clone(), Rd::Cname(l.clone()));
            hosts.push(l);
        }
        if (kind == "limits" || kind == "loops") && r.chance(2, 3) {
            // chain k -> l30 -> l31 -> ... -> w
            let len = r.range(2, 9) as u8;
            let mut prev = cat(&zn, &[L_K]);
            hosts.push(prev.clone());
            for j in 0..len {
                let nx = cat(&zn, &[30 + j]);
                add_rec(&mut zones[zi], prev.clone(), Rd::Cname(nx.clone()));
                prev = nx;
            }
            add_rec(&mut zones[zi], prev, Rd::Cname(w.clone()));
        }
        if kind == "fan" && (zi == nz - 1 || r.chance(1, 3)) {
            zones[zi].fan = r.range(2, 4) as u8;
            hosts.push(cat(&zn, &[27]));
        }
        if r.chance(1, 4) {
            let s = cat(&zn, &[0]);
            add_rec(&mut zones[zi], s.clone(), Rd::A(hip(r)));
            hosts.push(s);
        }
    }
    // hostility
    let evil = Ip::V4(v4(20, 0, 6, 6));
    let mut hostile = BTreeMap::new();
    if kind == "hostile" || (kind != "clean" && r.chance(1, 4)) {
        let all: Vec<Ip> = zones.iter().flat_map(|z| z.servers.clone()).collect();
        for ip in all {
            if r.chance(2, 5) {
                hostile.insert(ip, r.range(1, 4) as u8);
            }
        }
    }
    // poison records: foreign hosts, delegations to the evil server, aliases
    let mut poison = vec![];
    let evil_ns: Nm = EVIL_NS.to_vec();
    for z in zones.iter() {
        poison.push(Rr { owner: cat(&z.name, &[L_W]), rd: Rd::A(v4(20, 0, 6, 6)) });
        poison.push(Rr { owner: z.name.clone(), rd: Rd::Ns(evil_ns.clone()) });
        poison.push(Rr { owner: cat(&z.name, &[L_V]), rd: Rd::Cname(cat(&evil_ns, &[L_W])) });
        poison.push(Rr { owner: z.name.clone(), rd: Rd::Soa });
        for n in &z.ns {
            poison.push(Rr { owner: n.clone(), rd: Rd::A(v4(20, 0, 6, 6)) });
        }
    }
    poison.push(Rr { owner: evil_ns.clone(), rd: Rd::A(v4(20, 0, 6, 6)) });
    poison.push(Rr { owner: evil_ns.clone(), rd: Rd::A(v4(20, 0, 6, 6)) });
    poison.push(Rr { owner: cat(&vec![L_A], &[L_Q]), rd: Rd::Ns(evil_ns.clone()) });
    let world = World { seed: r.next(), zones, hostile, evil, lame_code: *r.pick(&[5u8, 2, 5, 1]), chain_in_answer: r.chance(1, 2), poison };
    // configuration
    let small = kind == "limits" || r.chance(1, 6);
    let mut rec_limit = if clean { 24 } else if small { *r.pick(&[1u8, 2, 3, 4, 6, 12]) } else { 24 };
    let mut ns_limit = if clean { 24 } else if small { *r.pick(&[1u8, 2, 3, 4, 5, 6, 8]) } else { 24 };
    if kind == "fan" {
        rec_limit = *r.pick(&[3u8, 6, 12, 24, 24]);
        ns_limit = *r.pick(&[8u8, 24, 24]);
    }
    let mut cfg = Cfg { roots: root_ips, rec_limit, ns_limit, min_ttl: r.chance(1, 3), ..Default::default() };
    if !clean {
        if r.chance(2, 3) {
            cfg.deny_server.push((Ip::V4(v4(21, 0, 0, 0)), 8));
            if r.chance(1, 2) {
                cfg.allow_server.push((Ip::V4(v4(21, 5, 0, 0)), 16));
            }
            if r.chance(1, 3) {
                cfg.deny_server.push((Ip::V6(0x2001_0db9u128 << 96), 32));
            }
        }
        if r.chance(2, 3) {
            cfg.deny_answer.push((Ip::V4(v4(22, 0, 0, 0)), 8));
            if r.chance(1, 2) {
                cfg.allow_answer.push((Ip::V4(v4(22, 5, 0, 0)), 16));
            }
        }
    }
    // queries
    let nq = r.range(3, 6) as usize;
    let mut queries: Vec<Q> = vec![];
    let mut expect = vec![];
    let mut pool: Vec<Nm> = hosts.clone();
    for z in world.zones.iter().skip(1) {
        pool.push(z.name.clone());
        pool.push(cat(&z.name, &[L_Q]));
        pool.extend(z.ns.iter().cloned());
    }
    for i in 0..nq {
        if i > 0 && r.chance(1, 4) {
            let q = r.pick(&queries).clone();
            queries.push(q);
            continue;
        }
        let mut n = r.pick(&pool).clone();
        if (kind == "fan" || kind == "limits" || kind == "loops") && r.chance(1, 2) {
            let special: Vec<&Nm> = hosts.iter().filter(|h| matches!(h.last(), Some(&27) | Some(&L_K) | Some(&L_L))).collect();
            if !special.is_empty() {
                n = (*r.pick(&special)).clone();
            }
        }
        if r.chance(1, 10) {
            n = cat(&n, &[L_P, L_Q]);
        }
        if r.chance(1, 25) {
            n = vec![];
        }
        if r.chance(1, 25) {
            n = cat(&n, &[0]);
        }
        let t = match r.below(20) {
            0..=10 => T_A,
            11 => T_AAAA,
            12 | 13 => T_NS,
            14 => T_CNAME,
            15 => T_SOA,
            16 => T_TXT,
            17 => T_DS,
            18 => T_ANY,
            _ => T_A,
        };
        queries.push((n, t));
    }
    if clean {
        for (i, q) in queries.iter().enumerate() {
            if q.1 == T_A || q.1 == T_AAAA {
                // direct host data?
                for z in world.zones.iter().skip(1) {
                    if let Some(rs) = z.recs.get(&q.0) {
                        let m: Vec<Rr> = rs.iter().filter(|d| rtype(d) == q.1).map(|d| Rr { owner: q.0.clone(), rd: d.clone() }).collect();
                        let deepest = world.zones.iter().filter(|y| is_sub(&y.name, &q.0)).map(|y| y.name.len()).max().unwrap();
                        if !m.is_empty() && z.name.len() == deepest {
                            expect.push((i, 0u8, m));
                        }
                    }
                }
            }
        }
    }
    Gen { world, cfg, queries, kind, expect }
}

// ---------------------------------------------------------------------------------------------
// oracle: the property evaluated on what the implementation did, without the model

fn net_contains(n: &(Ip, u8), a: Ip) -> bool {
    match (n.0, a) {
        (Ip::V4(b), Ip::V4(x)) => {
            let sh = 32 - n.1 as u32;
            sh >= 32 || (b >> sh) == (x >> sh)
        }
        (Ip::V6(b), Ip::V6(x)) => {
            let sh = 128 - n.1 as u32;
            sh >= 128 || (b >> sh) == (x >> sh)
        }
        _ => false,
    }
}
fn acl_denied(allow: &[(Ip, u8)], deny: &[(Ip, u8)], a: Ip) -> bool {
    deny.iter().any(|n| net_contains(n, a)) && !allow.iter().any(|n| net_contains(n, a))
}

struct OracleOut {
    fail: Option<String>,
    known: Option<String>,
}

fn rd_ip(d: &Rd) -> Option<Ip> {
    match d {
        Rd::A(x) => Some(Ip::V4(*x)),
        Rd::Aaaa(x) => Some(Ip::V6(*x)),
        _ => None,
    }
}

/// liberal closure of "who may speak for which zone", from the logged traffic only.
/// loose = also accept addresses taken from the answer section of an address query for the NS
/// name whatever their owner (the known-finding class)
fn authority(cfg: &Cfg, log: &[(Ip, Q, Resp)], loose: bool) -> BTreeSet<(Ip, Nm)> {
    let mut cands: BTreeSet<Nm> = BTreeSet::new();
    for (_, q, _) in log {
        for k in 1..=q.0.len() {
            cands.insert(q.0[..k].to_vec());
        }
    }
    let mut auth: BTreeSet<(Ip, Nm)> = cfg.roots.iter().map(|r| (*r, vec![])).collect();
    loop {
        let mut nsf: BTreeSet<(Nm, Nm)> = BTreeSet::new(); // (delegator zone, ns name)
        let mut adf: BTreeSet<(Nm, Ip)> = BTreeSet::new(); // (name, address)
        for (ip, q, resp) in log {
            for (ai, z) in auth.iter() {
                if ai != ip {
                    continue;
                }
                for (sec, rs) in [(0, &resp.an), (1, &resp.au), (2, &resp.ad)] {
                    for r in rs.iter() {
                        let inb = is_sub(z, &r.owner);
                        if let (Rd::Ns(t), true) = (&r.rd, inb) {
                            nsf.insert((z.clone(), t.clone()));
                        }
                        if let Some(a) = rd_ip(&r.rd) {
                            if inb {
                                adf.insert((r.owner.clone(), a));
                            }
                            if loose && sec == 0 && (q.1 == T_A || q.1 == T_AAAA) && is_sub(z, &q.0) {
                                adf.insert((q.0.clone(), a));
                            }
                        }
                    }
                }
            }
        }
        let mut add = vec![];
        for (zp, n) in &nsf {
            for (n2, a) in &adf {
                if n2 == n {
                    for c in &cands {
                        if is_sub(zp, c) && !auth.contains(&(*a, c.clone())) {
                            add.push((*a, c.clone()));
                        }
                    }
                }
            }
        }
        if add.is_empty() {
            return auth;
        }
        auth.extend(add);
    }
}

fn legit(auth: &BTreeSet<(Ip, Nm)>, log: &[(Ip, Q, Resp)], r: &Rr) -> bool {
    log.iter().any(|(ip, _, resp)| {
        (resp.an.contains(r) || resp.au.contains(r) || resp.ad.contains(r)) && auth.iter().any(|(a, z)| a == ip && is_sub(z, &r.owner))
    })
}

/// upper bound on upstream queries for one resolution: Model.v [query_bound] with w = the
/// largest number of NS records in any reply seen
fn query_bound(cfg: &Cfg, w: u64) -> u64 {
    let cap = 1u64 << 50;
    // walk_bound w k: 0 for k <= 1, else 1 + 2w + (w+1) * walk_bound w (k-1)
    let mut wb = 0u64;
    for k in 0..=(cfg.ns_limit as u64) {
        wb = if k <= 1 { 0 } else { (1 + 2 * w).saturating_add((w + 1).saturating_mul(wb)).min(cap) };
    }
    66u64.saturating_mul(wb + 1).min(cap)
}

fn oracle(g: &Gen, obs: &[Obs], log: &[(Ip, Q, Resp)], cap: usize) -> OracleOut {
    let cfg = &g.cfg;
    let mut genuine: Vec<String> = vec![];
    let mut known_a: Vec<String> = vec![]; // C19-glueless-address-owner
    let mut known_b: Vec<String> = vec![]; // C19-negative-unfiltered
    let strict = authority(cfg, log, false);
    let loose = authority(cfg, log, true);
    if log.len() >= cap {
        genuine.push(format!("more than {cap} upstream queries"));
    }
    let wn = log.iter().map(|(_, _, r)| r.an.iter().chain(&r.au).chain(&r.ad).filter(|x| matches!(x.rd, Rd::Ns(_))).count()).max().unwrap_or(0) as u64;
    let b = query_bound(cfg, wn);
    // ground truth on clean worlds
    for (i, cl, recs) in &g.expect {
        let o = &obs[*i];
        if o.class != *cl || !recs.iter().all(|r| o.an.contains(r)) {
            let q = &g.queries[*i];
            genuine.push(format!("query {} {} T{} on an honest, well-formed internet: expected class {} with [{}], got {}", i, nm_text(&q.0), q.1, cl, rrs_text(recs), obs_text(o)));
        }
    }
    for (i, o) in obs.iter().enumerate() {
        let q = &g.queries[i];
        let qtxt = format!("query {} {} T{}", i, nm_text(&q.0), q.1);
        if o.class >= 8 {
            genuine.push(format!("{qtxt}: did not end with an answer or a recognised error: {}", o.detail));
        }
        if cfg.rec_limit > 0 {
            // alias distance from the query name, counted in replies: every alias target in a
            // reply to (n, qtype) is one nested resolution further than n
            let mut dist: BTreeMap<Nm, u32> = BTreeMap::new();
            dist.insert(q.0.clone(), 0);
            let mut changed = true;
            while changed {
                changed = false;
                for (_, lq, resp) in log {
                    if lq.1 != q.1 {
                        continue;
                    }
                    let Some(d) = dist.get(&lq.0).copied() else { continue };
                    for r in resp.an.iter().chain(&resp.au).chain(&resp.ad) {
                        if let Rd::Cname(t) = &r.rd {
                            if dist.get(t).map_or(true, |x| *x > d + 1) {
                                dist.insert(t.clone(), d + 1);
                                changed = true;
                            }
                        }
                    }
                }
            }
            let targets: BTreeSet<&Nm> = o.contacted.iter().filter(|(_, cq)| cq.1 == q.1 && cq.0.last().map_or(false, |l| *l > 26 && *l < 230) && dist.get(&cq.0).map_or(false, |d| *d >= 1)).map(|(_, cq)| &cq.0).collect();
            if targets.len() > 64 {
                genuine.push(format!("{qtxt}: {} distinct alias targets were resolved in one resolution (MAX_CNAME_LOOKUPS is 64)", targets.len()));
            }
            for (_, cq) in &o.contacted {
                // only names that are nothing but alias targets: labels 27.. (chains, fan-out)
                if cq.1 == q.1 && cq.0.last().map_or(false, |l| *l > 26 && *l < 230) {
                    if let Some(d) = dist.get(&cq.0) {
                        if *d >= cfg.rec_limit as u32 {
                            genuine.push(format!("{qtxt}: followed aliases to {} at alias distance {} although recursion_limit is {}", nm_text(&cq.0), d, cfg.rec_limit));
                        }
                    }
                }
            }
        }
        if o.nsent as u64 > b {
            genuine.push(format!("{qtxt}: {} upstream queries, bound {b}", o.nsent));
        }
        for (ip, cq) in &o.contacted {
            if !cfg.roots.contains(ip) && acl_denied(&cfg.allow_server, &cfg.deny_server, *ip) {
                genuine.push(format!("{qtxt}: contacted {} which the server filter denies", to_ip(*ip)));
            }
            let ok = |a: &BTreeSet<(Ip, Nm)>| a.iter().any(|(x, z)| x == ip && is_sub(z, &cq.0));
            if !ok(&strict) {
                if ok(&loose) {
                    known_a.push(format!("{qtxt}: {} asked for {} T{}: its address was only learned from an answer record whose owner is not the name server's name", to_ip(*ip), nm_text(&cq.0), cq.1));
                } else {
                    genuine.push(format!("{qtxt}: {} asked for {} T{} without being in authority for any enclosing zone (out-of-bailiwick data used as a server address)", to_ip(*ip), nm_text(&cq.0), cq.1));
                }
            }
        }
        if o.class == 0 {
            for r in o.an.iter().chain(&o.au).chain(&o.ad) {
                if let Some(a) = rd_ip(&r.rd) {
                    if acl_denied(&cfg.allow_answer, &cfg.deny_answer, a) {
                        genuine.push(format!("{qtxt}: returned address {} which the answer filter denies", to_ip(a)));
                    }
                }
                if !legit(&strict, log, r) {
                    if legit(&loose, log, r) {
                        known_a.push(format!("{qtxt}: returned [{}] from a server reached through an address of that kind", rr_text(r)));
                    } else {
                        genuine.push(format!("{qtxt}: returned out-of-bailiwick record [{}]: no server in authority over its owner sent it", rr_text(r)));
                    }
                }
            }
        } else if o.class <= 3 {
            for r in o.au.iter().chain(&o.ad) {
                if !legit(&loose, log, r) {
                    known_b.push(format!("{qtxt}: error result (class {}) carries out-of-bailiwick record [{}]", o.class, rr_text(r)));
                }
            }
        }
    }
    if !genuine.is_empty() {
        OracleOut { fail: Some(genuine.join("; ")), known: None }
    } else if !known_a.is_empty() {
        OracleOut { fail: Some(known_a.join("; ")), known: Some("C19-glueless-address-owner".into()) }
    } else if !known_b.is_empty() {
        OracleOut { fail: Some(known_b.join("; ")), known: Some("C19-negative-unfiltered".into()) }
    } else {
        OracleOut { fail: None, known: None }
    }
}

// ---------------------------------------------------------------------------------------------
// Coq terms

fn coq_nm(n: &Nm) -> String {
    format!("[{}]", n.iter().map(|l| l.to_string()).collect::<Vec<_>>().join(";"))
}
fn coq_ip(ip: Ip) -> String {
    match ip {
        Ip::V4(x) => format!("V4 {x}"),
        Ip::V6(x) => format!("V6 {x}"),
    }
}
fn coq_rr(r: &Rr) -> String {
    let d = match &r.rd {
        Rd::A(x) => format!("(RA {x})"),
        Rd::Aaaa(x) => format!("(RAAAA {x})"),
        Rd::Ns(n) => format!("(RNS {})", coq_nm(n)),
        Rd::Cname(n) => format!("(RCNAME {})", coq_nm(n)),
        Rd::Soa => "RSOA".to_string(),
        Rd::Other(t) => format!("(ROther {t})"),
    };
    format!("R {} {}", coq_nm(&r.owner), d)
}
fn coq_rrs(v: &[Rr]) -> String {
    format!("[{}]", v.iter().map(coq_rr).collect::<Vec<_>>().join(";"))
}
fn coq_q(q: &Q) -> String {
    format!("({},{})", coq_nm(&q.0), q.1)
}
fn coq_resp(r: &Resp) -> String {
    format!("M {} {} {} {} {}", r.rcode, r.aa, coq_rrs(&r.an), coq_rrs(&r.au), coq_rrs(&r.ad))
}
fn coq_nets(v: &[(Ip, u8)]) -> String {
    format!(
        "[{}]",
        v.iter()
            .map(|(ip, l)| match ip {
                Ip::V4(x) => format!("mkNet false {x} {l}"),
                Ip::V6(x) => format!("mkNet true {x} {l}"),
            })
            .collect::<Vec<_>>()
            .join(";")
    )
}
fn coq_cfg(c: &Cfg) -> String {
    format!(
        "(mkCfg [{}] {} {} (mkAcs {} {}) (mkAcs {} {}) {})",
        c.roots.iter().map(|i| coq_ip(*i)).collect::<Vec<_>>().join(";"),
        c.rec_limit,
        c.ns_limit,
        coq_nets(&c.allow_server),
        coq_nets(&c.deny_server),
        coq_nets(&c.allow_answer),
        coq_nets(&c.deny_answer),
        c.min_ttl
    )
}

fn coq_case(g: &Gen, obs: &[Obs], log: &[(Ip, Q, Resp)]) -> String {
    let mut seen = BTreeSet::new();
    let mut tbl = vec![];
    for (ip, q, r) in log {
        if seen.insert((*ip, q.clone())) {
            tbl.push(format!("({},{},{})", coq_ip(*ip), coq_q(q), coq_resp(r)));
        }
    }
    let steps: Vec<String> = g
        .queries
        .iter()
        .zip(obs)
        .map(|(q, o)| {
            format!(
                "({},O {} {} {} {} [{}])",
                coq_q(q),
                o.class,
                coq_rrs(&o.an),
                coq_rrs(&o.au),
                coq_rrs(&o.ad),
                o.contacted.iter().map(|(ip, cq)| format!("({},{})", coq_ip(*ip), coq_q(cq))).collect::<Vec<_>>().join(";")
            )
        })
        .collect();
    format!("CRun {} [{}] [{}]", coq_cfg(&g.cfg), tbl.join(";"), steps.join(";"))
}


// ---------------------------------------------------------------------------------------------
// stub resolver alias chase: CachingClient over a scripted upstream

use hickory_net::runtime::TokioRuntimeProvider;
use hickory_net::xfer::DnsHandle;
use hickory_net::NetError;
use hickory_proto::op::{DnsRequest, DnsRequestOptions, DnsResponse};
use hickory_resolver::caching_client::CachingClient;

/// what the upstream says about a name (for the queried type)
#[derive(Clone, Debug, PartialEq, Eq)]
enum SRep {
    /// address records at the name
    Found,
    /// alias to another name, target data not included
    Cname(Nm),
    /// two aliases in one reply: name -> mid -> target, target data not included
    Cname2(Nm, Nm),
    NxDomain,
    NoData,
    ServFail,
}

#[derive(Clone)]
struct Scripted {
    script: Arc<BTreeMap<Nm, SRep>>,
    log: Arc<Mutex<Vec<Q>>>,
}

impl DnsHandle for Scripted {
    type Response = futures_util::stream::Once<futures_util::future::Ready<Result<DnsResponse, NetError>>>;
    type Runtime = TokioRuntimeProvider;

    fn send(&self, request: DnsRequest) -> Self::Response {
        let query = request.queries[0].clone();
        let qn = from_name(&query.name);
        let qt = u16::from(query.query_type);
        self.log.lock().unwrap().push((qn.clone(), qt));
        let rep = self.script.get(&qn).cloned().unwrap_or(SRep::NxDomain);
        let soa = Rr { owner: vec![], rd: Rd::Soa };
        let resp = match rep {
            SRep::Found => Resp { rcode: 0, aa: true, an: vec![Rr { owner: qn.clone(), rd: if qt == T_AAAA { Rd::Aaaa(7) } else { Rd::A(v4(20, 1, 1, 1)) } }], au: vec![], ad: vec![] },
            SRep::Cname(t) => Resp { rcode: 0, aa: true, an: vec![Rr { owner: qn.clone(), rd: Rd::Cname(t) }], au: vec![], ad: vec![] },
            SRep::Cname2(m, t) => Resp { rcode: 0, aa: true, an: vec![Rr { owner: qn.clone(), rd: Rd::Cname(m.clone()) }, Rr { owner: m, rd: Rd::Cname(t) }], au: vec![], ad: vec![] },
            SRep::NxDomain => Resp { rcode: 3, aa: true, an: vec![], au: vec![soa], ad: vec![] },
            SRep::NoData => Resp { rcode: 0, aa: true, an: vec![], au: vec![soa], ad: vec![] },
            SRep::ServFail => Resp { rcode: 2, ..Default::default() },
        };
        let msg = to_message(request.metadata.id, &query, &resp);
        futures_util::stream::once(futures_util::future::ready(DnsResponse::from_message(msg).map_err(NetError::from)))
    }
}

fn stub_case(seed: u64, index: u64, r: &mut Rng) -> CaseOut {
    // names: single labels 1..=n under label 3 ("c."), to stay clear of special-use names
    let n = r.range(2, 7) as u8;
    let name = |k: u8| -> Nm { vec![3, k] };
    let mut script: BTreeMap<Nm, SRep> = BTreeMap::new();
    let style = r.below(4);
    for k in 1..=n {
        let rep = match style {
            // long chain 1 -> 2 -> ... -> n
            0 => {
                if k < n {
                    SRep::Cname(name(k + 1))
                } else {
                    r.pick(&[SRep::Found, SRep::Found, SRep::NxDomain, SRep::NoData]).clone()
                }
            }
            // loop
            1 => SRep::Cname(name(k % n + 1)),
            _ => match r.below(8) {
                0 | 1 => SRep::Found,
                2 => SRep::NxDomain,
                3 => SRep::NoData,
                4 => SRep::ServFail,
                5 => SRep::Cname2(name(r.range(1, n as u64) as u8), name(r.range(1, n as u64 + 1) as u8)),
                _ => SRep::Cname(name(r.range(1, n as u64 + 1) as u8)),
            },
        };
        script.insert(name(k), rep);
    }
    // long chains beyond the limit
    if style == 0 && r.chance(1, 2) {
        for k in n + 1..n + 12 {
            script.insert(name(k - 1), SRep::Cname(name(k)));
            script.insert(name(k), SRep::Found);
        }
    }
    let qt = *r.pick(&[T_A, T_A, T_AAAA]);
    let q: Q = (name(1), qt);
    let preserve = r.chance(1, 2);
    let log = Arc::new(Mutex::new(vec![]));
    let handle = Scripted { script: Arc::new(script.clone()), log: log.clone() };
    let rt = tokio::runtime::Builder::new_current_thread().enable_time().start_paused(true).build().unwrap();
    let res = rt.block_on(async {
        let client = CachingClient::new(64, handle, preserve);
        let fut = client.lookup(Query::new(to_name(&q.0), to_rtype(q.1)), DnsRequestOptions::default());
        tokio::time::timeout(Duration::from_secs(600), fut).await
    });
    let (class, detail) = match &res {
        Err(_) => (9u8, "hang".to_string()),
        Ok(Ok(l)) => (0u8, format!("{} answers", l.answers().len())),
        Ok(Err(e)) => (1u8, format!("{e}")),
    };
    let sent = log.lock().unwrap().clone();
    let mut fail = None;
    if class == 9 {
        fail = Some("stub lookup did not finish".to_string());
    } else if sent.len() > 8 {
        fail = Some(format!("stub resolver sent {} upstream queries chasing aliases (MAX_QUERY_DEPTH is 8)", sent.len()));
    }
    let coq_rep = |rep: &SRep| -> String {
        match rep {
            SRep::Found => "SFound".into(),
            SRep::Cname(t) => format!("SCname {}", coq_nm(t)),
            SRep::Cname2(_, t) => format!("SCname {}", coq_nm(t)),
            _ => "SNone".into(),
        }
    };
    let coq = format!(
        "CStub [{}] {} [{}] {}",
        script.iter().map(|(k, v)| format!("({},{})", coq_nm(k), coq_rep(v))).collect::<Vec<_>>().join(";"),
        coq_q(&q),
        sent.iter().map(coq_q).collect::<Vec<_>>().join(";"),
        class
    );
    let stext = script.iter().map(|(k, v)| format!("{}={:?}", nm_text(k), v)).collect::<Vec<_>>().join(" ");
    CaseOut {
        index,
        coq,
        text: format!("seed={seed} index={index} stub preserve={preserve} script=[{stext}] query={} T{} => class={class} sent={} ({detail})", nm_text(&q.0), q.1, sent.len()),
        key: format!("{script:?}|{q:?}|{preserve}"),
        nontrivial: sent.len() >= 2,
        kind: "stub".into(),
        oracle_fail: fail,
        known: None,
    }
}

const CAP: usize = 4000;

fn case(seed: u64, index: u64) -> CaseOut {
    let mut r = Rng::for_case(seed, index);
    if index % 32 == 31 {
        return stub_case(seed, index, &mut r);
    }
    let g = gen_case(&mut r, index);
    let world = Arc::new(g.world.clone());
    let run = guard(std::panic::AssertUnwindSafe(|| run_case(&g.cfg, world, &g.queries, CAP)));
    let (obs, log) = match run {
        Ok(x) => x,
        Err(p) => {
            let qs: Vec<String> = g.queries.iter().map(|q| format!("{} T{}", nm_text(&q.0), q.1)).collect();
            return CaseOut {
                index,
                coq: format!("CRun {} [] [(([],1),O 98 [] [] [] [])]", coq_cfg(&g.cfg)),
                text: format!("seed={seed} index={index} {} limits={}/{} queries=[{}] => PANIC {p}", g.kind, g.cfg.rec_limit, g.cfg.ns_limit, qs.join(", ")),
                key: format!("{:?}|{:?}", g.cfg, g.queries),
                nontrivial: false,
                kind: g.kind.to_string(),
                oracle_fail: Some(format!("the recursor panicked: {p}")),
                known: None,
            };
        }
    };
    let o = oracle(&g, &obs, &log, CAP);
    let coq = coq_case(&g, &obs, &log);
    let qtext: Vec<String> = g.queries.iter().zip(&obs).map(|(q, o)| format!("{} T{} -> {}", nm_text(&q.0), q.1, obs_text(o))).collect();
    let zones: Vec<String> = g
        .world
        .zones
        .iter()
        .map(|z| format!("{}@{}{} ns={}", nm_text(&z.name), z.servers.iter().map(|i| to_ip(*i).to_string()).collect::<Vec<_>>().join("+"), if z.glue { "" } else { "(noglue)" }, z.ns.iter().map(nm_text).collect::<Vec<_>>().join("+")))
        .collect();
    let key = format!("{:?}|{:?}|{:?}|{:?}", g.cfg, g.world.zones, g.world.hostile, g.queries);
    let text = format!(
        "seed={seed} index={index} {} limits={}/{} minttl={} deny_srv={:?} deny_ans={:?} hostile={:?} zones=[{}] :: {}",
        g.kind,
        g.cfg.rec_limit,
        g.cfg.ns_limit,
        g.cfg.min_ttl,
        g.cfg.deny_server.iter().map(net_str).collect::<Vec<_>>(),
        g.cfg.deny_answer.iter().map(net_str).collect::<Vec<_>>(),
        g.world.hostile.iter().map(|(i, h)| format!("{}:{h}", to_ip(*i))).collect::<Vec<_>>(),
        zones.join(" | "),
        qtext.join(" ;; ")
    );
    CaseOut {
        index,
        coq,
        text,
        key,
        nontrivial: log.len() >= 3,
        kind: g.kind.to_string(),
        oracle_fail: o.fail,
        known: o.known,
    }
}

// ---------------------------------------------------------------------------------------------
// table-driven network for probes

struct TableNet {
    t: HashMap<(Ip, Q), Resp>,
}
impl Net for TableNet {
    fn answer(&self, ip: Ip, q: &Q) -> Resp {
        self.t.get(&(ip, q.clone())).cloned().unwrap_or(Resp { rcode: 5, ..Default::default() })
    }
}

fn nm(s: &str) -> Nm {
    // "a.b." written leaf first as usual
    let mut v: Vec<u8> = s.split('.').filter(|x| !x.is_empty()).map(label_id).collect();
    v.reverse();
    v
}
fn rr(owner: &str, rd: Rd) -> Rr {
    Rr { owner: nm(owner), rd }
}
fn v4(a: u8, b: u8, c: u8, d: u8) -> u32 {
    u32::from(Ipv4Addr::new(a, b, c, d))
}

fn rr_text(r: &Rr) -> String {
    let d = match &r.rd {
        Rd::A(n) => format!("A {}", Ipv4Addr::from(*n)),
        Rd::Aaaa(n) => format!("AAAA {}", Ipv6Addr::from(*n)),
        Rd::Ns(n) => format!("NS {}", nm_text(n)),
        Rd::Cname(n) => format!("CNAME {}", nm_text(n)),
        Rd::Soa => "SOA".to_string(),
        Rd::Other(t) => format!("T{t}"),
    };
    format!("{} {}", nm_text(&r.owner), d)
}
fn rrs_text(v: &[Rr]) -> String {
    v.iter().map(rr_text).collect::<Vec<_>>().join(", ")
}
fn obs_text(o: &Obs) -> String {
    format!(
        "class={} an=[{}] au=[{}] ad=[{}] contacted=[{}] ({})",
        o.class,
        rrs_text(&o.an),
        rrs_text(&o.au),
        rrs_text(&o.ad),
        o.contacted.iter().map(|(ip, q)| format!("{}<-{} T{}", to_ip(*ip), nm_text(&q.0), q.1)).collect::<Vec<_>>().join(", "),
        o.detail
    )
}

fn probe() {
    let root = Ip::V4(v4(20, 0, 0, 1));
    let tld = Ip::V4(v4(20, 0, 0, 2));
    let leaf = Ip::V4(v4(20, 0, 0, 3));
    let evil = Ip::V4(v4(20, 0, 0, 66));
    let mut t: HashMap<(Ip, Q), Resp> = HashMap::new();
    // root: referral a. -> ns.a. (glue)
    t.insert((root, (nm("a."), T_NS)), Resp { rcode: 0, aa: false, an: vec![], au: vec![rr("a.", Rd::Ns(nm("n.a.")))], ad: vec![rr("n.a.", Rd::A(v4(20, 0, 0, 2)))] });
    // tld: referral x.a. -> n.x.a. (glue) + poison attempts
    t.insert(
        (tld, (nm("x.a."), T_NS)),
        Resp {
            rcode: 0,
            aa: false,
            an: vec![],
            au: vec![rr("x.a.", Rd::Ns(nm("n.x.a."))), rr("b.", Rd::Ns(nm("n.x.a.")))],
            ad: vec![rr("n.x.a.", Rd::A(v4(20, 0, 0, 3))), rr("w.b.", Rd::A(v4(20, 0, 0, 66)))],
        },
    );
    // leaf: no NS for w.x.a.; answer for A with extra records
    t.insert((leaf, (nm("w.x.a."), T_NS)), Resp { rcode: 0, aa: true, an: vec![], au: vec![rr("x.a.", Rd::Soa)], ad: vec![] });
    t.insert(
        (leaf, (nm("w.x.a."), T_A)),
        Resp {
            rcode: 0,
            aa: true,
            an: vec![rr("w.x.a.", Rd::A(v4(20, 0, 1, 1))), rr("v.b.", Rd::A(v4(20, 0, 0, 66)))],
            au: vec![rr("x.a.", Rd::Ns(nm("n.x.a."))), rr("a.", Rd::Ns(nm("e.b.")))],
            ad: vec![rr("n.x.a.", Rd::A(v4(20, 0, 0, 3))), rr("e.b.", Rd::A(v4(20, 0, 0, 66)))],
        },
    );
    // negative with foreign SOA
    t.insert((leaf, (nm("q.x.a."), T_NS)), Resp { rcode: 3, aa: true, an: vec![], au: vec![rr("b.", Rd::Soa), rr("b.", Rd::Ns(nm("e.b.")))], ad: vec![rr("e.b.", Rd::A(v4(20, 0, 0, 66)))] });
    // glueless: y.a. NS n.y.a. without glue; the parent pool gets asked for A n.y.a.
    t.insert((tld, (nm("y.a."), T_NS)), Resp { rcode: 0, aa: false, an: vec![], au: vec![rr("y.a.", Rd::Ns(nm("n.y.a.")))], ad: vec![] });
    t.insert((tld, (nm("n.y.a."), T_A)), Resp { rcode: 0, aa: true, an: vec![rr("z.b.", Rd::A(v4(20, 0, 0, 66)))], au: vec![], ad: vec![] });
    t.insert((evil, (nm("w.y.a."), T_NS)), Resp { rcode: 0, aa: true, an: vec![], au: vec![rr("y.a.", Rd::Soa)], ad: vec![] });
    t.insert((evil, (nm("w.y.a."), T_A)), Resp { rcode: 0, aa: true, an: vec![rr("w.y.a.", Rd::A(v4(6, 6, 6, 6)))], au: vec![], ad: vec![] });
    let cfg = Cfg { roots: vec![root], rec_limit: 24, ns_limit: 24, ..Default::default() };
    let qs = vec![(nm("w.x.a."), T_A), (nm("w.x.a."), T_A), (nm("q.x.a."), T_A), (nm("q.x.a."), T_A), (nm("w.y.a."), T_A), (nm("v.b."), T_A)];
    let (obs, log) = run_case(&cfg, Arc::new(TableNet { t }), &qs, 1000);
    for (q, o) in qs.iter().zip(obs.iter()) {
        println!("Q {} T{} => {}", nm_text(&q.0), q.1, obs_text(o));
    }
    println!("log: {} entries", log.len());
}

fn main() {
    let args = parse_args();
    if args.extra.contains_key("probe") {
        probe();
        return;
    }
    quiet_panics();
    if let Some((seed, index)) = args.replay {
        let c = case(seed, index);
        println!("{}", c.text);
        println!("COQ {}", c.coq);
        if let Some(f) = c.oracle_fail {
            println!("ORACLE-FAIL {f}");
        }
        return;
    }
    let mut cases = vec![];
    for index in 0..args.n {
        cases.push(case(args.seed, index));
    }
    emit(
        "C19",
        "C19",
        &args,
        &cases,
        "one case = one simulated internet (root + up to 3 levels of zones, 1-2 servers per zone, NS names in-zone/in the parent/in other zones/nonexistent/at the apex, with or without glue, lame servers, CNAME chains/loops/fan-out, hostile servers appending foreign records to any section) + a recursor configuration (limits, server and answer filters, minimum TTLs) + 3-6 client queries run in sequence on one Recursor. Non-trivial = at least 3 upstream queries; distinct by (configuration, zone tree, hostile set, queries).",
        serde_json::json!({}),
    );
}
