//! C19 — recursor bailiwick / termination harness (first slice: world + runner + probe)
#![allow(dead_code)]
use std::collections::{BTreeMap, BTreeSet, HashMap};
use std::net::{IpAddr, Ipv4Addr, Ipv6Addr};
use std::sync::{Arc, Mutex};
use std::time::{Duration, Instant};

use hickory_net::xfer::Protocol;
use hickory_proto::op::{Message, OpCode, Query, ResponseCode};
use hickory_proto::rr::rdata::{A, AAAA, CNAME, NS, SOA, TXT};
use hickory_proto::rr::{Name, RData, Record, RecordType};
use hickory_resolver::config::ResolverOpts;
use hickory_resolver::recursor::{Recursor, RecursorError, RecursorOptions};
use hickory_resolver::TtlConfig;
use test_support::{MockHandler, MockProvider};
use vph::*;

// ---------------------------------------------------------------------------------------------
// abstract data (mirrors coq/C19/Model.v)

/// name = label ids, root first; label 0 is "*"
type Nm = Vec<u8>;

#[derive(Clone, Copy, PartialEq, Eq, Hash, PartialOrd, Ord, Debug)]
enum Ip {
    V4(u32),
    V6(u128),
}

#[derive(Clone, PartialEq, Eq, Hash, PartialOrd, Ord, Debug)]
enum Rd {
    A(u32),
    Aaaa(u128),
    Ns(Nm),
    Cname(Nm),
    Soa,
    Other(u16),
}

#[derive(Clone, PartialEq, Eq, Hash, PartialOrd, Ord, Debug)]
struct Rr {
    owner: Nm,
    rd: Rd,
}

#[derive(Clone, PartialEq, Eq, Debug, Default)]
struct Resp {
    rcode: u8,
    aa: bool,
    an: Vec<Rr>,
    au: Vec<Rr>,
    ad: Vec<Rr>,
}

type Q = (Nm, u16);

const T_A: u16 = 1;
const T_NS: u16 = 2;
const T_CNAME: u16 = 5;
const T_SOA: u16 = 6;
const T_TXT: u16 = 16;
const T_AAAA: u16 = 28;
const T_DS: u16 = 43;
const T_ANY: u16 = 255;

fn rtype(rd: &Rd) -> u16 {
    match rd {
        Rd::A(_) => T_A,
        Rd::Aaaa(_) => T_AAAA,
        Rd::Ns(_) => T_NS,
        Rd::Cname(_) => T_CNAME,
        Rd::Soa => T_SOA,
        Rd::Other(t) => *t,
    }
}

fn label_str(l: u8) -> String {
    if l == 0 {
        "*".to_string()
    } else if l <= 26 {
        ((b'a' + l - 1) as char).to_string()
    } else {
        format!("l{l}")
    }
}

fn label_id(s: &str) -> u8 {
    if s == "*" {
        0
    } else if s.len() == 1 {
        s.as_bytes()[0].to_ascii_lowercase() - b'a' + 1
    } else {
        s[1..].parse().unwrap()
    }
}

fn to_name(n: &Nm) -> Name {
    let mut s = String::new();
    for l in n.iter().rev() {
        s.push_str(&label_str(*l));
        s.push('.');
    }
    if s.is_empty() {
        s.push('.');
    }
    Name::from_ascii(&s).unwrap()
}

fn from_name(n: &Name) -> Nm {
    let mut v: Vec<u8> = n.iter().map(|l| label_id(std::str::from_utf8(l).unwrap())).collect();
    v.reverse();
    v
}

fn nm_text(n: &Nm) -> String {
    to_name(n).to_string()
}

fn to_ip(ip: Ip) -> IpAddr {
    match ip {
        Ip::V4(n) => IpAddr::V4(Ipv4Addr::from(n)),
        Ip::V6(n) => IpAddr::V6(Ipv6Addr::from(n)),
    }
}

fn from_ip(ip: IpAddr) -> Ip {
    match ip {
        IpAddr::V4(a) => Ip::V4(u32::from(a)),
        IpAddr::V6(a) => Ip::V6(u128::from(a)),
    }
}

fn to_rtype(t: u16) -> RecordType {
    RecordType::from(t)
}

fn to_record(r: &Rr) -> Record {
    let rd = match &r.rd {
        Rd::A(n) => RData::A(A(Ipv4Addr::from(*n))),
        Rd::Aaaa(n) => RData::AAAA(AAAA(Ipv6Addr::from(*n))),
        Rd::Ns(n) => RData::NS(NS(to_name(n))),
        Rd::Cname(n) => RData::CNAME(CNAME(to_name(n))),
        Rd::Soa => RData::SOA(SOA::new(Name::root(), Name::root(), 1, 3600, 3600, 3600, 3600)),
        Rd::Other(_) => RData::TXT(TXT::new(vec!["x".to_string()])),
    };
    Record::from_rdata(to_name(&r.owner), 3600, rd)
}

fn from_record(r: &Record) -> Rr {
    let rd = match &r.data {
        RData::A(A(a)) => Rd::A(u32::from(*a)),
        RData::AAAA(AAAA(a)) => Rd::Aaaa(u128::from(*a)),
        RData::NS(NS(n)) => Rd::Ns(from_name(n)),
        RData::CNAME(CNAME(n)) => Rd::Cname(from_name(n)),
        RData::SOA(_) => Rd::Soa,
        other => Rd::Other(u16::from(other.record_type())),
    };
    Rr { owner: from_name(&r.name), rd }
}

fn to_message(id: u16, q: &Query, r: &Resp) -> Message {
    let mut m = Message::response(id, OpCode::Query);
    m.add_query(q.clone());
    m.metadata.authoritative = r.aa;
    m.metadata.response_code = ResponseCode::from(0, r.rcode);
    for x in &r.an {
        m.add_answer(to_record(x));
    }
    for x in &r.au {
        m.add_authority(to_record(x));
    }
    for x in &r.ad {
        m.add_additional(to_record(x));
    }
    m
}

fn is_sub(parent: &Nm, child: &Nm) -> bool {
    child.len() >= parent.len() && child[..parent.len()] == parent[..]
}

// ---------------------------------------------------------------------------------------------
// network: any function (ip, query) -> response, with a log

trait Net: Send + Sync {
    fn answer(&self, ip: Ip, q: &Q) -> Resp;
}

struct LoggingHandler {
    net: Arc<dyn Net>,
    log: Arc<Mutex<Vec<(Ip, Q, Resp)>>>,
    cap: usize,
}

impl MockHandler for LoggingHandler {
    fn handle(&self, destination: IpAddr, _protocol: Protocol, request: Message) -> Message {
        let query = request.queries[0].clone();
        let q: Q = (from_name(&query.name), u16::from(query.query_type));
        let ip = from_ip(destination);
        let mut log = self.log.lock().unwrap();
        let resp = if log.len() >= self.cap {
            Resp { rcode: 2, ..Default::default() }
        } else {
            self.net.answer(ip, &q)
        };
        log.push((ip, q, resp.clone()));
        to_message(request.metadata.id, &query, &resp)
    }
}

// ---------------------------------------------------------------------------------------------
// configuration of the recursor under test

#[derive(Clone, Debug, Default)]
struct Cfg {
    roots: Vec<Ip>,
    rec_limit: u8,
    ns_limit: u8,
    /// (v6, base, prefix length)
    deny_server: Vec<(Ip, u8)>,
    allow_server: Vec<(Ip, u8)>,
    deny_answer: Vec<(Ip, u8)>,
    allow_answer: Vec<(Ip, u8)>,
    /// positive/negative minimum TTL of one hour configured
    min_ttl: bool,
}

fn net_str(n: &(Ip, u8)) -> String {
    format!("{}/{}", to_ip(n.0), n.1)
}

/// observation of one resolution
#[derive(Clone, Debug, PartialEq, Eq)]
struct Obs {
    /// 0 ok, 1 negative nx, 2 negative nodata, 3 forward-ns, 4 recursion limit, 5 cname limit,
    /// 6 net error, 7 message, 9 hang/other
    class: u8,
    an: Vec<Rr>,
    au: Vec<Rr>,
    ad: Vec<Rr>,
    /// contacted during this resolution
    contacted: Vec<(Ip, Q)>,
    detail: String,
}

fn run_case(cfg: &Cfg, net: Arc<dyn Net>, queries: &[Q], cap: usize) -> (Vec<Obs>, Vec<(Ip, Q, Resp)>) {
    let log = Arc::new(Mutex::new(vec![]));
    let handler = LoggingHandler { net, log: log.clone(), cap };
    let rt = tokio::runtime::Builder::new_current_thread().enable_time().start_paused(true).build().unwrap();
    let mut out = vec![];
    rt.block_on(async {
        let provider = MockProvider::new(handler);
        let mut opts = RecursorOptions {
            recursion_limit: cfg.rec_limit,
            ns_recursion_limit: cfg.ns_limit,
            deny_server: cfg.deny_server.iter().map(|n| net_str(n).parse().unwrap()).collect(),
            allow_server: cfg.allow_server.iter().map(|n| net_str(n).parse().unwrap()).collect(),
            deny_answers: cfg.deny_answer.iter().map(|n| net_str(n).parse().unwrap()).collect(),
            allow_answers: cfg.allow_answer.iter().map(|n| net_str(n).parse().unwrap()).collect(),
            ..RecursorOptions::default()
        };
        if cfg.min_ttl {
            let mut ro = ResolverOpts::default();
            ro.positive_min_ttl = Some(Duration::from_secs(3600));
            ro.negative_min_ttl = Some(Duration::from_secs(3600));
            opts.cache_policy = TtlConfig::from_opts(&ro);
        }
        let roots: Vec<IpAddr> = cfg.roots.iter().map(|i| to_ip(*i)).collect();
        let recursor = match Recursor::with_options(&roots, opts, provider) {
            Ok(r) => r,
            Err(e) => {
                out.push(Obs { class: 9, an: vec![], au: vec![], ad: vec![], contacted: vec![], detail: format!("build: {e}") });
                return;
            }
        };
        for q in queries {
            let before = log.lock().unwrap().len();
            let query = Query::new(to_name(&q.0), to_rtype(q.1));
            let fut = recursor.resolve(query, Instant::now(), false);
            let res = tokio::time::timeout(Duration::from_secs(600), fut).await;
            let mut obs = Obs { class: 9, an: vec![], au: vec![], ad: vec![], contacted: vec![], detail: String::new() };
            match res {
                Err(_) => obs.detail = "hang (virtual 600 s)".into(),
                Ok(Ok(m)) => {
                    obs.class = 0;
                    obs.an = m.answers.iter().map(from_record).collect();
                    obs.au = m.authorities.iter().map(from_record).collect();
                    obs.ad = m.additionals.iter().map(from_record).collect();
                    obs.detail = format!("rcode={} aa={}", u16::from(m.metadata.response_code), m.metadata.authoritative);
                }
                Ok(Err(e)) => {
                    obs.detail = format!("{e}");
                    match &e {
                        RecursorError::Negative(d) => {
                            obs.class = if d.nx_domain { 1 } else { 2 };
                            if let Some(soa) = &d.soa {
                                obs.au.push(Rr { owner: from_name(&soa.name), rd: Rd::Soa });
                            }
                            if let Some(a) = &d.authorities {
                                obs.ad.extend(a.iter().map(from_record));
                            }
                        }
                        RecursorError::ForwardNS(ns) => {
                            obs.class = 3;
                            for f in ns.iter() {
                                obs.au.push(from_record(&f.ns));
                                obs.ad.extend(f.glue.iter().map(from_record));
                            }
                        }
                        RecursorError::RecursionLimitExceeded { .. } => obs.class = 4,
                        RecursorError::MaxRecordLimitExceeded { .. } => obs.class = 5,
                        RecursorError::Net(_) => obs.class = 6,
                        RecursorError::Message(_) | RecursorError::Msg(_) => obs.class = 7,
                        _ => obs.class = 8,
                    }
                }
            }
            obs.an.sort();
            obs.au.sort();
            obs.ad.sort();
            let l = log.lock().unwrap();
            let mut c: Vec<(Ip, Q)> = l[before..].iter().map(|(ip, q, _)| (*ip, q.clone())).collect();
            c.sort();
            c.dedup();
            obs.contacted = c;
            out.push(obs);
        }
    });
    drop(rt);
    let l = log.lock().unwrap().clone();
    (out, l)
}

// ---------------------------------------------------------------------------------------------
// table-driven network for probes

struct TableNet {
    t: HashMap<(Ip, Q), Resp>,
}
impl Net for TableNet {
    fn answer(&self, ip: Ip, q: &Q) -> Resp {
        self.t.get(&(ip, q.clone())).cloned().unwrap_or(Resp { rcode: 5, ..Default::default() })
    }
}

fn nm(s: &str) -> Nm {
    // "a.b." written leaf first as usual
    let mut v: Vec<u8> = s.split('.').filter(|x| !x.is_empty()).map(label_id).collect();
    v.reverse();
    v
}
fn rr(owner: &str, rd: Rd) -> Rr {
    Rr { owner: nm(owner), rd }
}
fn v4(a: u8, b: u8, c: u8, d: u8) -> u32 {
    u32::from(Ipv4Addr::new(a, b, c, d))
}

fn rr_text(r: &Rr) -> String {
    let d = match &r.rd {
        Rd::A(n) => format!("A {}", Ipv4Addr::from(*n)),
        Rd::Aaaa(n) => format!("AAAA {}", Ipv6Addr::from(*n)),
        Rd::Ns(n) => format!("NS {}", nm_text(n)),
        Rd::Cname(n) => format!("CNAME {}", nm_text(n)),
        Rd::Soa => "SOA".to_string(),
        Rd::Other(t) => format!("T{t}"),
    };
    format!("{} {}", nm_text(&r.owner), d)
}
fn rrs_text(v: &[Rr]) -> String {
    v.iter().map(rr_text).collect::<Vec<_>>().join(", ")
}
fn obs_text(o: &Obs) -> String {
    format!(
        "class={} an=[{}] au=[{}] ad=[{}] contacted=[{}] ({})",
        o.class,
        rrs_text(&o.an),
        rrs_text(&o.au),
        rrs_text(&o.ad),
        o.contacted.iter().map(|(ip, q)| format!("{}<-{} T{}", to_ip(*ip), nm_text(&q.0), q.1)).collect::<Vec<_>>().join(", "),
        o.detail
    )
}

fn probe() {
    let root = Ip::V4(v4(20, 0, 0, 1));
    let tld = Ip::V4(v4(20, 0, 0, 2));
    let leaf = Ip::V4(v4(20, 0, 0, 3));
    let evil = Ip::V4(v4(20, 0, 0, 66));
    let mut t: HashMap<(Ip, Q), Resp> = HashMap::new();
    // root: referral a. -> ns.a. (glue)
    t.insert((root, (nm("a."), T_NS)), Resp { rcode: 0, aa: false, an: vec![], au: vec![rr("a.", Rd::Ns(nm("n.a.")))], ad: vec![rr("n.a.", Rd::A(v4(20, 0, 0, 2)))] });
    // tld: referral x.a. -> n.x.a. (glue) + poison attempts
    t.insert(
        (tld, (nm("x.a."), T_NS)),
        Resp {
            rcode: 0,
            aa: false,
            an: vec![],
            au: vec![rr("x.a.", Rd::Ns(nm("n.x.a."))), rr("b.", Rd::Ns(nm("n.x.a.")))],
            ad: vec![rr("n.x.a.", Rd::A(v4(20, 0, 0, 3))), rr("w.b.", Rd::A(v4(20, 0, 0, 66)))],
        },
    );
    // leaf: no NS for w.x.a.; answer for A with extra records
    t.insert((leaf, (nm("w.x.a."), T_NS)), Resp { rcode: 0, aa: true, an: vec![], au: vec![rr("x.a.", Rd::Soa)], ad: vec![] });
    t.insert(
        (leaf, (nm("w.x.a."), T_A)),
        Resp {
            rcode: 0,
            aa: true,
            an: vec![rr("w.x.a.", Rd::A(v4(20, 0, 1, 1))), rr("v.b.", Rd::A(v4(20, 0, 0, 66)))],
            au: vec![rr("x.a.", Rd::Ns(nm("n.x.a."))), rr("a.", Rd::Ns(nm("e.b.")))],
            ad: vec![rr("n.x.a.", Rd::A(v4(20, 0, 0, 3))), rr("e.b.", Rd::A(v4(20, 0, 0, 66)))],
        },
    );
    // negative with foreign SOA
    t.insert((leaf, (nm("q.x.a."), T_NS)), Resp { rcode: 3, aa: true, an: vec![], au: vec![rr("b.", Rd::Soa), rr("b.", Rd::Ns(nm("e.b.")))], ad: vec![rr("e.b.", Rd::A(v4(20, 0, 0, 66)))] });
    // glueless: y.a. NS n.y.a. without glue; the parent pool gets asked for A n.y.a.
    t.insert((tld, (nm("y.a."), T_NS)), Resp { rcode: 0, aa: false, an: vec![], au: vec![rr("y.a.", Rd::Ns(nm("n.y.a.")))], ad: vec![] });
    t.insert((tld, (nm("n.y.a."), T_A)), Resp { rcode: 0, aa: true, an: vec![rr("z.b.", Rd::A(v4(20, 0, 0, 66)))], au: vec![], ad: vec![] });
    t.insert((evil, (nm("w.y.a."), T_NS)), Resp { rcode: 0, aa: true, an: vec![], au: vec![rr("y.a.", Rd::Soa)], ad: vec![] });
    t.insert((evil, (nm("w.y.a."), T_A)), Resp { rcode: 0, aa: true, an: vec![rr("w.y.a.", Rd::A(v4(6, 6, 6, 6)))], au: vec![], ad: vec![] });
    let cfg = Cfg { roots: vec![root], rec_limit: 24, ns_limit: 24, ..Default::default() };
    let qs = vec![(nm("w.x.a."), T_A), (nm("w.x.a."), T_A), (nm("q.x.a."), T_A), (nm("q.x.a."), T_A), (nm("w.y.a."), T_A), (nm("v.b."), T_A)];
    let (obs, log) = run_case(&cfg, Arc::new(TableNet { t }), &qs, 1000);
    for (q, o) in qs.iter().zip(obs.iter()) {
        println!("Q {} T{} => {}", nm_text(&q.0), q.1, obs_text(o));
    }
    println!("log: {} entries", log.len());
}

fn main() {
    let args = parse_args();
    if !args.extra.contains_key("probe") {
        quiet_panics();
    }
    if args.extra.contains_key("probe") {
        probe();
        return;
    }
    let _ = (BTreeMap::<u8, u8>::new(), BTreeSet::<u8>::new());
}
