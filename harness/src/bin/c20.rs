//! C20 — zone-file text -> records.  Drives the real `Parser::new(text, None, origin).parse()`.
//! Case = (origin, text as Latin-1 code points).  Observation = class (0 Ok, 1 lexer error,
//! 2 other error, 3 panic) + canonical byte dump of every loaded record.
//!
//! Families (index mod 20): record sets printed by an independent RFC 1035 section 5 printer with
//! per-line random layout (oracle: loaded records == generated records); the same with layouts
//! that are legal but known to be mishandled (deviation classes, see `Dev`); targeted
//! malformations of a valid zone (oracle: Err); random mutations, token soup and raw garbage
//! (oracle: no panic); boundary family around the lexer's former 4096-iteration cap (lines of 4085..5000 characters must load).

use std::collections::BTreeSet;
use std::io::Read;

use hickory_proto::rr::{Name, RData, Record, RecordType};
use hickory_proto::serialize::binary::{BinEncodable, BinEncoder, NameEncoding};
use hickory_proto::serialize::txt::{ParseError, Parser};
use vph::*;

// ---------------------------------------------------------------- observation

#[derive(Clone, Debug, PartialEq, Eq)]
struct Obs {
    class: u8,
    recs: Vec<Vec<u8>>,
    /// same dump with every name lower-cased (what the oracle compares)
    lrecs: Vec<Vec<u8>>,
    msg: String,
}

fn name_bytes(n: &Name, lower: bool, out: &mut Vec<u8>) {
    out.push(n.is_fqdn() as u8);
    out.push(n.iter().count() as u8);
    for l in n.iter() {
        out.push(l.len() as u8);
        if lower {
            out.extend(l.iter().map(|b| b.to_ascii_lowercase()));
        } else {
            out.extend_from_slice(l);
        }
    }
}

/// type tags of the canonical dump (NOT the DNS type codes): modelled types only
fn type_tag(t: RecordType) -> u8 {
    match t {
        RecordType::A => 1,
        RecordType::NS => 2,
        RecordType::CNAME => 3,
        RecordType::MX => 4,
        RecordType::TXT => 5,
        RecordType::SOA => 6,
        RecordType::PTR => 7,
        _ => 255,
    }
}

fn rec_bytes(r: &Record, lower: bool) -> Vec<u8> {
    let mut o = vec![];
    name_bytes(&r.name, lower, &mut o);
    o.push(type_tag(r.record_type()));
    o.extend_from_slice(&u16::from(r.dns_class).to_be_bytes());
    o.extend_from_slice(&r.ttl.to_be_bytes());
    match &r.data {
        RData::A(a) => o.extend_from_slice(&a.0.octets()),
        RData::NS(n) => name_bytes(&n.0, lower, &mut o),
        RData::CNAME(n) => name_bytes(&n.0, lower, &mut o),
        RData::PTR(n) => name_bytes(&n.0, lower, &mut o),
        RData::MX(m) => {
            o.extend_from_slice(&m.preference.to_be_bytes());
            name_bytes(&m.exchange, lower, &mut o);
        }
        RData::TXT(t) => {
            o.extend_from_slice(&(t.txt_data.len() as u16).to_be_bytes());
            for s in t.txt_data.iter() {
                o.extend_from_slice(&(s.len() as u16).to_be_bytes());
                o.extend_from_slice(s);
            }
        }
        RData::SOA(s) => {
            name_bytes(&s.mname, lower, &mut o);
            name_bytes(&s.rname, lower, &mut o);
            o.extend_from_slice(&s.serial.to_be_bytes());
            o.extend_from_slice(&(s.refresh as u32).to_be_bytes());
            o.extend_from_slice(&(s.retry as u32).to_be_bytes());
            o.extend_from_slice(&(s.expire as u32).to_be_bytes());
            o.extend_from_slice(&s.minimum.to_be_bytes());
        }
        other => {
            // a type outside the Coq model: DNS type code and the RDATA as uncompressed, lower-cased wire bytes
            // (compared by the oracle of the `other-types` family only; the model answers "unmodelled")
            o.push(0xEE);
            o.extend_from_slice(&u16::from(r.record_type()).to_be_bytes());
            let mut buf = Vec::new();
            {
                let mut e = BinEncoder::new(&mut buf);
                e.canonical_form = true;
                e.name_encoding = NameEncoding::UncompressedLowercase;
                if other.emit(&mut e).is_err() {
                    buf = vec![0xFF];
                }
            }
            o.extend(buf);
        }
    }
    o
}

fn latin1(b: &[u8]) -> String {
    b.iter().map(|x| *x as char).collect()
}

fn run_impl(origin: Option<&GName>, text: &[u8]) -> Obs {
    let s = latin1(text);
    let origin = origin.map(|o| Name::from_labels(o.labels.iter().map(|l| &l[..])).expect("harness origin"));
    match guard(move || Parser::new(s, None, origin).parse()) {
        Err(p) => Obs { class: 3, recs: vec![], lrecs: vec![], msg: format!("PANIC {p}") },
        Ok(Err(e)) => {
            let class = if matches!(e, ParseError::Lexer(_)) { 1 } else { 2 };
            let mut m = format!("Err {e}");
            m.truncate(120);
            Obs { class, recs: vec![], lrecs: vec![], msg: m }
        }
        Ok(Ok((_origin, map))) => {
            let mut recs = vec![];
            let mut lrecs = vec![];
            for (_k, set) in map.iter() {
                for r in set.records_without_rrsigs() {
                    recs.push(rec_bytes(r, false));
                    lrecs.push(rec_bytes(r, true));
                }
            }
            recs.sort();
            lrecs.sort();
            Obs { class: 0, recs, lrecs, msg: "Ok".into() }
        }
    }
}

fn show_text(b: &[u8]) -> String {
    let mut s = String::new();
    for &c in b {
        match c {
            b'\n' => s.push_str("\\n"),
            b'\r' => s.push_str("\\r"),
            b'\t' => s.push_str("\\t"),
            b'\\' => s.push_str("\\\\"),
            0x20..=0x7e => s.push(c as char),
            _ => s.push_str(&format!("\\x{c:02x}")),
        }
    }
    s
}

// ---------------------------------------------------------------- generated zones (the spec side)

#[derive(Clone, Debug, PartialEq, Eq, PartialOrd, Ord)]
struct GName {
    labels: Vec<Vec<u8>>, // absolute
}

#[derive(Clone, Debug, PartialEq, Eq, PartialOrd, Ord)]
enum GData {
    A([u8; 4]),
    Ns(GName),
    Cname(GName),
    Ptr(GName),
    Mx(u16, GName),
    /// strings as Latin-1 code points; the bytes denoted are their UTF-8 encoding
    Txt(Vec<Vec<u8>>),
    Soa(GName, GName, u32, u32, u32, u32, u32),
}

#[derive(Clone, Debug)]
struct GRec {
    owner: GName,
    class: u16,
    ttl: u32,
    data: GData,
}

fn lower(v: &[u8]) -> Vec<u8> {
    v.iter().map(|b| b.to_ascii_lowercase()).collect()
}

impl GName {
    fn lower(&self) -> GName {
        GName { labels: self.labels.iter().map(|l| lower(l)).collect() }
    }
    fn enc(&self, out: &mut Vec<u8>) {
        out.push(1);
        out.push(self.labels.len() as u8);
        for l in &self.labels {
            out.push(l.len() as u8);
            out.extend(lower(l));
        }
    }
    fn is_under(&self, origin: &GName) -> bool {
        let n = self.labels.len();
        let m = origin.labels.len();
        n > m && self.lower().labels[n - m..] == origin.lower().labels[..]
    }
    fn wire_len(&self) -> usize {
        self.labels.iter().map(|l| l.len() + 1).sum::<usize>() + 1
    }
}

fn utf8_of_latin1(s: &[u8]) -> Vec<u8> {
    latin1(s).into_bytes()
}

impl GData {
    fn tag(&self) -> u8 {
        match self {
            GData::A(_) => 1,
            GData::Ns(_) => 2,
            GData::Cname(_) => 3,
            GData::Mx(..) => 4,
            GData::Txt(_) => 5,
            GData::Soa(..) => 6,
            GData::Ptr(_) => 7,
        }
    }
    fn mnemonic(&self) -> &'static str {
        match self {
            GData::A(_) => "A",
            GData::Ns(_) => "NS",
            GData::Cname(_) => "CNAME",
            GData::Mx(..) => "MX",
            GData::Txt(_) => "TXT",
            GData::Soa(..) => "SOA",
            GData::Ptr(_) => "PTR",
        }
    }
}

/// expected canonical dump (names lower-cased)
fn expected_bytes(r: &GRec) -> Vec<u8> {
    let mut o = vec![];
    r.owner.enc(&mut o);
    o.push(r.data.tag());
    o.extend_from_slice(&r.class.to_be_bytes());
    o.extend_from_slice(&r.ttl.to_be_bytes());
    match &r.data {
        GData::A(a) => o.extend_from_slice(a),
        GData::Ns(n) | GData::Cname(n) | GData::Ptr(n) => n.enc(&mut o),
        GData::Mx(p, n) => {
            o.extend_from_slice(&p.to_be_bytes());
            n.enc(&mut o);
        }
        GData::Txt(ss) => {
            o.extend_from_slice(&(ss.len() as u16).to_be_bytes());
            for s in ss {
                let u = utf8_of_latin1(s);
                o.extend_from_slice(&(u.len() as u16).to_be_bytes());
                o.extend_from_slice(&u);
            }
        }
        GData::Soa(m, r, a, b, c, d, e) => {
            m.enc(&mut o);
            r.enc(&mut o);
            for v in [a, b, c, d, e] {
                o.extend_from_slice(&v.to_be_bytes());
            }
        }
    }
    o
}

const ORIGINS: &[&[&str]] = &[&["example", "com"], &["zone", "test"], &["a", "b", "c", "d"], &["Example", "ORG"], &[]];

fn gen_label(r: &mut Rng) -> Vec<u8> {
    const WORDS: &[&str] = &["www", "mail", "ns1", "ns2", "a", "b", "x", "host-1", "Foo", "BAR", "in", "mx", "txt", "10", "1h", "a1b2"];
    match r.below(12) {
        0..=6 => r.pick(WORDS).as_bytes().to_vec(),
        7 => {
            // random LDH label
            let n = r.range(1, 12) as usize;
            let mut v: Vec<u8> = (0..n).map(|_| *r.pick(b"abcdefghijklmnopqrstuvwxyz0123456789-ABCXYZ")).collect();
            if v[0] == b'-' {
                v[0] = b'q';
            }
            v
        }
        8 => {
            // SRV-like label
            let mut v = b"_".to_vec();
            v.extend(r.pick(&["sip", "tcp", "udp", "Ldap", "a-b", "x_y"]).as_bytes());
            v
        }
        9 => {
            // a dot inside a label (printed as \.)
            let mut v = r.pick(&["first", "j", "a1"]).as_bytes().to_vec();
            v.push(b'.');
            v.extend(r.pick(&["last", "k", "9", ""]).as_bytes());
            v
        }
        10 => {
            let n = *r.pick(&[1usize, 62, 63]);
            (0..n).map(|i| b'a' + ((i * 7) % 26) as u8).collect()
        }
        _ => r.pick(WORDS).as_bytes().to_vec(),
    }
}

fn gen_name(r: &mut Rng, origin: &GName, pool: &[GName]) -> GName {
    match r.below(10) {
        0 => origin.clone(),
        1..=2 if !pool.is_empty() => r.pick(pool).clone(),
        3..=7 => {
            // under the origin
            let k = r.range(1, 3) as usize;
            let mut labels: Vec<Vec<u8>> = (0..k).map(|_| gen_label(r)).collect();
            if r.chance(1, 12) {
                labels[0] = b"*".to_vec();
            }
            labels.extend(origin.labels.iter().cloned());
            fit(GName { labels })
        }
        8 => {
            // elsewhere; sometimes a name of exactly 255 octets
            if r.chance(1, 6) {
                let l = |n: usize, c: u8| -> Vec<u8> { std::iter::repeat(c).take(n).collect() };
                return GName { labels: vec![l(61, b'w'), l(63, b'x'), l(63, b'y'), l(63, b'z')] };
            }
            let k = r.range(1, 4) as usize;
            fit(GName { labels: (0..k).map(|_| gen_label(r)).collect() })
        }
        _ => {
            if r.chance(1, 4) {
                GName { labels: vec![] }
            } else {
                let mut labels = vec![gen_label(r)];
                labels.extend(origin.labels.iter().cloned());
                fit(GName { labels })
            }
        }
    }
}

/// keep the name within 255 octets
fn fit(mut n: GName) -> GName {
    while n.wire_len() > 255 {
        n.labels.remove(0);
    }
    n
}

fn gen_ttl(r: &mut Rng) -> u32 {
    match r.below(8) {
        0 => *r.pick(&[0u32, 1, 59, 60, 3600, 86400, 604800, 2147483647, 2147483648, 4294967295]),
        1..=4 => *r.pick(&[60u32, 300, 3600, 86400]),
        5 => r.range(0, 100000) as u32,
        _ => r.next() as u32,
    }
}

fn gen_string(r: &mut Rng) -> Vec<u8> {
    let n = match r.below(8) {
        0 => 0,
        1 => *r.pick(&[1usize, 254, 255]),
        _ => r.range(1, 24) as usize,
    };
    let style = r.below(4);
    let mut out = vec![];
    while out.len() < n {
        let c = match style {
            0 => *r.pick(b"abcdefghijklmnopqrstuvwxyz0123456789=-_."),
            1 => *r.pick(b"abcXYZ019 \t\"\\;()@$.=+/~'"),
            2 => r.range(0x20, 0x7e) as u8,
            _ => *r.pick(&[b'v', b'=', b's', b'p', b'f', b'1', b' ', b'"', b'\\', 0xe9, 0xfc, 0xa1, 0xff, 0xa0, b'\n', b';']),
        };
        // a TXT string is at most 255 octets once encoded
        let add = if c >= 0x80 { 2 } else { 1 };
        if utf8_of_latin1(&out).len() + add > 255 {
            break;
        }
        out.push(c);
    }
    out
}

fn gen_data(r: &mut Rng, origin: &GName, pool: &[GName], allow_soa: bool) -> GData {
    match r.below(12) {
        0..=2 => GData::A([r.next() as u8, *r.pick(&[0u8, 1, 9, 10, 99, 100, 199, 200, 255]), r.next() as u8, r.range(0, 255) as u8]),
        3..=4 => GData::Ns(gen_name(r, origin, pool)),
        5 => GData::Cname(gen_name(r, origin, pool)),
        6 => GData::Ptr(gen_name(r, origin, pool)),
        7..=8 => GData::Mx(*r.pick(&[0u16, 1, 10, 20, 65535, 1000]), gen_name(r, origin, pool)),
        9..=10 => {
            let k = if r.chance(1, 6) { r.range(2, 5) } else { r.range(1, 2) } as usize;
            GData::Txt((0..k).map(|_| gen_string(r)).collect())
        }
        _ if allow_soa => GData::Soa(
            gen_name(r, origin, pool),
            gen_name(r, origin, pool),
            r.next() as u32,
            (r.next() as u32) >> 1,
            *r.pick(&[0u32, 900, 3600, 2147483647]),
            (r.next() as u32) >> r.range(1, 20),
            gen_ttl(r),
        ),
        _ => GData::A([192, 0, 2, r.next() as u8]),
    }
}

/// a record set without duplicates: at most one SOA, one CNAME per owner, distinct RDATA per (owner,type)
fn gen_zone(r: &mut Rng, origin: &GName) -> Vec<GRec> {
    let n = match r.below(6) {
        0 => 1,
        1 => r.range(8, 14),
        _ => r.range(2, 7),
    } as usize;
    let mut recs: Vec<GRec> = vec![];
    let mut pool: Vec<GName> = vec![];
    let mut seen: BTreeSet<Vec<u8>> = BTreeSet::new();
    let mut have_soa = false;
    let one_class = r.chance(5, 6);
    while recs.len() < n {
        let owner = if !recs.is_empty() && r.chance(2, 5) {
            recs.last().unwrap().owner.clone()
        } else {
            gen_name(r, origin, &pool)
        };
        let data = gen_data(r, origin, &pool, !have_soa);
        let mut key = vec![];
        owner.enc(&mut key);
        key.push(data.tag());
        let mut full = key.clone();
        match &data {
            GData::Soa(..) | GData::Cname(_) => {}
            d => {
                let tmp = GRec { owner: owner.clone(), class: 1, ttl: 0, data: d.clone() };
                full.extend(expected_bytes(&tmp));
            }
        }
        if !seen.insert(full) {
            continue;
        }
        if let GData::Soa(..) = data {
            have_soa = true;
        }
        let class = if one_class { 1 } else { *r.pick(&[1u16, 1, 1, 3, 4]) };
        pool.push(owner.clone());
        recs.push(GRec { owner, class, ttl: gen_ttl(r), data });
    }
    recs
}

// ---------------------------------------------------------------- the independent printer

/// legal layouts the loader is known to mishandle (each is a finding class; the model predicts
/// the deviating behaviour exactly, the oracle reports them under these ids)
#[derive(Clone, Copy, Debug, PartialEq, Eq, PartialOrd, Ord)]
enum Dev {
    /// F2b: a quoted string inside ( ) is split at blanks and keeps its quotes
    QuoteInParens,
    /// F2b: \DDD in a quoted string is computed as (d1<<16)+(d2<<8)+d3
    DddInString,
    /// F2b: @ as a domain name inside RDATA is a parse error
    AtInRdata,
    /// \DDD in a domain name is read as octal
    DddInName,
    /// \X in an unquoted string is kept verbatim (backslash included)
    EscapeUnquoted,
}

impl Dev {
    fn id(self) -> &'static str {
        match self {
            Dev::QuoteInParens => "C20-F2b-quote-in-parens",
            Dev::DddInString => "C20-F2b-ddd-in-string",
            Dev::AtInRdata => "C20-F2b-at-in-rdata",
            Dev::DddInName => "C20-F2b-ddd-in-name",
            Dev::EscapeUnquoted => "C20-F2b-escape-unquoted",
        }
    }
}

struct Printer<'a> {
    r: &'a mut Rng,
    out: Vec<u8>,
    origin: GName,
    prev_owner: Option<GName>,
    dttl: Option<u32>,
    last_ttl: Option<u32>,
    last_class: Option<u16>,
    /// allow the deviation layouts
    devs_on: bool,
    devs: BTreeSet<Dev>,
    plain: bool,
}

fn ttl_units(mut t: u32) -> String {
    let mut s = String::new();
    for (u, c) in [(604800u32, 'w'), (86400, 'd'), (3600, 'h'), (60, 'm')] {
        if t >= u {
            s.push_str(&format!("{}{}", t / u, c));
            t %= u;
        }
    }
    if t > 0 || s.is_empty() {
        s.push_str(&format!("{t}s"));
    }
    s
}

impl<'a> Printer<'a> {
    fn gap(&mut self) {
        if self.plain {
            self.out.push(b' ');
            return;
        }
        let n = if self.r.chance(3, 4) { 1 } else { self.r.range(2, 4) };
        for _ in 0..n {
            let c = if self.r.chance(1, 5) { b'\t' } else { b' ' };
            self.out.push(c);
        }
    }
    fn comment_text(&mut self) -> Vec<u8> {
        let n = self.r.range(0, 20) as usize;
        (0..n).map(|_| *self.r.pick(b"abc xyz 019 ;;\"()@$\\.\t'!#\xe9\xa0")).collect()
    }
    fn eol(&mut self) {
        if !self.plain && self.r.chance(1, 5) {
            if self.r.chance(1, 2) {
                self.gap();
            }
            self.out.push(b';');
            let c = self.comment_text();
            self.out.extend(c);
        } else if !self.plain && self.r.chance(1, 8) {
            self.gap();
        }
        if !self.plain && self.r.chance(1, 6) {
            self.out.push(b'\r');
        }
        self.out.push(b'\n');
    }
    fn filler_lines(&mut self) {
        if self.plain {
            return;
        }
        while self.r.chance(1, 5) {
            match self.r.below(3) {
                0 => {}
                1 => self.gap(),
                _ => {
                    if self.r.chance(1, 2) {
                        self.gap();
                    }
                    self.out.push(b';');
                    let c = self.comment_text();
                    self.out.extend(c);
                }
            }
            if self.r.chance(1, 6) {
                self.out.push(b'\r');
            }
            self.out.push(b'\n');
        }
    }
    fn label_text(&mut self, l: &[u8]) -> Vec<u8> {
        let mut o = vec![];
        for &b in l {
            if b == b'.' {
                if self.devs_on && self.r.chance(1, 3) {
                    self.devs.insert(Dev::DddInName);
                    o.extend_from_slice(b"\\046");
                } else {
                    o.extend_from_slice(b"\\.");
                }
            } else {
                o.push(b);
            }
        }
        o
    }
    fn labels_text(&mut self, ls: &[Vec<u8>]) -> Vec<u8> {
        let mut o = vec![];
        for (i, l) in ls.iter().enumerate() {
            if i > 0 {
                o.push(b'.');
            }
            let t = self.label_text(l);
            o.extend(t);
        }
        o
    }
    /// a domain name in the current origin's context
    fn name_text(&mut self, n: &GName, owner_pos: bool) -> Vec<u8> {
        if n.lower() == self.origin.lower() && !self.plain {
            if owner_pos && self.r.chance(1, 2) {
                return b"@".to_vec();
            }
            if !owner_pos && self.devs_on && self.r.chance(1, 3) {
                self.devs.insert(Dev::AtInRdata);
                return b"@".to_vec();
            }
        }
        if n.is_under(&self.origin) && !self.plain && self.r.chance(2, 3) {
            let k = n.labels.len() - self.origin.labels.len();
            return self.labels_text(&n.labels[..k]);
        }
        if n.labels.is_empty() {
            return b".".to_vec();
        }
        let mut o = self.labels_text(&n.labels);
        o.push(b'.');
        o
    }
    fn ttl_text(&mut self, t: u32) -> Vec<u8> {
        if !self.plain && self.r.chance(1, 4) {
            let s = ttl_units(t);
            if self.r.chance(1, 2) { s.to_uppercase().into_bytes() } else { s.into_bytes() }
        } else if !self.plain && self.r.chance(1, 10) {
            format!("00{t}").into_bytes()
        } else {
            t.to_string().into_bytes()
        }
    }
    fn mnemonic(&mut self, m: &str) -> Vec<u8> {
        if !self.plain && self.r.chance(1, 4) { m.to_lowercase().into_bytes() } else { m.as_bytes().to_vec() }
    }
    fn directive_origin(&mut self, n: &GName) {
        self.out.extend_from_slice(b"$ORIGIN");
        self.gap();
        let t = if !self.plain && n.is_under(&self.origin) && self.r.chance(1, 2) {
            // a relative name is completed with the current origin (RFC 1035 5.1; former finding
            // C20-F2e, repaired: no finding class any more, a wrong load is a plain violation)
            let k = n.labels.len() - self.origin.labels.len();
            self.labels_text(&n.labels[..k])
        } else {
            let saved = std::mem::replace(&mut self.origin, GName { labels: vec![b"\x00none".to_vec()] });
            let t = self.name_text(n, false); // absolute: nothing is under the dummy origin
            self.origin = saved;
            t
        };
        self.out.extend(t);
        self.eol();
        self.origin = n.clone();
    }
    fn directive_ttl(&mut self, t: u32) {
        self.out.extend_from_slice(b"$TTL");
        self.gap();
        let s = self.ttl_text(t);
        self.out.extend(s);
        self.eol();
        self.dttl = Some(t);
    }
    /// a character string field: (text, is_quoted)
    fn string_text(&mut self, s: &[u8]) -> (Vec<u8>, bool) {
        let simple = !s.is_empty()
            && s.iter().all(|&c| (0x21..=0x7e).contains(&c) && !b"\"();\\".contains(&c))
            && !b"@$".contains(&s[0]);
        if simple && self.r.chance(1, 2) {
            return (s.to_vec(), false);
        }
        if self.devs_on
            && !s.is_empty()
            && s.iter().all(|&c| (0x21..=0x7e).contains(&c) && !b"();".contains(&c))
            && s.iter().any(|&c| c == b'"' || c == b'\\')
            && !b"@$\"".contains(&s[0])
            && self.r.chance(1, 2)
        {
            // unquoted with \" and \\ escapes: legal per RFC 1035 5.1 (\X quotes X anywhere)
            self.devs.insert(Dev::EscapeUnquoted);
            let mut o = vec![];
            for &c in s {
                if c == b'"' || c == b'\\' {
                    o.push(b'\\');
                }
                o.push(c);
            }
            return (o, false);
        }
        let mut o = vec![b'"'];
        for &c in s {
            if c == b'"' || c == b'\\' {
                o.push(b'\\');
                o.push(c);
            } else if self.devs_on && (0x21..=0x7e).contains(&c) && self.r.chance(1, 6) {
                self.devs.insert(Dev::DddInString);
                o.extend(format!("\\{:03}", c).bytes());
            } else {
                o.push(c);
            }
        }
        o.push(b'"');
        (o, true)
    }
    fn record(&mut self, rec: &GRec, last: bool) {
        // owner
        let inherit = self.prev_owner.as_ref().map(|p| p.lower() == rec.owner.lower()).unwrap_or(false)
            && !self.plain
            && self.r.chance(2, 3);
        if !inherit {
            let t = self.name_text(&rec.owner, true);
            self.out.extend(t);
        }
        self.prev_owner = Some(rec.owner.clone());
        self.gap();
        // ttl / class
        let omit_ttl = !self.plain
            && match self.dttl {
                Some(d) => d == rec.ttl,
                None => self.last_ttl == Some(rec.ttl),
            }
            && self.r.chance(2, 3);
        let omit_class = !self.plain
            && (self.last_class == Some(rec.class) || (self.last_class.is_none() && rec.class == 1))
            && self.r.chance(1, 2);
        let cls = match rec.class {
            1 => "IN",
            3 => "CH",
            _ => "HS",
        };
        let ttl_first = self.plain || self.r.chance(1, 2);
        for pos in 0..2 {
            if (pos == 0) == ttl_first {
                if !omit_ttl {
                    let t = self.ttl_text(rec.ttl);
                    self.out.extend(t);
                    self.gap();
                    self.last_ttl = Some(rec.ttl);
                }
            } else if !omit_class {
                let t = self.mnemonic(cls);
                self.out.extend(t);
                self.gap();
                self.last_class = Some(rec.class);
            }
        }
        let t = self.mnemonic(rec.data.mnemonic());
        self.out.extend(t);
        // rdata fields
        let mut fields: Vec<(Vec<u8>, bool)> = vec![];
        match &rec.data {
            GData::A(a) => fields.push((format!("{}.{}.{}.{}", a[0], a[1], a[2], a[3]).into_bytes(), false)),
            GData::Ns(n) | GData::Cname(n) | GData::Ptr(n) => fields.push((self.name_text(n, false), false)),
            GData::Mx(p, n) => {
                fields.push((p.to_string().into_bytes(), false));
                fields.push((self.name_text(n, false), false));
            }
            GData::Txt(ss) => {
                for s in ss {
                    let f = self.string_text(s);
                    fields.push(f);
                }
            }
            GData::Soa(m, r, a, b, c, d, e) => {
                fields.push((self.name_text(m, false), false));
                fields.push((self.name_text(r, false), false));
                fields.push((a.to_string().into_bytes(), false));
                for v in [b, c, d, e] {
                    fields.push((self.ttl_text(*v), false));
                }
            }
        }
        let any_quoted = fields.iter().any(|f| f.1);
        let parens = !self.plain
            && (!any_quoted || self.devs_on)
            && self.r.chance(if matches!(rec.data, GData::Soa(..)) { 2 } else { 1 }, 4);
        let (open, close) = if parens {
            let o = self.r.range(0, fields.len() as u64 - 1) as usize;
            let c = if self.r.chance(2, 3) { fields.len() } else { self.r.range(o as u64 + 1, fields.len() as u64) as usize };
            (o, c)
        } else {
            (usize::MAX, usize::MAX)
        };
        let mut inside = false;
        for (i, (f, q)) in fields.iter().enumerate() {
            if i == open {
                self.gap();
                self.out.push(b'(');
                inside = true;
                if self.r.chance(1, 2) {
                    self.list_gap();
                }
            } else if inside {
                self.list_gap();
            } else {
                self.gap();
            }
            if inside && *q {
                self.devs.insert(Dev::QuoteInParens);
            }
            self.out.extend_from_slice(f);
            if i + 1 == close {
                if self.r.chance(1, 2) {
                    self.list_gap();
                }
                self.out.push(b')');
                inside = false;
            }
        }
        if last && !self.plain && self.r.chance(1, 3) {
            // no line terminator at the end of the file
            if self.r.chance(1, 4) {
                self.gap();
            }
            if self.r.chance(1, 4) {
                self.out.push(b';');
                let c = self.comment_text();
                self.out.extend(c);
            }
        } else {
            self.eol();
        }
    }
    /// separator inside parentheses: blanks, line breaks, comments
    fn list_gap(&mut self) {
        loop {
            match self.r.below(6) {
                0..=2 => self.gap(),
                3 => {
                    if self.r.chance(1, 5) {
                        self.out.push(b'\r');
                    }
                    self.out.push(b'\n');
                }
                _ => {
                    self.gap();
                    self.out.push(b';');
                    let c = self.comment_text();
                    self.out.extend(c);
                    self.out.push(b'\n');
                }
            }
            if self.r.chance(2, 3) {
                break;
            }
        }
    }
}

struct Printed {
    text: Vec<u8>,
    devs: BTreeSet<Dev>,
}

fn print_zone(r: &mut Rng, origin: &GName, recs: &[GRec], devs_on: bool, plain: bool) -> Printed {
    let mut p = Printer {
        r,
        out: vec![],
        origin: origin.clone(),
        prev_owner: None,
        dttl: None,
        last_ttl: None,
        last_class: None,
        devs_on,
        devs: BTreeSet::new(),
        plain,
    };
    for (i, rec) in recs.iter().enumerate() {
        p.filler_lines();
        if !plain && p.r.chance(1, 6) {
            let t = if p.r.chance(1, 2) { rec.ttl } else { gen_ttl(&mut *p.r) };
            p.directive_ttl(t);
        }
        if !plain && p.r.chance(1, if devs_on { 4 } else { 7 }) {
            // new origin: an ancestor of the next owner, the zone origin, or something unrelated
            // or a child of the current origin (more often with the deviation layouts on)
            let n = match if p.r.chance(1, if devs_on { 2 } else { 3 }) { 3 } else { p.r.below(3) } {
                3 => {
                    let mut labels = vec![gen_label(&mut *p.r)];
                    labels.extend(p.origin.labels.iter().cloned());
                    fit(GName { labels })
                }
                0 if !rec.owner.labels.is_empty() => {
                    let k = p.r.range(0, rec.owner.labels.len() as u64 - 1) as usize;
                    GName { labels: rec.owner.labels[k..].to_vec() }
                }
                1 => origin.clone(),
                _ => GName { labels: vec![b"other".to_vec(), b"net".to_vec()] },
            };
            p.directive_origin(&n);
            p.filler_lines();
        }
        p.record(rec, i + 1 == recs.len());
    }
    if !p.out.ends_with(b"\n") {
        // nothing may follow an unterminated last line
    } else {
        p.filler_lines();
    }
    Printed { text: p.out, devs: p.devs }
}

// ---------------------------------------------------------------- malformed / garbage families

const HOT: &[u8] = b"\"\"();;@$\\\\..  \t\n\n\r0123456789azAZ-_*\x00\x07\x7f\x85\xa0\xe9\xb2";

fn mutate(r: &mut Rng, text: &mut Vec<u8>) {
    let k = r.range(1, 3);
    for _ in 0..k {
        if text.is_empty() {
            text.push(*r.pick(HOT));
            continue;
        }
        let i = r.below(text.len() as u64) as usize;
        match r.below(4) {
            0 => {
                text.remove(i);
            }
            1 => text.insert(i, *r.pick(HOT)),
            2 => text[i] = *r.pick(HOT),
            _ => {
                // cut the tail
                text.truncate(i);
            }
        }
    }
}

fn soup(r: &mut Rng) -> Vec<u8> {
    const VOC: &[&str] = &[
        "www", "a.b.", "example.com.", "@", "60", "1h", "3w2d", "IN", "CH", "in", "A", "NS", "MX", "TXT", "SOA", "CNAME", "PTR", "AAAA",
        "SRV", "NULL", "ANY", "DNSKEY", "TYPE1", "1.2.3.4", "256.1.1.1", "01.2.3.4", "10", "65536", "4294967296", "\"q s\"", "\"", "(", ")", ";c",
        "$ORIGIN", "$TTL", "$INCLUDE", "$FOO", "$", "rel/path", "x\\.y", "x\\046y", "a\\", "\\", "..", ".", "-a", "a_b", "_a", "*", "xn--a",
        "\"\\065\"", "\"a\\\"b\"", "+5", "-5", "",
    ];
    let n = r.range(1, 16);
    let mut o = vec![];
    for _ in 0..n {
        match r.below(10) {
            0 => o.push(b'\n'),
            1 => o.extend_from_slice(b"\r\n"),
            2 => o.push(b'\t'),
            _ => {}
        }
        o.extend(r.pick(VOC).as_bytes());
        match r.below(6) {
            0 => o.push(b'\n'),
            1 => {}
            _ => o.push(b' '),
        }
    }
    o
}

/// a targeted malformation of a valid, plainly printed zone; the result must be refused
fn malform(r: &mut Rng, origin: &GName) -> (Vec<u8>, &'static str, Option<&'static str>) {
    let recs = gen_zone(r, origin);
    let p = print_zone(r, origin, &recs, false, true);
    let mut t = p.text;
    let line = |r: &mut Rng, s: &str| -> Vec<u8> {
        let mut v = s.as_bytes().to_vec();
        if r.chance(1, 2) {
            v.push(b'\n');
        }
        v
    };
    let which = r.below(16);
    let (what, known): (&'static str, Option<&'static str>) = match which {
        0 => {
            t.extend(line(r, "bad 60 IN TXT \"never closed"));
            ("unclosed-quote", None)
        }
        1 => {
            t.extend_from_slice(b"bad 60 IN TXT ( a b \n");
            ("unclosed-paren", None)
        }
        2 => {
            // the file ends inside the parentheses: right after a token, inside a comment, after a
            // blank, right after the parenthesis (former finding C20-F2c, repaired: no class)
            let s: &[u8] = *r.pick(&[
                &b"bad 60 IN TXT ( a b"[..],
                &b"bad 60 IN TXT ( a b ; c"[..],
                &b"bad 60 IN TXT ( a b ;"[..],
                &b"bad 60 IN TXT (a"[..],
                &b"bad 60 IN TXT ( a b ; c)"[..],
                &b"bad 60 IN TXT ( a b "[..],
                &b"bad 60 IN TXT ("[..],
                &b"bad 60 IN MX ( 10 a.\n ; )\n b"[..],
            ]);
            t.extend_from_slice(s);
            ("unclosed-paren-eof", None)
        }
        3 => {
            t.extend(line(r, "bad 60 IN NOSUCHTYPE 1.2.3.4"));
            ("unknown-type", None)
        }
        4 => {
            let s = *r.pick(&["bad 60 IN MX 10", "bad 60 IN A", "bad 60 IN NS", "bad 60 IN SOA a. b. 1 2 3 4", "bad 60 IN MX"]);
            t.extend(line(r, s));
            ("missing-field", None)
        }
        5 => {
            let s = *r.pick(&[
                    "bad 60 IN MX 65536 a.",
                    "bad 4294967296 IN A 1.2.3.4 ",
                    "bad 60 IN A 1.2.3.256",
                    "bad 60 IN A 1.2.3",
                    "bad 60 IN A 01.2.3.4",
                    "bad 60 IN SOA a. b. 1 2147483648 3 4 5",
                    "bad 60 IN SOA a. b. 4294967296 2 3 4 5",
                    "bad 7102w IN A 1.2.3.4",
                ]);
            t.extend(line(r, s));
            ("out-of-range", None)
        }
        6 => {
            let s = *r.pick(&["bad 60 IN A 1.2.3.4 )", ") bad 60 IN A 1.2.3.4", "bad 60 IN ) A 1.2.3.4"]);
            t.extend(line(r, s));
            ("stray-paren", None)
        }
        7 => {
            t.extend(line(r, "$FOO bar"));
            ("unknown-directive", None)
        }
        8 => {
            let l = "x".repeat(64);
            t.extend(line(r, &format!("{l} 60 IN A 1.2.3.4")));
            ("label-too-long", None)
        }
        9 => {
            let l = "x".repeat(63);
            // 256 octets on the wire: one more than allowed
            let last = "y".repeat(if r.chance(1, 2) { 62 } else { 63 });
            t.extend(line(r, &format!("{l}.{l}.{l}.{last}. 60 IN A 1.2.3.4")));
            ("name-too-long", None)
        }
        10 => {
            t.extend_from_slice(b"dup 60 IN SOA a. b. 1 2 3 4 5\ndup 60 IN SOA a. b. 2 2 3 4 5\n");
            ("second-soa", None)
        }
        11 => {
            let mut u = b"60 IN A 1.2.3.4\n".to_vec();
            u.splice(0..0, b" ".iter().copied());
            u.extend(t);
            t = u;
            ("no-owner-on-first-line", None)
        }
        12 => {
            let mut u = b"first IN A 1.2.3.4\n".to_vec();
            u.extend(t);
            t = u;
            ("no-ttl-anywhere", None)
        }
        13 => {
            let s = *r.pick(&["bad 60 IN A 1.2.3.4 5.6.7.8", "bad 60 IN MX 10 a. b.", "bad 60 IN NS a. extra", "bad 60 IN SOA a. b. 1 2 3 4 5 6"]);
            t.extend(line(r, s));
            ("trailing-field", Some("C20-F2d-trailing-field-ignored"))
        }
        14 => {
            let s = *r.pick(&["$TTL\n", "$ORIGIN\n", "$TTL abc", "$ORIGIN a..b."]);
            t.extend(line(r, s));
            ("bad-directive-argument", None)
        }
        _ => {
            let s = *r.pick(&["bad 60 IN A 1.2.3.4\rmore", "bad 60 IN TXT \"a\\", "bad 60 IN TXT \"\\12\"", "bad..dots 60 IN A 1.2.3.4", "-bad 60 IN A 1.2.3.4"]);
            t.extend(line(r, s));
            ("bad-characters", None)
        }
    };
    (t, what, known)
}

/// boundary family for the former 4096-iteration cap (repaired in /repo 06f967f): one lexeme (comment, token, blank run, quoted
/// string, parenthesised group) of a length around the cap inside a valid zone
fn long_lexeme(r: &mut Rng, origin: &GName) -> (Vec<u8>, Option<Vec<GRec>>, usize) {
    let recs = gen_zone(r, origin);
    let mut t = print_zone(r, origin, &recs, false, true).text;
    let n = *r.pick(&[4085usize, 4089, 4090, 4091, 4092, 4093, 4094, 4095, 4096, 4100, 5000, 2046, 2047, 2048]);
    let fill = |c: u8, n: usize| -> Vec<u8> { std::iter::repeat(c).take(n).collect() };
    let mut recs = recs;
    match r.below(5) {
        0 => {
            t.push(b';');
            t.extend(fill(b'c', n));
            t.push(b'\n');
        }
        1 => {
            let mut u = b";".to_vec();
            u.extend(fill(b'c', n));
            u.push(b'\n');
            u.extend(t);
            t = u;
        }
        2 => {
            // legal: a run of blanks before a comment
            t.extend(fill(b' ', n));
            t.extend_from_slice(b"; x\n");
        }
        3 => {
            // legal: many short strings inside parentheses (n characters in the group)
            let k = *r.pick(&[500usize, 676, 680, 681, 682, 683, 684, 690, 1100]);
            let owner = GName { labels: vec![b"big".to_vec()] };
            t.extend_from_slice(b"big. 60 IN TXT (");
            for _ in 0..k {
                t.extend_from_slice(b" abc");
            }
            t.extend_from_slice(b" )\n");
            recs.push(GRec { owner, class: 1, ttl: 60, data: GData::Txt(vec![b"abc".to_vec(); k]) });
            // (more than 255 strings of 3 octets is still a legal TXT RDATA of < 65535 octets)
        }
        _ => {
            // not legal as a label, legal to refuse: a token of n characters
            t.extend(fill(b'a', n));
            t.extend_from_slice(b" 60 IN A 1.2.3.4\n");
            return (t, None, n);
        }
    }
    (t, Some(recs), n)
}

// ---------------------------------------------------------------- cases

/// records of types outside the Coq model (AAAA, SRV, HINFO, SSHFP): one plain line per record with an absolute,
/// unique owner; returns the text and the expected lower-cased dump (RDATA as the wire bytes the text denotes)
fn other_types(r: &mut Rng, origin: &GName) -> (Vec<u8>, Vec<Vec<u8>>) {
    const WORDS: &[&str] = &["www", "mail", "ns1", "sip", "host-1", "a1b2", "x", "_tcp"];
    let n = r.range(1, 4) as usize;
    let mut text: Vec<u8> = Vec::new();
    let mut exp = Vec::new();
    let wire_name = |labels: &[Vec<u8>]| -> Vec<u8> {
        let mut w = vec![];
        for l in labels {
            w.push(l.len() as u8);
            w.extend(lower(l));
        }
        w.push(0);
        w
    };
    let dotted = |labels: &[Vec<u8>]| -> String {
        if labels.is_empty() {
            ".".to_string()
        } else {
            labels.iter().map(|l| String::from_utf8_lossy(l).to_string() + ".").collect()
        }
    };
    for k in 0..n {
        let mut owner = vec![format!("o{k}").into_bytes()];
        if r.chance(1, 2) {
            owner.push(r.pick(WORDS).as_bytes().to_vec());
        }
        owner.extend(origin.labels.iter().cloned());
        let ttl = r.range(0, 604800) as u32;
        let mut target = vec![r.pick(WORDS).as_bytes().to_vec()];
        target.extend(origin.labels.iter().cloned());
        let (tname, tcode, rtext, rwire): (&str, u16, String, Vec<u8>) = match r.below(4) {
            0 => {
                let mut a = [0u8; 16];
                for b in a.iter_mut() {
                    *b = if r.chance(1, 3) { 0 } else { r.next() as u8 };
                }
                ("AAAA", 28, std::net::Ipv6Addr::from(a).to_string(), a.to_vec())
            }
            1 => {
                let (p, w, port) = (r.below(65536) as u16, r.below(65536) as u16, r.below(65536) as u16);
                let mut wire = vec![];
                for v in [p, w, port] {
                    wire.extend_from_slice(&v.to_be_bytes());
                }
                wire.extend(wire_name(&target));
                ("SRV", 33, format!("{p} {w} {port} {}", dotted(&target)), wire)
            }
            2 => {
                let cpu = *r.pick(&["INTEL-386", "VAX-11/780", "arm64", "x"]);
                let os = *r.pick(&["UNIX", "Linux", "TOPS-20", "y"]);
                let mut wire = vec![cpu.len() as u8];
                wire.extend(cpu.as_bytes());
                wire.push(os.len() as u8);
                wire.extend(os.as_bytes());
                ("HINFO", 13, format!("{cpu} {os}"), wire)
            }
            _ => {
                let alg = r.range(1, 4) as u8;
                let ft = r.range(1, 2) as u8;
                let fp = r.bytes(if ft == 1 { 20 } else { 32 });
                let hex: String = fp.iter().map(|b| format!("{b:02X}")).collect();
                let mut wire = vec![alg, ft];
                wire.extend(&fp);
                ("SSHFP", 44, format!("{alg} {ft} {hex}"), wire)
            }
        };
        let tname = if r.chance(1, 4) { tname.to_lowercase() } else { tname.to_string() };
        let sep = if r.chance(1, 3) { "\t" } else { " " };
        text.extend(format!("{}{sep}{ttl}{sep}IN{sep}{tname}{sep}{rtext}\n", dotted(&owner)).into_bytes());
        let mut e = vec![];
        GName { labels: owner }.enc(&mut e);
        e.push(255);
        e.extend_from_slice(&1u16.to_be_bytes());
        e.extend_from_slice(&ttl.to_be_bytes());
        e.push(0xEE);
        e.extend_from_slice(&tcode.to_be_bytes());
        e.extend(rwire);
        exp.push(e);
    }
    exp.sort();
    (text, exp)
}

fn origin_coq(o: Option<&GName>) -> String {
    match o {
        None => "None".into(),
        Some(n) => format!("(Some {})", coq_list(n.labels.iter().map(|l| coq_pb(l)))),
    }
}

struct Built {
    origin: Option<GName>,
    text: Vec<u8>,
    kind: String,
    /// Some(expected lower-cased dump) for valid zones
    expect: Option<Vec<Vec<u8>>>,
    /// the text must be refused
    must_err: bool,
    /// finding classes this case falls in (a failing oracle is attributed to the first)
    classes: Vec<&'static str>,
    note: String,
}

const CORPUS_BASE: u64 = 1_000_000_000;

fn corpus_files() -> Vec<std::path::PathBuf> {
    let dir = std::env::var("VP_CORPUS").unwrap_or_else(|_| "/verif/corpus/C20".into());
    let mut v: Vec<_> = std::fs::read_dir(dir)
        .map(|d| d.filter_map(|e| e.ok()).map(|e| e.path()).filter(|p| p.extension().map(|x| x == "zone").unwrap_or(false)).collect())
        .unwrap_or_default();
    v.sort();
    v
}

fn leak(s: String) -> &'static str {
    Box::leak(s.into_boxed_str())
}

/// hand-picked witnesses: first line `;; origin=<name> expect=<ok|err|panic|dev|accepted-malformed> known=<id|->`
fn build_corpus(k: usize) -> Built {
    let files = corpus_files();
    let path = &files[k];
    let raw = std::fs::read(path).unwrap();
    let nl = raw.iter().position(|&c| c == b'\n').unwrap();
    let head = String::from_utf8_lossy(&raw[..nl]).to_string();
    let text = raw[nl + 1..].to_vec();
    let field = |k: &str| head.split_whitespace().find_map(|w| w.strip_prefix(k).map(|x| x.to_string())).unwrap_or_default();
    let origin = field("origin=");
    let expect = field("expect=");
    let known = field("known=");
    let origin = GName { labels: origin.split('.').filter(|l| !l.is_empty()).map(|l| l.as_bytes().to_vec()).collect() };
    let classes: Vec<&'static str> = if known == "-" || known.is_empty() { vec![] } else { vec![leak(known)] };
    Built {
        origin: Some(origin),
        text,
        kind: format!("corpus-{expect}"),
        expect: None,
        must_err: expect == "err" || expect == "accepted-malformed",
        classes,
        note: path.file_name().unwrap().to_string_lossy().to_string(),
    }
}

fn build(seed: u64, index: u64) -> Built {
    if index >= CORPUS_BASE {
        return build_corpus((index - CORPUS_BASE) as usize);
    }
    let mut r = Rng::for_case(seed, index);
    let o = r.pick(ORIGINS);
    let origin = GName { labels: o.iter().map(|l| l.as_bytes().to_vec()).collect() };
    let fam = index % 20;
    let _ = seed;
    match fam {
        0..=9 => {
            let recs = gen_zone(&mut r, &origin);
            let plain = r.chance(1, 10);
            let p = print_zone(&mut r, &origin, &recs, false, plain);
            let mut e: Vec<Vec<u8>> = recs.iter().map(expected_bytes).collect();
            e.sort();
            Built { origin: Some(origin), text: p.text, kind: "layout".into(), expect: Some(e), must_err: false, classes: vec![], note: format!("{} records", recs.len()) }
        }
        10..=11 => {
            let recs = gen_zone(&mut r, &origin);
            let p = print_zone(&mut r, &origin, &recs, true, false);
            let mut e: Vec<Vec<u8>> = recs.iter().map(expected_bytes).collect();
            e.sort();
            let classes: Vec<&'static str> = p.devs.iter().map(|d| d.id()).collect();
            let kind = if classes.is_empty() { "layout".to_string() } else { "layout-deviation".to_string() };
            Built { origin: Some(origin), text: p.text, kind, expect: Some(e), must_err: false, classes, note: format!("{} records", recs.len()) }
        }
        12..=13 => {
            let (text, what, known) = malform(&mut r, &origin);
            Built {
                origin: Some(origin),
                text,
                kind: format!("malformed-{what}"),
                expect: None,
                must_err: true,
                classes: known.into_iter().collect(),
                note: String::new(),
            }
        }
        14..=16 => {
            let recs = gen_zone(&mut r, &origin);
            let devs_on = r.chance(1, 2);
            let mut text = print_zone(&mut r, &origin, &recs, devs_on, false).text;
            mutate(&mut r, &mut text);
            let none = r.chance(1, 10);
            Built { origin: if none { None } else { Some(origin) }, text, kind: "mutated".into(), expect: None, must_err: false, classes: vec![], note: String::new() }
        }
        17 if (index / 20) % 2 == 0 => {
            let (text, e) = other_types(&mut r, &origin);
            Built { origin: Some(origin), text, kind: "other-types".into(), expect: Some(e), must_err: false, classes: vec![], note: String::new() }
        }
        17 => {
            let text = soup(&mut r);
            let none = r.chance(1, 6);
            Built { origin: if none { None } else { Some(origin) }, text, kind: "token-soup".into(), expect: None, must_err: false, classes: vec![], note: String::new() }
        }
        18 => {
            let n = r.range(0, 60) as usize;
            let text: Vec<u8> = (0..n).map(|_| if r.chance(2, 3) { *r.pick(HOT) } else { r.next() as u8 }).collect();
            Built { origin: Some(origin), text, kind: "raw-garbage".into(), expect: None, must_err: false, classes: vec![], note: String::new() }
        }
        _ => {
            if (index / 20) % 4 == 0 {
                let (text, recs, n) = long_lexeme(&mut r, &origin);
                let e = recs.map(|recs| {
                    let mut e: Vec<Vec<u8>> = recs.iter().map(expected_bytes).collect();
                    e.sort();
                    e
                });
                Built { origin: Some(origin), text, kind: "long-lexeme".into(), expect: e, must_err: false, classes: vec![], note: format!("n={n}") }
            } else {
                let text = soup(&mut r);
                Built { origin: Some(origin), text, kind: "token-soup".into(), expect: None, must_err: false, classes: vec![], note: String::new() }
            }
        }
    }
}

fn case(seed: u64, index: u64) -> (CaseOut, Vec<&'static str>) {
    let b = build(seed, index);
    let obs = run_impl(b.origin.as_ref(), &b.text);
    let coq = format!(
        "CParse {} {} {} {}",
        origin_coq(b.origin.as_ref()),
        coq_pb(&b.text),
        obs.class,
        coq_list(obs.recs.iter().map(|x| coq_pb(x)))
    );
    // ---- the property evaluated directly on the implementation
    let mut fail: Option<String> = None;
    let mut classes = b.classes.clone();
    if obs.class == 3 {
        // a panic is never inside a finding class (the lexer cap, former F2, is repaired)
        fail = Some(format!("implementation panicked: {}", obs.msg));
        classes.clear();
    } else if let Some(e) = &b.expect {
        if obs.class != 0 {
            fail = Some(format!("a well-formed zone was refused: {}", obs.msg));
        } else if &obs.lrecs != e {
            let missing = e.iter().filter(|x| !obs.lrecs.contains(x)).count();
            let extra = obs.lrecs.iter().filter(|x| !e.contains(x)).count();
            fail = Some(format!(
                "loaded records differ from the records the text denotes: {} expected, {} loaded, {} missing, {} unexpected",
                e.len(),
                obs.lrecs.len(),
                missing,
                extra
            ));
        }
    } else if b.must_err && obs.class == 0 {
        fail = Some(format!("malformed text ({}) was accepted with {} records", b.kind, obs.recs.len()));
    } else if b.kind == "corpus-ok" && obs.class != 0 {
        fail = Some(format!("a well-formed zone was refused: {}", obs.msg));
    } else if b.kind == "corpus-dev" {
        // witness of a legal layout that is mishandled (refused, or loaded to other records)
        fail = Some(format!("finding witness {} reproduces: class={} {}", b.note, obs.class, obs.msg));
    }
    // a deviation class explains a failure only if the failure is there; a failure in a case
    // without a class is a plain violation
    let known = match (&fail, classes.first()) {
        (Some(_), Some(c)) => Some(c.to_string()),
        _ => None,
    };
    let hit: Vec<&'static str> = if fail.is_some() { classes.clone() } else { vec![] };
    // a failure inside a finding class is always reported, with the class id: whether that id is an
    // accepted open finding is the driver's decision (known_findings.json), never the harness's
    let (oracle_fail, known) = (fail, known);
    let text_in = format!(
        "origin={} text={}",
        b.origin.as_ref().map(|o| String::from_utf8_lossy(&o.labels.join(&b'.')).to_string() + ".").unwrap_or("-".into()),
        show_text(&b.text)
    );
    let mut shown = text_in.clone();
    if shown.len() > 3000 {
        shown.truncate(3000);
        shown.push_str("...");
    }
    let out = CaseOut {
        index,
        coq,
        text: format!("seed={seed} index={index} {} {} {} => class={} {} recs={}", b.kind, b.note, shown, obs.class, obs.msg, obs.recs.len()),
        key: text_in,
        nontrivial: b.text.iter().filter(|&&c| c == b'\n').count() >= 1 && b.text.len() >= 12,
        kind: b.kind.clone(),
        oracle_fail,
        known,
    };
    (out, hit)
}

fn main() {
    quiet_panics();
    let args = parse_args();
    if args.extra.contains_key("probe") {
        let mut buf = vec![];
        std::io::stdin().read_to_end(&mut buf).unwrap();
        let origin = args.extra.get("probe").cloned().unwrap_or_default();
        let on = if origin == "-" {
            None
        } else {
            Some(GName { labels: origin.split('.').filter(|l| !l.is_empty()).map(|l| l.as_bytes().to_vec()).collect() })
        };
        let o = run_impl(on.as_ref(), &buf);
        println!("text: {}", show_text(&buf));
        println!("class={} {}", o.class, o.msg);
        for r in &o.recs {
            println!("  {}", hex(r));
        }
        println!("COQ CParse {} {} {} {}", origin_coq(on.as_ref()), coq_pb(&buf), o.class, coq_list(o.recs.iter().map(|x| coq_pb(x))));
        return;
    }
    if let Some((seed, index)) = args.replay {
        let (c, hit) = case(seed, index);
        println!("{}", c.text);
        println!("COQ {}", c.coq);
        if !hit.is_empty() {
            println!("DEVIATION-CLASSES {:?}", hit);
        }
        if let Some(f) = c.oracle_fail {
            println!("ORACLE-FAIL {f}");
        }
        return;
    }
    if std::env::var("VPH_SHARD").is_err() {
        // 16 model evaluations run in parallel: keep the shards small enough to use them
        std::env::set_var("VPH_SHARD", ((args.n as usize + 15) / 16).clamp(50, 500).to_string());
    }
    let mut cases = vec![];
    let mut devs: std::collections::BTreeMap<String, u64> = Default::default();
    let mut dev_example: std::collections::BTreeMap<String, String> = Default::default();
    for index in 0..args.n {
        let (c, hit) = case(args.seed, index);
        if let Some(h) = hit.first() {
            *devs.entry(h.to_string()).or_default() += 1;
            dev_example.entry(h.to_string()).or_insert_with(|| c.text.chars().take(400).collect());
        }
        cases.push(c);
    }
    for k in 0..corpus_files().len() {
        let (c, hit) = case(args.seed, CORPUS_BASE + k as u64);
        if let Some(h) = hit.first() {
            *devs.entry(h.to_string()).or_default() += 1;
            dev_example.entry(h.to_string()).or_insert_with(|| c.text.chars().take(400).collect());
        }
        cases.push(c);
    }
    emit(
        "C20",
        "C20",
        &args,
        &cases,
        "zone texts: record sets (A NS CNAME PTR MX TXT SOA; names with escaped dots, wildcard and underscore labels, boundary TTLs, strings with quotes/backslashes/blanks/Latin-1) printed by an independent master-file printer with per-line random layout (absolute/relative/@/inherited owner, TTL and class explicit or inherited in either order, TTL units, $ORIGIN/$TTL directives, comments, blank lines, CRLF, parentheses with line breaks and comments, quoted/unquoted strings, missing final newline); targeted malformations; 1-3 character mutations; token soup; raw garbage; lexemes around the 4096-iteration cap. Non-trivial = at least one complete line and 12 characters; distinct by (origin, text).",
        serde_json::json!({"deviations_observed": devs, "deviation_examples": dev_example}),
    );
}
