//! C12 — histories of UPDATE messages against a real SqliteZoneHandler (ZoneHandler::update with
//! TSIG-signed wire messages). Observation per message: rcode, SOA serial, full zone dump.
//! Oracle: an independent RFC 2136 interpreter applied to the observed pre-state of every
//! message + the zone invariants of the property after every message.

#[path = "../c12_shared.rs"]
mod shared;
use shared::*;
use vph::*;

// ---------------------------------------------------------------- running + oracle

struct Step {
    rcode: u16,
    serial: u32,
    dump: Dump,
}

fn run_impl(h: &Hist) -> (Dump, Vec<Step>) {
    let handler = new_handler(&h.init);
    let d0 = dump(&handler);
    let mut steps = vec![];
    for (i, m) in h.msgs.iter().enumerate() {
        let rcode = do_update(&handler, m, 100 + i as u16);
        let d = dump(&handler);
        steps.push(Step { rcode, serial: futures_executor::block_on(handler.serial()), dump: d });
    }
    (d0, steps)
}

/// what kind of disagreement with the property a step shows
#[derive(Clone, Copy, PartialEq, Eq, Debug)]
enum Cat {
    Invariant,     // one SOA / apex NS / CNAME exclusivity broken by this message
    Panic,         // the update panicked
    Decision,      // accepted where RFC 2136 rejects, or the reverse
    RejectChanged, // answered with an error but the zone changed
    Content,       // accepted, contents differ from 3.4.2
    SerialStuck,   // content changed, serial not advanced
    SerialMoved,   // content unchanged, serial moved
    SerialBehind,  // serial behind the one the update itself set
}

/// Known-finding classes. A disagreement is `known` only if a class (a) lists its category and
/// (b) its trigger, a decidable predicate of the zone before the message and the message itself,
/// holds for this very message; everything else is a fresh violation.
fn known_class(cat: Cat, pre: &Dump, m: &MMsg, rcode: u16) -> Option<&'static str> {
    use Cat::*;
    let origin = origin_id();
    let z = rzone_of(pre);
    let spre = dump_serial(pre);
    let empty_names: Vec<&NameId> = pre.iter().filter(|(_, _, r)| r.is_empty()).map(|(n, _, _)| n).collect();
    let mentions = |n: &NameId| m.pre.iter().chain(m.upd.iter()).any(|r| r.name == *n);

    // F-a: "delete all RRsets from a name" at the apex removes SOA and NS (retain predicate inverted);
    // the SOA-less zone then answers SERVFAIL after applying the rest
    let t_apex_wipe = m.upd.iter().any(|u| u.class == C_ANY && u.rtype == T_ANY && u.name == origin);
    // F-b: an SOA whose owner is not the apex is added to the zone
    let t_soa_not_apex = m.upd.iter().any(|u| u.class == C_IN && u.rtype == T_SOA && u.name != origin);
    // F6: `serial += 1` at 2^32-1 (debug: panic with the SOA already removed) ...
    let t_serial_max = spre == u32::MAX || m.upd.iter().any(|u| matches!(u.data, Data::Soa(s, _) if s == u32::MAX) && u.class == C_IN && u.name == origin);
    // ... and SOA updates compared with plain `<=` instead of RFC 1982
    let t_soa_cmp = m.upd.iter().any(|u| match (&u.data, u.class, u.name == origin) {
        (Data::Soa(ns, _), C_IN, true) => {
            let mut cur = vec![spre];
            for v in &m.upd {
                if let Data::Soa(s, _) = v.data {
                    cur.push(s);
                }
            }
            cur.iter().any(|zs| (*ns > *zs) != serial_lt(*zs, *ns))
        }
        _ => false,
    });
    // F-c: "delete all RRsets from a name" below the apex keeps NS (and SOA) RRsets
    let t_keeps_ns = m.upd.iter().enumerate().any(|(i, u)| {
        u.class == C_ANY && u.rtype == T_ANY && u.name != origin && {
            let zi = rfc_apply(&z, &origin, &m.upd[..i]);
            zi.keys().any(|(n, t)| *n == u.name && (*t == T_NS || *t == T_SOA))
        }
    });
    // F-d: RRsets emptied by a class-NONE delete stay in the map: they block CNAMEs, count as
    // "updated" when removed, and shadow other types in name-in-use tests
    let t_empty = empty_names.iter().any(|n| mentions(n))
        || m.upd.iter().enumerate().any(|(i, u)| u.class == C_NONE && m.upd[i + 1..].iter().any(|v| v.name == u.name));
    // F-e: adding an RR whose RDATA is already there does not replace the TTL
    let t_ttl = m.upd.iter().enumerate().any(|(i, u)| {
        u.class == C_IN
            && u.rtype != T_CNAME
            && u.rtype != T_SOA
            && (z.get(&(u.name.clone(), u.rtype)).map(|r| r.iter().any(|x| x.0 == u.data && x.1 != u.ttl)).unwrap_or(false)
                || m.upd[..i].iter().any(|v| v.class == C_IN && v.name == u.name && v.rtype == u.rtype && v.data == u.data && v.ttl != u.ttl))
    });
    // F-f: re-adding the CNAME that is already there, or updates that cancel out, bump the serial
    let t_bump = || {
        let readd = m.upd.iter().any(|u| u.class == C_IN && u.rtype == T_CNAME && z.get(&(u.name.clone(), T_CNAME)).map(|r| r.iter().any(|x| x.0 == u.data && x.1 == u.ttl)).unwrap_or(false));
        readd || (1..m.upd.len()).any(|k| rfc_apply(&z, &origin, &m.upd[..k]) != z)
    };
    // F-g: prerequisites go through the query lookup path (CNAME chasing, wildcard synthesis, referrals)
    let t_via_lookup = m.pre.iter().any(|p| {
        let has_cname = z.contains_key(&(p.name.clone(), T_CNAME)) && p.rtype != T_CNAME;
        let extra = p.name.len().saturating_sub(origin.len());
        let below_cut = (1..=extra).any(|k| {
            let anc: NameId = p.name[extra - k..].to_vec();
            anc != origin && z.contains_key(&(anc.clone(), T_NS)) && !z.contains_key(&(anc, T_SOA))
        });
        let wild = !z.contains_key(&(p.name.clone(), p.rtype))
            && p.name.first() != Some(&0)
            && (1..p.name.len()).any(|k| {
                let mut w: NameId = vec![0];
                w.extend_from_slice(&p.name[k..]);
                z.keys().any(|(n, _)| *n == w)
            });
        has_cname || below_cut || wild
    });
    // F-h: value-dependent prerequisites test membership of each RR, not equality of the RRset
    let t_subset = m.pre.iter().any(|p| {
        p.class == C_IN
            && z.get(&(p.name.clone(), p.rtype))
                .map(|r| r.iter().any(|x| !m.pre.iter().any(|q| q.class == C_IN && q.name == p.name && q.rtype == p.rtype && q.data == x.0)))
                .unwrap_or(false)
    });

    // C12-apex-delete-all, C12-delete-name-keeps-ns (fix 9a1aca9) and C12-serial-arith (fix 118f816)
    // are repaired: they are no longer known classes, a reappearance is a plain oracle failure
    let _ = (t_apex_wipe, t_serial_max, t_soa_cmp, t_keeps_ns, rcode, spre);
    let pick = |c: &[(bool, &'static str)]| c.iter().find(|(t, _)| *t).map(|(_, id)| *id);
    match cat {
        Panic => None,
        Invariant => pick(&[(t_soa_not_apex, "C12-soa-not-apex")]),
        RejectChanged => None,
        Decision => pick(&[(t_via_lookup, "C12-prereq-via-lookup"), (t_subset, "C12-prereq-subset"), (t_empty, "C12-empty-rrset-kept")]),
        Content => pick(&[(t_soa_not_apex, "C12-soa-not-apex"), (t_ttl, "C12-ttl-not-replaced"), (t_empty, "C12-empty-rrset-kept")]),
        SerialStuck => pick(&[(t_ttl, "C12-ttl-not-replaced"), (t_empty, "C12-empty-rrset-kept")]),
        SerialMoved => pick(&[(t_empty, "C12-empty-rrset-kept"), (t_bump(), "C12-serial-bump-without-change")]),
        SerialBehind => None,
    }
}

/// oracle verdict for one step: None = agrees with the property; Some((why, known-class))
fn judge(pre: &Dump, m: &MMsg, st: &Step) -> Option<(String, Option<String>)> {
    let (cat, why) = judge_raw(pre, m, st)?;
    let k = known_class(cat, pre, m, st.rcode).map(|s| s.to_string());
    Some((format!("{cat:?}: {why}"), k))
}

fn judge_raw(pre: &Dump, m: &MMsg, st: &Step) -> Option<(Cat, String)> {
    let origin = origin_id();
    let zpre = rzone_of(pre);
    let zpost = rzone_of(&st.dump);
    // the property speaks about well-formed zones: once a (reported) defect has broken the zone,
    // later messages are only held to "an error answer changes nothing"
    if invariants(&zpre, &origin).is_some() {
        if st.rcode != 0 && st.rcode != 99 && st.rcode != 2 && zpost != zpre {
            return Some((Cat::RejectChanged, format!("message answered with rcode {} but the zone changed", st.rcode)));
        }
        return None;
    }
    if st.rcode == 99 {
        return Some((Cat::Panic, "the update panicked".into()));
    }
    if let Some(why) = invariants(&zpost, &origin) {
        return Some((Cat::Invariant, format!("zone invariant broken by the message: {why}")));
    }
    let spre = dump_serial(pre);
    let spost = dump_serial(&st.dump);
    let expect_rc = if !m.auth {
        5
    } else {
        match rfc_prereq(&zpre, &origin, &m.pre) {
            0 => rfc_prescan(&origin, &m.upd),
            c => c,
        }
    };
    if st.rcode != 0 && zpost != zpre {
        return Some((Cat::RejectChanged, format!("message answered with rcode {} but the zone changed", st.rcode)));
    }
    if expect_rc != 0 {
        if st.rcode == 0 {
            return Some((Cat::Decision, format!("RFC 2136 rejects the message (rcode {expect_rc}) but the server answered NOERROR")));
        }
        return None;
    }
    if st.rcode != 0 {
        return Some((Cat::Decision, format!("RFC 2136 accepts the message but the server answered rcode {}", st.rcode)));
    }
    let want = rfc_apply(&zpre, &origin, &m.upd);
    let strip = |z: &RZone| -> RZone {
        z.iter()
            .map(|(k, v)| {
                (
                    k.clone(),
                    v.iter()
                        .map(|(d, t)| match d {
                            Data::Soa(_, r) if k.0 == origin => (Data::Soa(0, *r), *t),
                            d => (d.clone(), *t),
                        })
                        .collect(),
                )
            })
            .collect()
    };
    if strip(&want) != strip(&zpost) {
        return Some((Cat::Content, format!("accepted message: zone differs from RFC 2136 3.4.2: missing {:?} unexpected {:?}", diff(&want, &zpost), diff(&zpost, &want))));
    }
    let changed = want != zpre;
    let want_serial = dump_serial(&want.iter().map(|(k, v)| (k.0.clone(), k.1, v.clone())).collect());
    if !changed && spost != spre {
        return Some((Cat::SerialMoved, format!("content unchanged but SOA serial moved ({spre} -> {spost})")));
    }
    if changed && want_serial != spre {
        // the update itself set a (RFC 1982) newer serial: the zone must be at or past it
        if spost != want_serial && !serial_lt(want_serial, spost) {
            return Some((Cat::SerialBehind, format!("SOA serial {spost} is behind the serial {want_serial} set by the update")));
        }
    } else if changed && !serial_lt(spre, spost) {
        return Some((Cat::SerialStuck, format!("content changed but SOA serial did not advance ({spre} -> {spost})")));
    }
    None
}

fn diff(a: &RZone, b: &RZone) -> Vec<String> {
    let mut out = vec![];
    for (k, v) in a {
        for x in v {
            if !b.get(k).map(|w| w.contains(x)).unwrap_or(false) {
                out.push(format!("{}/t{}/{}@{}", txt_name(&k.0), k.1, txt_data(&x.0), x.1));
            }
        }
    }
    out
}

fn case(seed: u64, index: u64) -> CaseOut {
    let mut r = Rng::for_case(seed, index);
    let max_len = if index % 7 == 0 { 10 } else { 6 };
    let h = if index < FIXED { fixed_history(index) } else { gen_history(&mut r, max_len) };
    let ovf = overflow_panics();
    let (d0, steps) = run_impl(&h);
    let mut oracle_fail = None;
    let mut known = None;
    let mut pre = &d0;
    for (i, (m, st)) in h.msgs.iter().zip(&steps).enumerate() {
        if let Some((why, k)) = judge(pre, m, st) {
            if oracle_fail.is_none() || (known.is_some() && k.is_none()) {
                oracle_fail = Some(format!("message {}: {} | message = {} | zone before = {}", i + 1, why, txt_msg(m), txt_dump(pre)));
                known = k;
            }
        }
        pre = &st.dump;
    }
    // packed case: ovf, origin, init, msgs, initial dump, then per message (rcode, serial, dump if changed)
    let mut e = Enc::default();
    e.num(ovf as u64);
    e.name(&origin_id());
    e.rrs(&h.init);
    e.msgs(&h.msgs);
    e.dump(&d0);
    e.num(steps.len() as u64);
    let mut prev = &d0;
    for st in &steps {
        e.num(st.rcode as u64);
        e.num(st.serial as u64);
        e.opt_dump(&st.dump, prev);
        prev = &st.dump;
    }
    let coq = format!("CPacked {}", coq_pb(&e.0));
    let key = format!(
        "init[{}] {}",
        h.init.iter().map(txt_rr).collect::<Vec<_>>().join(" "),
        h.msgs.iter().map(txt_msg).collect::<Vec<_>>().join(" ; ")
    );
    let out = steps.iter().map(|s| format!("rc{}/s{}", s.rcode, s.serial)).collect::<Vec<_>>().join(",");
    let accepted = steps.iter().filter(|s| s.rcode == 0).count();
    CaseOut {
        index,
        coq,
        text: format!("seed={seed} index={index} {} {key} => {out}", h.kind),
        key,
        nontrivial: accepted >= 1 && h.msgs.len() >= 2,
        kind: h.kind.to_string(),
        oracle_fail,
        known,
    }
}

fn main() {
    quiet_panics();
    let args = parse_args();
    if let Some((seed, index)) = args.replay {
        let c = case(seed, index);
        println!("{}", c.text);
        println!("COQ {}", c.coq);
        if let Some(f) = c.oracle_fail {
            if let Some(k) = c.known {
                println!("KNOWN {k} {f}");
            } else {
                println!("ORACLE-FAIL {f}");
            }
        }
        return;
    }
    if std::env::var("VPH_SHARD").is_err() {
        // ~16 ms per case inside Coq: spread over the 16 coqc jobs of the driver
        std::env::set_var("VPH_SHARD", ((args.n as usize + FIXED as usize) / 16 + 1).max(40).to_string());
    }
    let cases: Vec<CaseOut> = (0..args.n + FIXED).map(|i| case(args.seed, i)).collect();
    if args.extra.contains_key("probe") {
        let mut hist: std::collections::BTreeMap<String, (u64, String)> = Default::default();
        for c in &cases {
            if let Some(f) = &c.oracle_fail {
                let why = f.split('|').next().unwrap().split(':').skip(1).collect::<Vec<_>>().join(":");
                let why: String = why.chars().filter(|c| !c.is_ascii_digit()).take(70).collect();
                let e = hist.entry(format!("{:?} {}", c.known, why)).or_insert((0, f.clone()));
                e.0 += 1;
            }
        }
        for (k, (n, ex)) in hist {
            println!("{n:6} {k}\n        e.g. {ex}");
        }
        return;
    }
    emit(
        "C12",
        "C12",
        &args,
        &cases,
        "histories of 1..6 (every 7th: 1..10) UPDATE messages against a zone built from a random subset of a 16-record pool (apex SOA+NS always; serial near 2^32 in 15%); each message has 0..2 prerequisites and 0..3 updates drawn from every row of RFC 2136 tables 3.2.4 / 3.4.2.6 over 9 owner names (apex, wildcard, below a cut, CNAME owners), 7 types, 3 RDATA per type, 3 TTLs, biased towards records already mentioned; malformed forms (TTL, class, out-of-zone, meta types, non-empty RDATA for ANY, empty RDATA for IN/NONE, unsigned) at rates 0/5/15%. Non-trivial = at least two messages and at least one accepted; distinct by (initial zone, messages).",
        serde_json::json!({"overflow_checks": overflow_panics()}),
    );
}
